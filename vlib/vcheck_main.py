import importlib
import os
import sys
import traceback

VERIF = os.path.dirname(os.path.dirname(os.path.abspath(__file__)))
sys.path.insert(0, VERIF)
sys.path.insert(0, os.path.join(VERIF, "vlib"))


def main():
    if len(sys.argv) < 2:
        print("usage: vcheck <Cxx> --tier quick|thorough [--replay path]")
        return 2
    pid = sys.argv[1].upper()
    import common
    args = common.main_args(sys.argv[2:])
    try:
        mod = importlib.import_module("monitors." + pid.lower())
    except ImportError:
        traceback.print_exc()
        return 2
    try:
        return int(mod.run(args.tier, args.replay))
    except Exception:
        traceback.print_exc()
        print("HARNESS-FAILURE property=%s (inconclusive)" % pid)
        return 2


if __name__ == "__main__":
    sys.exit(main())
