import importlib
import os
import sys
import traceback

VERIF = os.path.dirname(os.path.dirname(os.path.abspath(__file__)))
sys.path.insert(0, VERIF)
sys.path.insert(0, os.path.join(VERIF, "vlib"))


def generic_replay(pid, path):
    """Re-run the scenario files saved with a violation and print what was recorded about it."""
    import glob
    import json
    import common
    path = os.path.abspath(path)
    if os.path.isfile(path):
        path = os.path.dirname(path)
    vj = os.path.join(path, "violation.json")
    if os.path.exists(vj):
        v = json.load(open(vj))
        print("recorded violation: key=%s seed=%s tier=%s" % (v.get("key"), v.get("seed"), v.get("tier")))
        print("  " + str(v.get("text"))[:2000])
    scns = sorted(glob.glob(os.path.join(path, "*.scn")))
    if not scns:
        print("no scenario files in %s: re-run the check with VERIF_SEED=%s to reproduce" % (path, json.load(open(vj)).get("seed") if os.path.exists(vj) else "?"))
        return 2
    exe = common.vbuild.tool("plain", "esim")
    for sp in scns:
        r = common.run_proc([exe, sp], timeout=600, cwd=path)
        ev = common.parse_events(r["out"])
        print("replayed %s: exit %s signal %s, %d events, last: %s" % (os.path.basename(sp), r["rc"], r["sig"], len(ev), (ev[-1].get("ev") if ev else None)))
        outp = sp + ".events.jsonl"
        with open(outp, "w") as f:
            f.write(r["out"])
        print("  event log written to " + outp)
    return 0


def main():
    if len(sys.argv) < 2:
        print("usage: vcheck <Cxx> --tier quick|thorough [--replay path]")
        return 2
    pid = sys.argv[1].upper()
    import common
    args = common.main_args(sys.argv[2:])
    try:
        mod = importlib.import_module("monitors." + pid.lower())
    except ImportError:
        traceback.print_exc()
        return 2
    if args.replay and not getattr(mod, "HANDLES_REPLAY", False):
        return generic_replay(pid, args.replay)
    try:
        return int(mod.run(args.tier, args.replay))
    except Exception:
        traceback.print_exc()
        print("HARNESS-FAILURE property=%s (inconclusive)" % pid)
        return 2


if __name__ == "__main__":
    sys.exit(main())
