"""Controlled system: colvars whose values are imposed *exactly* through atom positions.

atoms (1-based):  1,2  -> d1 = distance(1,2)            atom1 at origin, atom2 at (v,0,0)
                  3,4  -> d2 = distanceZ(main 3, ref 4, axis z) = z3 - z4   (signed; optional period)
                  5..8 -> phi = dihedral(5,6,7,8)        (degrees)
                  9,10 -> d3 = distanceZ(main 9, ref 10, axis x)
                  11,12 spectators
All coordinates dyadic when the requested values are dyadic, so the values the library computes are
exact (distance along an axis: sqrt of an exact square; distanceZ: exact subtraction).
"""
import math

from common import fnum

NATOMS = 12


def header(tfmode="off", masses=None, extra=""):
    m = masses or [1.0] * NATOMS
    s = "natoms %d\nmasses %s\ntfmode %s\n" % (NATOMS, " ".join(fnum(x) for x in m), tfmode)
    if extra:
        s += extra + "\n"
    return s


def positions(d1=3.0, d2=1.0, phi=60.0, d3=1.0):
    p = [[0.0, 0.0, 0.0] for _ in range(NATOMS)]
    p[0] = [0.0, 0.0, 0.0]
    p[1] = [d1, 0.0, 0.0]
    p[3] = [16.0, 16.0, 0.0]
    p[2] = [16.0, 16.0, d2]
    c = [32.0, 0.0, 0.0]
    r = math.radians(phi)
    p[4] = [c[0] + 1.0, c[1], c[2]]
    p[5] = [c[0], c[1], c[2]]
    p[6] = [c[0], c[1], c[2] + 1.0]
    p[7] = [c[0] + math.cos(r), c[1] + math.sin(r), c[2] + 1.0]
    p[9] = [0.0, 32.0, 32.0]
    p[8] = [d3, 32.0, 32.0]
    p[10] = [48.0, 48.0, 48.0]
    p[11] = [50.0, 48.0, 48.0]
    return p


def pos_line(**kw):
    return "pos " + " ".join(fnum(x) for q in positions(**kw) for x in q)


def cv_d1(lower=2.0, upper=8.0, width=0.5, extra=""):
    return ("colvar {\n  name d1\n  width %s\n  lowerBoundary %s\n  upperBoundary %s\n%s"
            "  distance {\n    group1 { atomNumbers 1 }\n    group2 { atomNumbers 2 }\n  }\n}\n"
            % (fnum(width), fnum(lower), fnum(upper), extra))


def cv_d2(lower=-4.0, upper=4.0, width=0.5, extra="", cvc_extra=""):
    return ("colvar {\n  name d2\n  width %s\n  lowerBoundary %s\n  upperBoundary %s\n%s"
            "  distanceZ {\n    main { atomNumbers 3 }\n    ref { atomNumbers 4 }\n    axis (0, 0, 1)\n%s  }\n}\n"
            % (fnum(width), fnum(lower), fnum(upper), extra, cvc_extra))


def cv_d3(lower=-4.0, upper=4.0, width=0.5, extra="", cvc_extra=""):
    return ("colvar {\n  name d3\n  width %s\n  lowerBoundary %s\n  upperBoundary %s\n%s"
            "  distanceZ {\n    main { atomNumbers 9 }\n    ref { atomNumbers 10 }\n    axis (1, 0, 0)\n%s  }\n}\n"
            % (fnum(width), fnum(lower), fnum(upper), extra, cvc_extra))


def cv_phi(width=10.0, extra="", lower=-180.0, upper=180.0):
    return ("colvar {\n  name phi\n  width %s\n  lowerBoundary %s\n  upperBoundary %s\n%s"
            "  dihedral {\n    group1 { atomNumbers 5 }\n    group2 { atomNumbers 6 }\n"
            "    group3 { atomNumbers 7 }\n    group4 { atomNumbers 8 }\n  }\n}\n"
            % (fnum(width), fnum(lower), fnum(upper), extra))


def ext_block(sigma, tau, gamma, temp=None, refl_lower=False, refl_upper=False, tsf=1, subtract=False,
              outputs=True):
    """colvar keywords of an extended-Lagrangian variable (to be passed as extra= to cv_d1/cv_d2/cv_d3)"""
    s = ("  extendedLagrangian on\n  extendedFluctuation %s\n  extendedTimeConstant %s\n"
         "  extendedLangevinDamping %s\n" % (fnum(sigma), fnum(tau), fnum(gamma)))
    if temp is not None:
        s += "  extendedTemp %s\n" % fnum(temp)
    if refl_lower:
        s += "  reflectingLowerBoundary on\n"
    if refl_upper:
        s += "  reflectingUpperBoundary on\n"
    if tsf != 1:
        s += "  timeStepFactor %d\n" % tsf
    if subtract:
        s += "  subtractAppliedForce on\n"
    if outputs:
        s += "  outputVelocity on\n  outputEnergy on\n  outputTotalForce on\n  outputAppliedForce on\n"
    return s


def smooth_tour(rng, n, lo, hi, seg, out_lo=True, out_hi=True, bits=6, depth=0.25):
    """n+1 dyadic values: piecewise-linear path with knots every `seg` steps that alternates between the
    inside of [lo,hi] and sustained excursions beyond the chosen side(s) (by up to depth*(hi-lo))"""
    span = hi - lo
    q = 1 << bits
    nk = n // max(1, seg) + 2
    sides = [s for s, on in (("lo", out_lo), ("hi", out_hi)) if on]
    pts = [rng.uniform(lo + 0.15 * span, hi - 0.15 * span)]
    for k in range(1, nk + 1):
        m = k % 3
        if m == 0 or not sides:
            pts.append(rng.uniform(lo + 0.1 * span, hi - 0.1 * span))
        else:
            s = sides[(k // 3) % len(sides)] if len(sides) > 1 else sides[0]
            if s == "hi":
                pts.append(rng.uniform(hi + 0.05 * span, hi + depth * span))
            else:
                pts.append(rng.uniform(lo - depth * span, lo - 0.05 * span))
    out = []
    for i in range(n + 1):
        u = i / float(max(1, seg))
        k = min(int(u), nk - 1)
        f = u - k
        v = pts[k] * (1 - f) + pts[k + 1] * f
        out.append(round(v * q) / q)
    return out


def dy(rng, lo, hi, bits=6):
    q = 1 << bits
    return rng.randint(int(math.ceil(lo * q)), int(math.floor(hi * q))) / q


def walk(rng, n, lo, hi, step=0.5, start=None, bits=6, excursions=True):
    """dyadic random walk of n+1 values in [lo, hi]; with excursions it is allowed to leave the
    interval by up to 25% of its length on either side"""
    span = hi - lo
    a, b = (lo - 0.25 * span, hi + 0.25 * span) if excursions else (lo, hi)
    x = start if start is not None else dy(rng, lo, hi, bits)
    out = [x]
    for _ in range(n):
        for _try in range(100):
            y = x + dy(rng, -step, step, bits)
            if a <= y <= b:
                break
        else:
            y = x
        x = y
        out.append(x)
    return out


def tour(rng, n, lo, hi, bits=6):
    """n+1 dyadic values that start inside [lo,hi], leave it on both sides (by up to 25% of its
    length) and come back, so that off-grid excursions occur before and after any stop step"""
    span = hi - lo
    q = 1 << bits
    segs = max(4, n // 5)
    pts = []
    side = rng.choice([0, 1])
    for k in range(segs + 1):
        m = k % 4
        if m in (0, 2):
            pts.append(rng.uniform(lo + 0.2 * span, hi - 0.2 * span))
        elif (m == 1) == (side == 0):
            pts.append(rng.uniform(hi + 0.05 * span, hi + 0.25 * span))
        else:
            pts.append(rng.uniform(lo - 0.25 * span, lo - 0.05 * span))
    out = []
    for i in range(n + 1):
        u = i * segs / float(n)
        k = min(int(u), segs - 1)
        f = u - k
        v = pts[k] * (1 - f) + pts[k + 1] * f + rng.uniform(-0.04, 0.04) * span
        out.append(round(v * q) / q)
    return out
