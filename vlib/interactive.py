"""Drive an esim process interactively (lock-step control of several walkers)."""
import json
import os
import select
import subprocess
import time

import common


class Walker:
    def __init__(self, flavour, cwd, env=None, log=None):
        exe = common.vbuild.tool(flavour, "esim")
        e = dict(os.environ)
        e.update(common.SAN_ENV)
        if env:
            e.update(env)
        os.makedirs(cwd, exist_ok=True)
        self.errf = open(os.path.join(cwd, (log or "walker") + ".stderr"), "w")
        self.p = subprocess.Popen([exe, "/dev/stdin"], stdin=subprocess.PIPE, stdout=subprocess.PIPE, stderr=self.errf,
                                  cwd=cwd, env=e)
        self.n = 0
        self.sent = []
        self.buf = b""
        self.cwd = cwd

    def send(self, text, timeout=120):
        """send commands, return the events they produced; raises RuntimeError if the process dies or hangs"""
        self.n += 1
        tag = "m%d" % self.n
        if not text.endswith("\n"):
            text += "\n"
        self.sent.append(text)
        try:
            self.p.stdin.write((text + "mark %s\nflush\n" % tag).encode())
            self.p.stdin.flush()
        except BrokenPipeError:
            raise RuntimeError("walker died (rc %s)" % self.p.poll())
        evs = []
        t0 = time.time()
        fd = self.p.stdout.fileno()
        while True:
            while b"\n" in self.buf:
                line, self.buf = self.buf.split(b"\n", 1)
                line = line.strip()
                if not line.startswith(b"{"):
                    continue
                try:
                    e = json.loads(line)
                except ValueError:
                    continue
                if e.get("ev") == "mark" and e.get("tag") == tag:
                    return evs
                evs.append(e)
            if time.time() - t0 > timeout:
                raise RuntimeError("walker timeout")
            r, _, _ = select.select([fd], [], [], 1.0)
            if r:
                chunk = os.read(fd, 1 << 16)
                if not chunk:
                    raise RuntimeError("walker died (rc %s)" % self.p.wait())
                self.buf += chunk
            elif self.p.poll() is not None:
                raise RuntimeError("walker died (rc %s)" % self.p.returncode)

    def close(self, kill=False):
        try:
            if kill:
                self.p.kill()
            else:
                self.p.stdin.close()
            self.p.wait(timeout=30)
        except Exception:
            self.p.kill()
        self.errf.close()
        return self.p.returncode

    def script_text(self):
        return "".join(self.sent)
