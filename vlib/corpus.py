"""Configuration corpus: synthetic systems, atom-group options, one template per component type,
bias templates.  Everything is generated from a random.Random so that a seed replays a case.

A *case* is a dict: {natoms, masses, charges, pos (list of [x,y,z]), cell (or None), config (text),
cvs: [{name, vtype, dim, comp, opts}], meta...}
"""
import math

from common import fnum


# ---------------------------------------------------------------------------------------------
# synthetic system
# ---------------------------------------------------------------------------------------------

def dyadic(rng, lo, hi, bits=10):
    """random multiple of 2^-bits in [lo, hi]"""
    q = 1 << bits
    return rng.randint(int(math.ceil(lo * q)), int(math.floor(hi * q))) / q


def random_positions(rng, n, box=6.0, dmin=0.9, dy=False):
    pos = []
    tries = 0
    while len(pos) < n:
        tries += 1
        if dy:
            p = [dyadic(rng, 0.5, box - 0.5) for _ in range(3)]
        else:
            p = [rng.uniform(0.5, box - 0.5) for _ in range(3)]
        if all(sum((a - b) ** 2 for a, b in zip(p, q)) >= dmin * dmin for q in pos) or tries > 20000:
            pos.append(p)
    return pos


def make_system(rng, natoms=24, box=6.0, cell=False, unit_masses=False):
    s = {
        "natoms": natoms,
        "masses": [1.0 if unit_masses else round(rng.uniform(1.0, 16.0), 3) for _ in range(natoms)],
        "charges": [round(rng.uniform(-1.0, 1.0), 3) for _ in range(natoms)],
        "pos": random_positions(rng, natoms, box=box),
        "cell": None,
    }
    if cell:
        # cell edges comfortably larger than twice any inter-group distance inside `box`
        s["cell"] = [box * 2.0 + rng.uniform(6.0, 9.0) for _ in range(3)]
    return s


def scenario_header(s, tfmode="off", extra=""):
    out = ["natoms %d" % s["natoms"],
           "masses " + " ".join(fnum(m) for m in s["masses"]),
           "charges " + " ".join(fnum(q) for q in s["charges"])]
    if s.get("names"):
        for (k, resid, name, seg) in s["names"]:
            out.append("atomname %d %d %s %s" % (k, resid, name, seg))
    if s.get("cell"):
        out.append("cell " + " ".join(fnum(x) for x in s["cell"]))
    out.append("tfmode " + tfmode)
    if extra:
        out.append(extra)
    return "\n".join(out) + "\n"


def pos_line(pos):
    return "pos " + " ".join(fnum(x) for p in pos for x in p)


def fext_line(f):
    return "fext " + " ".join(fnum(x) for p in f for x in p)


# ---------------------------------------------------------------------------------------------
# atom groups
# ---------------------------------------------------------------------------------------------

def vec_str(v):
    return "(" + ", ".join(fnum(x) for x in v) + ")"


def pick_atoms(rng, pool, n):
    a = rng.sample(pool, n)
    for x in a:
        pool.remove(x)
    return a


def group_block(key, atoms, opts=None, indent="    "):
    """atoms: list of 1-based atom numbers.  opts: dict of extra lines / sub-blocks"""
    o = opts or {}
    lines = ["%s%s {" % (indent, key)]
    if o.get("dummy") is not None:
        lines.append("%s  dummyAtom %s" % (indent, vec_str(o["dummy"])))
    else:
        if o.get("range") and atoms == list(range(atoms[0], atoms[0] + len(atoms))):
            lines.append("%s  atomNumbersRange %d-%d" % (indent, atoms[0], atoms[-1]))
        else:
            lines.append("%s  atomNumbers %s" % (indent, " ".join(str(a) for a in atoms)))
    if o.get("center"):
        lines.append("%s  centerToReference on" % indent)
    if o.get("center_origin"):
        lines.append("%s  centerToOrigin on" % indent)
    if o.get("rotate"):
        lines.append("%s  rotateToReference on" % indent)
    if o.get("fitgroup"):
        lines.append("%s  fittingGroup {" % indent)
        lines.append("%s    atomNumbers %s" % (indent, " ".join(str(a) for a in o["fitgroup"])))
        lines.append("%s  }" % indent)
    if o.get("refpos"):
        lines.append("%s  refPositions %s" % (indent, " ".join(vec_str(p) for p in o["refpos"])))
    if "fitgrad" in o:
        lines.append("%s  enableFitGradients %s" % (indent, "on" if o["fitgrad"] else "off"))
    lines.append("%s}" % indent)
    return "\n".join(lines)


def fit_options(rng, sysm, atoms, pool, kind):
    """kind in: none, center, rotate, fitgroup, fitgroup_nograd"""
    if kind == "none":
        return {}
    o = {"center": True}
    if kind == "center":
        o["refpos"] = random_positions(rng, len(atoms), box=5.0, dmin=0.7)
        return o
    o["rotate"] = True
    if kind in ("fitgroup", "fitgroup_nograd"):
        fg = pick_atoms(rng, pool, 5)
        o["fitgroup"] = fg
        o["refpos"] = perturbed(rng, [sysm["pos"][a - 1] for a in fg], 0.5)
    else:
        o["refpos"] = perturbed(rng, [sysm["pos"][a - 1] for a in atoms], 0.5)
    if kind == "fitgroup_nograd":
        o["fitgrad"] = False
    return o


def perturbed(rng, pts, amp):
    """reference positions: a random rigid motion of the points plus noise (keeps the optimal
    rotation well conditioned: overlap eigenvalue gap far from zero)"""
    q = random_quaternion(rng)
    R = quat_to_matrix(q)
    t = [rng.uniform(-1, 1) for _ in range(3)]
    out = []
    for p in pts:
        r = [sum(R[i][j] * p[j] for j in range(3)) + t[i] + rng.uniform(-amp, amp) for i in range(3)]
        out.append(r)
    return out


def random_quaternion(rng):
    while True:
        q = [rng.gauss(0, 1) for _ in range(4)]
        n = math.sqrt(sum(x * x for x in q))
        if n > 1e-3:
            return [x / n for x in q]


def quat_to_matrix(q):
    w, x, y, z = q
    return [[1 - 2 * (y * y + z * z), 2 * (x * y - w * z), 2 * (x * z + w * y)],
            [2 * (x * y + w * z), 1 - 2 * (x * x + z * z), 2 * (y * z - w * x)],
            [2 * (x * z - w * y), 2 * (y * z + w * x), 1 - 2 * (x * x + y * y)]]


def random_unit(rng):
    while True:
        v = [rng.gauss(0, 1) for _ in range(3)]
        n = math.sqrt(sum(x * x for x in v))
        if n > 1e-3:
            return [x / n for x in v]


# ---------------------------------------------------------------------------------------------
# component templates
# ---------------------------------------------------------------------------------------------
# Each returns dict(text=<cvc block>, vtype=scalar|vec3|unit3|quat|vector, dim=int, tf=bool,
#                   period=float or None, atoms=[all atoms used])

def _two_groups(rng, sysm, pool, n1=None, n2=None, fit1="none", dummy2=False):
    n1 = n1 or rng.randint(1, 4)
    n2 = n2 or rng.randint(1, 4)
    g1 = pick_atoms(rng, pool, n1)
    o1 = fit_options(rng, sysm, g1, pool, fit1) if n1 >= 3 or fit1 in ("none",) else {}
    if dummy2:
        g2 = []
        o2 = {"dummy": [rng.uniform(0, 6) for _ in range(3)]}
    else:
        g2 = pick_atoms(rng, pool, n2)
        o2 = {}
    return g1, o1, g2, o2


def c_distance(rng, sysm, pool, o):
    g1, o1, g2, o2 = _two_groups(rng, sysm, pool, fit1=o.get("fit", "none"), dummy2=o.get("dummy", False),
                                 n1=4 if o.get("fit", "none") != "none" else None)
    extra = ""
    if o.get("onesite"):
        extra = "    oneSiteTotalForce on\n"
    t = "  distance {\n%s%s\n%s\n  }" % (extra, group_block("group1", g1, o1), group_block("group2", g2, o2))
    return dict(text=t, vtype="scalar", dim=1, tf=(o.get("fit", "none") == "none" and not o.get("dummy")), atoms=g1 + g2)


def _axis_comp(kind):
    def f(rng, sysm, pool, o):
        nm = 4 if o.get("fit", "none") != "none" else rng.randint(1, 3)
        main = pick_atoms(rng, pool, nm)
        om = fit_options(rng, sysm, main, pool, o.get("fit", "none"))
        ref = pick_atoms(rng, pool, rng.randint(1, 3))
        lines = ["  %s {" % kind, group_block("main", main, om), group_block("ref", ref)]
        mode = o.get("axis", rng.choice(["axis", "ref2", "default"]))
        used = main + ref
        if mode == "axis":
            lines.append("    axis %s" % vec_str([rng.uniform(-1, 1) for _ in range(3)]))
        elif mode == "ref2":
            r2 = pick_atoms(rng, pool, rng.randint(1, 2))
            lines.append(group_block("ref2", r2))
            used += r2
        per = None
        if kind == "distanceZ" and o.get("period"):
            per = o["period"]
            lines.append("    period %s" % fnum(per))
            if o.get("wrap") is not None:
                lines.append("    wrapAround %s" % fnum(o["wrap"]))
        lines.append("  }")
        return dict(text="\n".join(lines), vtype="scalar", dim=1, tf=(o.get("fit", "none") == "none"),
                    period=per, atoms=used)
    return f


def _vec_comp(kind, vtype):
    def f(rng, sysm, pool, o):
        g1, o1, g2, o2 = _two_groups(rng, sysm, pool, fit1=o.get("fit", "none"),
                                     n1=4 if o.get("fit", "none") != "none" else None)
        t = "  %s {\n%s\n%s\n  }" % (kind, group_block("group1", g1, o1), group_block("group2", g2, o2))
        return dict(text=t, vtype=vtype, dim=3, tf=False, atoms=g1 + g2)
    return f


def c_distance_inv(rng, sysm, pool, o):
    g1 = pick_atoms(rng, pool, rng.randint(1, 3))
    g2 = pick_atoms(rng, pool, rng.randint(1, 3))
    ex = rng.choice([2, 4, 6])
    t = "  distanceInv {\n%s\n%s\n    exponent %d\n  }" % (group_block("group1", g1), group_block("group2", g2), ex)
    return dict(text=t, vtype="scalar", dim=1, tf=False, atoms=g1 + g2, exponent=ex)


def c_distance_pairs(rng, sysm, pool, o):
    g1 = pick_atoms(rng, pool, rng.randint(1, 3))
    g2 = pick_atoms(rng, pool, rng.randint(1, 3))
    t = "  distancePairs {\n%s\n%s\n  }" % (group_block("group1", g1), group_block("group2", g2))
    return dict(text=t, vtype="vector", dim=len(g1) * len(g2), tf=False, atoms=g1 + g2)


def c_cartesian(rng, sysm, pool, o):
    g = pick_atoms(rng, pool, rng.randint(1, 3))
    og = fit_options(rng, sysm, g, pool, o.get("fit", "none")) if len(g) >= 3 else {}
    t = "  cartesian {\n%s\n  }" % group_block("atoms", g, og)
    return dict(text=t, vtype="vector", dim=3 * len(g), tf=False, atoms=g)


def _three_groups(kind, tf):
    def f(rng, sysm, pool, o):
        gs = [pick_atoms(rng, pool, rng.randint(1, 3)) for _ in range(3)]
        if kind == "dipoleAngle" and len(gs[0]) < 2:
            # the dipole of a single atom about its own centre is zero: documented singular geometry
            gs[0] += pick_atoms(rng, pool, 1)
        extra = "    oneSiteTotalForce on\n" if o.get("onesite") and tf else ""
        t = "  %s {\n%s%s\n%s\n%s\n  }" % (kind, extra, group_block("group1", gs[0]), group_block("group2", gs[1]),
                                         group_block("group3", gs[2]))
        return dict(text=t, vtype="scalar", dim=1, tf=tf, atoms=sum(gs, []))
    return f


def c_dihedral(rng, sysm, pool, o):
    gs = [pick_atoms(rng, pool, rng.randint(1, 2)) for _ in range(4)]
    extra = "    oneSiteTotalForce on\n" if o.get("onesite") else ""
    t = "  dihedral {\n%s%s\n  }" % (extra, "\n".join(group_block("group%d" % (i + 1), g) for i, g in enumerate(gs)))
    return dict(text=t, vtype="scalar", dim=1, tf=True, period=360.0, atoms=sum(gs, []))


def _one_group(kind, vtype="scalar", period=None, tf=False, minat=3, maxat=6):
    def f(rng, sysm, pool, o):
        g = pick_atoms(rng, pool, rng.randint(minat, maxat))
        og = fit_options(rng, sysm, g, pool, o.get("fit", "none"))
        lines = ["  %s {" % kind, group_block("atoms", g, og)]
        if kind == "inertiaZ":
            lines.append("    axis %s" % vec_str([rng.uniform(-1, 1) for _ in range(3)]))
        lines.append("  }")
        return dict(text="\n".join(lines), vtype=vtype, dim=1, tf=tf and o.get("fit", "none") == "none",
                    period=period, atoms=g)
    return f


def c_coordnum(rng, sysm, pool, o):
    g1 = pick_atoms(rng, pool, rng.randint(1, 3))
    g2 = pick_atoms(rng, pool, rng.randint(2, 4))
    lines = ["  coordNum {", group_block("group1", g1), group_block("group2", g2)]
    v = o.get("variant", rng.choice(["iso", "aniso", "g2center", "pairlist", "exps"]))
    if v == "aniso":
        lines.append("    cutoff3 %s" % vec_str([rng.uniform(2.5, 4.5) for _ in range(3)]))
    else:
        lines.append("    cutoff %s" % fnum(rng.uniform(2.5, 4.5)))
    if v == "g2center":
        lines.append("    group2CenterOnly on")
    if v == "exps":
        n = rng.choice([2, 4, 6])
        lines.append("    expNumer %d" % n)
        lines.append("    expDenom %d" % (n + rng.choice([2, 4, 6])))
    if v == "pairlist":
        lines.append("    tolerance 0.001")
        lines.append("    pairListFrequency %d" % rng.choice([1, 2, 5]))
    lines.append("  }")
    return dict(text="\n".join(lines), vtype="scalar", dim=1, tf=False, atoms=g1 + g2, variant=v)


def c_selfcoordnum(rng, sysm, pool, o):
    g1 = pick_atoms(rng, pool, rng.randint(3, 5))
    lines = ["  selfCoordNum {", group_block("group1", g1), "    cutoff %s" % fnum(rng.uniform(2.5, 4.5))]
    if o.get("variant") == "pairlist":
        lines += ["    tolerance 0.001", "    pairListFrequency 2"]
    lines.append("  }")
    return dict(text="\n".join(lines), vtype="scalar", dim=1, tf=False, atoms=g1)


def c_groupcoord(rng, sysm, pool, o):
    g1 = pick_atoms(rng, pool, rng.randint(1, 3))
    g2 = pick_atoms(rng, pool, rng.randint(1, 3))
    lines = ["  groupCoord {", group_block("group1", g1), group_block("group2", g2)]
    if o.get("variant") == "aniso":
        lines.append("    cutoff3 %s" % vec_str([rng.uniform(2.5, 4.5) for _ in range(3)]))
    else:
        lines.append("    cutoff %s" % fnum(rng.uniform(2.5, 4.5)))
    lines.append("  }")
    return dict(text="\n".join(lines), vtype="scalar", dim=1, tf=False, atoms=g1 + g2)


def c_hbond(rng, sysm, pool, o):
    a = pick_atoms(rng, pool, 2)
    t = "  hBond {\n    donor %d\n    acceptor %d\n    cutoff %s\n  }" % (a[0], a[1], fnum(rng.uniform(2.5, 4.5)))
    return dict(text=t, vtype="scalar", dim=1, tf=False, atoms=a)


def _rot_comp(kind, vtype="scalar", period=None, axis=False):
    def f(rng, sysm, pool, o):
        g = pick_atoms(rng, pool, rng.randint(4, 7))
        ref = perturbed(rng, [sysm["pos"][a - 1] for a in g], 0.4)
        lines = ["  %s {" % kind, group_block("atoms", g),
                 "    refPositions %s" % " ".join(vec_str(p) for p in ref)]
        if axis:
            lines.append("    axis %s" % vec_str([rng.uniform(-1, 1) for _ in range(3)]))
        lines.append("  }")
        return dict(text="\n".join(lines), vtype=vtype, dim=4 if vtype == "quat" else 1, tf=False, period=period,
                    atoms=g, refpos=ref)
    return f


def c_rmsd(rng, sysm, pool, o):
    g = pick_atoms(rng, pool, rng.randint(4, 7))
    ref = perturbed(rng, [sysm["pos"][a - 1] for a in g], 0.6)
    og = {}
    fit = o.get("fit", "none")
    if fit in ("fitgroup", "fitgroup_nograd"):
        fg = pick_atoms(rng, pool, 5)
        og = {"center": True, "rotate": True, "fitgroup": fg,
              "refpos": perturbed(rng, [sysm["pos"][a - 1] for a in fg], 0.5)}
        if fit == "fitgroup_nograd":
            og["fitgrad"] = False
    lines = ["  rmsd {", group_block("atoms", g, og), "    refPositions %s" % " ".join(vec_str(p) for p in ref), "  }"]
    return dict(text="\n".join(lines), vtype="scalar", dim=1, tf=(fit == "none"), atoms=g, refpos=ref)


def c_eigenvector(rng, sysm, pool, o):
    g = pick_atoms(rng, pool, rng.randint(4, 6))
    ref = perturbed(rng, [sysm["pos"][a - 1] for a in g], 0.5)
    vecs = [[rng.uniform(-1, 1) for _ in range(3)] for _ in g]
    # explicit fit options: the *default* self-fit is excluded from C01 by the documentation
    mode = o.get("fit", "off")
    og = {}
    if mode == "off":
        og = {"center": False}
        extra = "      centerToReference off\n      rotateToReference off\n"
    else:
        extra = ""
    lines = ["  eigenvector {", "    atoms {", "      atomNumbers %s" % " ".join(str(a) for a in g)]
    if extra:
        lines.append(extra.rstrip("\n"))
    lines.append("    }")
    lines.append("    refPositions %s" % " ".join(vec_str(p) for p in ref))
    lines.append("    vector %s" % " ".join(vec_str(p) for p in vecs))
    lines.append("  }")
    return dict(text="\n".join(lines), vtype="scalar", dim=1, tf=(mode != "off"), atoms=g, refpos=ref, vector=vecs,
                selffit=(mode != "off"))


def c_polar(kind):
    def f(rng, sysm, pool, o):
        g = pick_atoms(rng, pool, rng.randint(1, 3))
        t = "  %s {\n%s\n  }" % (kind, group_block("atoms", g))
        return dict(text=t, vtype="scalar", dim=1, tf=False, period=360.0 if kind == "polarPhi" else None, atoms=g)
    return f


COMPONENTS = {
    "distance": c_distance,
    "distanceZ": _axis_comp("distanceZ"),
    "distanceXY": _axis_comp("distanceXY"),
    "distanceVec": _vec_comp("distanceVec", "vec3"),
    "distanceDir": _vec_comp("distanceDir", "unit3"),
    "distanceInv": c_distance_inv,
    "distancePairs": c_distance_pairs,
    "cartesian": c_cartesian,
    "angle": _three_groups("angle", True),
    "dipoleAngle": _three_groups("dipoleAngle", False),
    "dihedral": c_dihedral,
    "polarTheta": c_polar("polarTheta"),
    "polarPhi": c_polar("polarPhi"),
    "dipoleMagnitude": _one_group("dipoleMagnitude"),
    "coordNum": c_coordnum,
    "selfCoordNum": c_selfcoordnum,
    "groupCoord": c_groupcoord,
    "hBond": c_hbond,
    "rmsd": c_rmsd,
    "gyration": _one_group("gyration", tf=True),
    "inertia": _one_group("inertia"),
    "inertiaZ": _one_group("inertiaZ"),
    "eigenvector": c_eigenvector,
    "orientation": _rot_comp("orientation", "quat"),
    "orientationAngle": _rot_comp("orientationAngle"),
    "orientationProj": _rot_comp("orientationProj"),
    "tilt": _rot_comp("tilt", axis=True),
    "spinAngle": _rot_comp("spinAngle", period=360.0, axis=True),
    "eulerPhi": _rot_comp("eulerPhi", period=360.0),
    "eulerPsi": _rot_comp("eulerPsi", period=360.0),
    "eulerTheta": _rot_comp("eulerTheta"),
}

# which `fit` options make sense for which component (atom-group fitting on the *main* group)
FIT_CAPABLE = {"distance", "distanceZ", "distanceXY", "distanceVec", "distanceDir", "cartesian", "rmsd",
               "gyration", "inertia", "inertiaZ", "dipoleMagnitude"}
FIT_KINDS = ["none", "center", "rotate", "fitgroup", "fitgroup_nograd"]


def colvar_block(name, comps, extra_lines=()):
    """comps: list of (component dict, coeff or None, exp or None)"""
    lines = ["colvar {", "  name %s" % name]
    lines += ["  " + l for l in extra_lines]
    for c, coeff, exp in comps:
        t = c["text"]
        ins = []
        if coeff is not None:
            ins.append("    componentCoeff %s" % fnum(coeff))
        if exp is not None:
            ins.append("    componentExp %d" % exp)
        if ins:
            # insert just after the opening line of the component block
            first, rest = t.split("\n", 1)
            t = first + "\n" + "\n".join(ins) + "\n" + rest
        lines.append(t)
    lines.append("}")
    return "\n".join(lines)


def make_colvar(rng, sysm, pool, name, ctype, opts=None, extra_lines=(), coeff=None, exp=None):
    c = COMPONENTS[ctype](rng, sysm, pool, opts or {})
    c["ctype"] = ctype
    return dict(name=name, text=colvar_block(name, [(c, coeff, exp)], extra_lines), comps=[c], vtype=c["vtype"],
                dim=c["dim"], period=c.get("period"), tf=c.get("tf", False), ctype=ctype, opts=opts or {},
                coeff=coeff, exp=exp)


def make_combo_colvar(rng, sysm, pool, name, ctypes, extra_lines=()):
    """polynomial combination of scalar components with random coefficients / exponents"""
    comps = []
    for ct in ctypes:
        c = COMPONENTS[ct](rng, sysm, pool, {})
        c["ctype"] = ct
        comps.append((c, round(rng.uniform(-2, 2), 3) or 1.0, rng.choice([None, 1, 2, 3])))
    return dict(name=name, text=colvar_block(name, comps, extra_lines), comps=[c for c, _, _ in comps],
                vtype="scalar", dim=1, period=None, tf=False, ctype="+".join(ctypes), opts={"combo": True},
                coeffs=[(co, ex) for _, co, ex in comps])


# ---------------------------------------------------------------------------------------------
# values of the right type (for centers etc.)
# ---------------------------------------------------------------------------------------------

def value_str(vtype, v):
    if vtype == "scalar":
        return fnum(v)
    return vec_str(v)


def random_value(rng, cv, around=None):
    vt = cv["vtype"]
    if vt == "scalar":
        if around is not None:
            return around[0] + rng.uniform(-1, 1)
        return rng.uniform(0, 5)
    if vt == "vec3":
        return [rng.uniform(-3, 3) for _ in range(3)]
    if vt == "unit3":
        return random_unit(rng)
    if vt == "quat":
        return random_quaternion(rng)
    return [rng.uniform(0, 5) for _ in range(cv["dim"])]


# ---------------------------------------------------------------------------------------------
# name-based protein components (added for C02; deliberately NOT part of COMPONENTS, whose key set
# other monitors iterate over)
# ---------------------------------------------------------------------------------------------

def assign_backbone(rng, sysm, nres, segid="PRT", first_resid=None):
    """label the first 4*nres atoms of the system as N, CA, C, O of residues first..first+nres-1
    (sets sysm["names"], which scenario_header() turns into `atomname` lines).  Returns
    (first residue number, {(resid, name): 1-based atom number})."""
    first = first_resid if first_resid is not None else rng.randint(1, 20)
    names = []
    index = {}
    k = 1
    for r in range(first, first + nres):
        for nm in ("N", "CA", "C", "O"):
            names.append((k, r, nm, segid))
            index[(r, nm)] = k
            k += 1
    if k - 1 > sysm["natoms"]:
        raise ValueError("system too small for %d residues" % nres)
    sysm["names"] = names
    return first, index


def c_alpha(rng, sysm, pool, o):
    """alpha { residueRange, psfSegID, hBondCoeff, ... }; needs sysm labelled by assign_backbone()"""
    nres = o.get("nres", 6)
    seg = o.get("segid", "PRT")
    first, index = assign_backbone(rng, sysm, nres, seg)
    lines = ["  alpha {", "    residueRange %d-%d" % (first, first + nres - 1), "    psfSegID %s" % seg]
    v = o.get("variant", "default")
    if v == "params":
        lines.append("    hBondCoeff %s" % fnum(round(rng.uniform(0.1, 0.9), 3)))
        lines.append("    angleRef %s" % fnum(round(rng.uniform(70.0, 110.0), 2)))
        lines.append("    angleTol %s" % fnum(round(rng.uniform(10.0, 30.0), 2)))
        lines.append("    hBondCutoff %s" % fnum(round(rng.uniform(2.5, 4.5), 2)))
        n = rng.choice([4, 6])
        lines.append("    hBondExpNumer %d" % n)
        lines.append("    hBondExpDenom %d" % (n + rng.choice([2, 4])))
    elif v == "angles":
        lines.append("    hBondCoeff 0.0")
    elif v == "hbonds":
        lines.append("    hBondCoeff 1.0")
    lines.append("  }")
    atoms = sorted(index.values())
    for a in atoms:
        if a in pool:
            pool.remove(a)
    return dict(text="\n".join(lines), vtype="scalar", dim=1, tf=False, atoms=atoms, first=first, nres=nres,
                index=index, segid=seg, variant=v)


def c_dihedralpc(rng, sysm, pool, o):
    """dihedralPC { residueRange, psfSegID, vectorFile, vectorNumber }: the returned dict carries
    files={name: content} that must exist in the working directory of the run"""
    nres = o.get("nres", 5)
    seg = o.get("segid", "PRT")
    first, index = assign_backbone(rng, sysm, nres, seg)
    ncol = rng.randint(1, 3)
    col = rng.randint(1, ncol)
    rows = [[round(rng.uniform(-1, 1), 6) for _ in range(ncol)] for _ in range(4 * (nres - 1))]
    fname = o.get("vector_file", "dpca_vectors.dat")
    content = "".join(" ".join(fnum(x) for x in row) + "\n" for row in rows)
    lines = ["  dihedralPC {", "    residueRange %d-%d" % (first, first + nres - 1), "    psfSegID %s" % seg,
             "    vectorFile %s" % fname, "    vectorNumber %d" % col, "  }"]
    atoms = sorted(index.values())
    for a in atoms:
        if a in pool:
            pool.remove(a)
    return dict(text="\n".join(lines), vtype="scalar", dim=1, tf=False, atoms=atoms, first=first, nres=nres,
                index=index, segid=seg, files={fname: content}, coeffs=[row[col - 1] for row in rows])


EXTRA_COMPONENTS = {"alpha": c_alpha, "dihedralPC": c_dihedralpc}


def make_extra_colvar(rng, sysm, pool, name, ctype, opts=None, extra_lines=(), coeff=None, exp=None):
    """like make_colvar() for the components of EXTRA_COMPONENTS"""
    c = EXTRA_COMPONENTS[ctype](rng, sysm, pool, opts or {})
    c["ctype"] = ctype
    return dict(name=name, text=colvar_block(name, [(c, coeff, exp)], extra_lines), comps=[c], vtype=c["vtype"],
                dim=c["dim"], period=None, tf=False, ctype=ctype, opts=opts or {}, coeff=coeff, exp=exp,
                files=c.get("files", {}))


# ---------------------------------------------------------------------------------------------
# composite components, used by C01 only (deliberately NOT part of COMPONENTS): path variables in
# Cartesian space (reference frames in XYZ files), path variables in CV space (pathFile),
# linearCombination and neuralNetwork (sub-components inside the component block).
#
# A template returns the usual dict plus
#   files   = {file name: content}, to be written into the working directory of the run;
#   prep    = None, or {"text": configuration of a preliminary run in which every sub-component is a
#             colvar of its own (named like the sub-component), "finalize": f(values)} where values
#             maps sub-component name -> list of floats at the base geometry; finalize() completes
#             "text" and "files" (path rows / network weights are laid out around the current point
#             in CV space).
# ---------------------------------------------------------------------------------------------

def xyz_text(rows):
    return "%d\ngenerated\n" % len(rows) + "".join("C %s %s %s\n" % (fnum(r[0]), fnum(r[1]), fnum(r[2])) for r in rows)


def rigid_motion(rng, pts, tamp=1.0):
    R = quat_to_matrix(random_quaternion(rng))
    t = [rng.uniform(-tamp, tamp) for _ in range(3)]
    return [[sum(R[i][j] * p[j] for j in range(3)) + t[i] for i in range(3)] for p in pts]


def path_position(rng, K):
    """position t0 along a path of K frames (in frame units), away from the points where the geometric path variables
    switch frames (closest frame changes at half-integers; second/third closest swap at integers)"""
    while True:
        t0 = rng.randint(0, K - 1) + rng.choice([-1, 1]) * rng.uniform(0.15, 0.35)
        if 0.0 < t0 < K - 1:
            return t0


def c_cartpath(kind):
    """gspath / gzpath / aspath / azpath { atoms, [fittingAtoms], refPositionsFile1..K, options }"""
    def f(rng, sysm, pool, o):
        v = o.get("variant", rng.choice(["default", "default", "fitting", "neighbour", "third"]))
        g = pick_atoms(rng, pool, rng.randint(4, 7))
        if rng.random() < 0.5:
            g = sorted(g)
        fitg = pick_atoms(rng, pool, rng.randint(4, 5)) if v == "fitting" else None
        K = rng.randint(3, 5)
        t0 = path_position(rng, K)
        n = sysm["natoms"]
        X = sysm["pos"]
        D = [[rng.uniform(-0.8, 0.8) for _ in range(3)] for _ in range(n)]        # tangent of the path
        C = [[rng.uniform(-0.06, 0.06) for _ in range(3)] for _ in range(n)]      # curvature
        off = [[rng.uniform(-0.12, 0.12) for _ in range(3)] for _ in range(n)]    # the current point is off the path
        whole = (fitg is not None) or rng.random() < 0.5    # whole-system file (row = atom number) or group-size file
        files = {}
        frames = []
        lam = None
        flags = {}
        lines = ["  %s {" % kind, group_block("atoms", g)]
        if fitg:
            lines.append(group_block("fittingAtoms", fitg))
        for k in range(K):
            s = k - t0
            P = [[X[a][d] + off[a][d] + s * D[a][d] + s * s * C[a][d] for d in range(3)] for a in range(n)]
            P = rigid_motion(rng, P)
            frames.append(P)
            rows = P if whole else [P[a - 1] for a in sorted(g)]
            fn = "frame%d.xyz" % (k + 1)
            files[fn] = xyz_text(rows)
            lines.append("    refPositionsFile%d %s" % (k + 1, fn))
        if kind in ("gspath", "gzpath"):
            if v == "neighbour":
                lines.append("    useSecondClosestFrame off")
                flags["second"] = False
            if v == "third":
                lines.append("    useThirdClosestFrame on")
                flags["third"] = True
            if kind == "gzpath" and rng.random() < 0.4:
                lines.append("    useZsquare on")
                flags["zsquare"] = True
        else:
            if rng.random() < 0.6:
                # about the inverse mean square displacement between successive frames (the documented default)
                lam = rng.uniform(0.5, 3.0)
                lines.append("    lambda %s" % fnum(lam))
        lines.append("  }")
        return dict(text="\n".join(lines), vtype="scalar", dim=1, tf=False, atoms=g + (fitg or []), files=files,
                    variant=v, t0=t0, nframes=K, prep=None, group=g, fitgroup=fitg, frames=frames, lam=lam, flags=flags)
    return f


# scalar sub-components with explicit gradients / vector sub-components (forces through apply_force of the sub-component)
SUB_SCALAR = ["distance", "angle", "dihedral", "distanceZ", "distanceXY", "gyration", "coordNum", "rmsd", "inertia", "hBond"]
SUB_VECTOR = ["distanceVec", "distancePairs", "cartesian"]
SUB_POLY = ["distance", "distanceZ", "distanceXY", "gyration", "coordNum", "rmsd", "hBond"]
# typical variation of the raw value over a displacement of a few tenths of a length unit
SUB_SCALE = {"distance": 1.0, "angle": 25.0, "dihedral": 40.0, "distanceZ": 1.0, "distanceXY": 1.0, "gyration": 0.5,
             "coordNum": 0.3, "rmsd": 0.5, "inertia": 10.0, "hBond": 0.2, "distanceVec": 1.0, "distancePairs": 1.0,
             "cartesian": 1.0}


def nest(text, name, coeff=None, exp=None, extra=()):
    """re-indent a component block by one level and give it a name (sub-components are ordered by name)"""
    first, rest = text.split("\n", 1)
    ins = ["    name %s" % name]
    if coeff is not None:
        ins.append("    componentCoeff %s" % fnum(coeff))
    if exp is not None:
        ins.append("    componentExp %d" % exp)
    ins += ["    " + e for e in extra]
    return "\n".join("  " + l for l in [first] + ins + rest.split("\n"))


def make_subs(rng, sysm, pool, kinds, poly=True):
    """sub-components s001, s002, ...; each draws its atoms from its own copy of the pool, so sub-components may share
    atoms (their forces then add up on the shared atoms)"""
    subs = []
    for i, kd in enumerate(kinds):
        p = list(pool)
        c = COMPONENTS[kd](rng, sysm, p, {})
        c["ctype"] = kd
        c["name"] = "s%03d" % (i + 1)
        c["coeff"] = c["exp"] = None
        # no polynomial on a periodic sub-component (coefficient times an angle is wrapped as if it were the angle)
        if poly and kd != "dihedral":
            r = rng.random()
            if r < 0.5:
                c["coeff"] = round(rng.uniform(-2, 2), 3) or 1.5
            # exponents only where the raw value is O(1-10): powers of angles in degrees or of moments of inertia give
            # values of 1e5-1e7, whose differences a path variable cannot resolve to the accuracy asked by C01
            if r < 0.25 and kd in SUB_POLY:
                c["exp"] = rng.choice([2, 3])
        c["raw_text"] = c["text"]
        c["text"] = nest(c["raw_text"], c["name"], c["coeff"], c["exp"])
        subs.append(c)
    return subs


def subs_prep_text(subs):
    """every sub-component as a colvar of its own, without coefficient / exponent (raw values)"""
    return "\n".join("colvar {\n  name %s\n%s\n}" % (c["name"], c["raw_text"]) for c in subs)


def sub_poly(c, raw):
    """(values of coeff * x^exp, |d/dx| of it) for the raw values of a sub-component"""
    co = 1.0 if c["coeff"] is None else c["coeff"]
    ex = 1 if c["exp"] is None else c["exp"]
    vals = [co * x ** ex for x in raw]
    der = [abs(co * ex * x ** (ex - 1)) for x in raw]
    return vals, der


def _composite(kind, lines_head, subs, vtype="scalar", dim=1, **kw):
    atoms = sorted(set(a for c in subs for a in c["atoms"]))
    d = dict(text=None, vtype=vtype, dim=dim, tf=False, atoms=atoms, subs=subs, files={}, prep=None)
    d.update(kw)

    def build(extra_lines=()):
        d["text"] = "\n".join(["  %s {" % kind] + list(lines_head) + list(extra_lines) + [c["text"] for c in subs] + ["  }"])
    d["_build"] = build
    build()
    return d


SUB_ANGULAR = ["angle", "dihedral"]
SUB_LENGTH = [k for k in SUB_SCALAR if k not in SUB_ANGULAR]


def c_cvpath(kind):
    """gspathCV / gzpathCV / aspathCV / azpathCV { pathFile, options, sub-components }.

    The dimensions of the CV space are given comparable scales, as a user would: either all sub-components are angles
    in degrees (no coefficients; a coefficient on a periodic angle is not meaningful), or each gets the componentCoeff
    that brings its typical variation to O(1).  With scales differing by orders of magnitude the space is effectively
    one-dimensional, every point lies on the path to within rounding, and z = sqrt(|v1|^2 + ... ) is a difference of
    large numbers whose finite differences are noise (seen as a false alarm at z = 1e-3 |v1|)."""
    def f(rng, sysm, pool, o):
        v = o.get("variant", rng.choice(["scalar", "scalar", "mixed", "neighbour", "third"]))
        nsub = rng.randint(2, 3)
        angular = rng.random() < 0.3 and v != "mixed"
        if angular:
            kinds = [rng.choice(SUB_ANGULAR) for _ in range(nsub)]
        else:
            kinds = [rng.choice(SUB_LENGTH) for _ in range(nsub)]
            if v == "mixed":
                kinds[rng.randrange(nsub)] = rng.choice(SUB_VECTOR)
        subs = make_subs(rng, sysm, pool, kinds, poly=not angular)   # coefficients are re-balanced in finalize()
        K = rng.randint(3, 5)
        t0 = path_position(rng, K)
        head = ["    pathFile path.txt"]
        geometric = kind in ("gspathCV", "gzpathCV")
        if geometric:
            if v == "neighbour":
                head.append("    useSecondClosestFrame off")
            if v == "third":
                head.append("    useThirdClosestFrame on")
            if kind == "gzpathCV" and rng.random() < 0.4:
                head.append("    useZsquare on")
        weights = None
        if not geometric and rng.random() < 0.5:
            weights = [round(rng.uniform(0.5, 2.0), 3) for _ in subs]
            head.append("    weights { %s }" % " ".join(fnum(w) for w in weights))
        d = _composite(kind, head, subs, variant=v, t0=t0, nframes=K, family="angular" if angular else "balanced")
        lam_factor = rng.uniform(0.5, 3.0) if (not geometric and rng.random() < 0.6) else None
        prng = rng.__class__(rng.getrandbits(48))

        def finalize(values):
            cur, S, wj = [], [], []
            for i, c in enumerate(subs):
                raw = values[c["name"]]
                if not angular:
                    ex = c["exp"]
                    if ex is not None and min(abs(x) for x in raw) ** (ex - 1) < 0.05:
                        ex = c["exp"] = None            # x^exp would be flat at the current point
                    dfac = 1.0 if ex is None else abs(ex * raw[0] ** (ex - 1))
                    T = prng.uniform(0.5, 2.0)
                    c["coeff"] = float("%.4g" % (prng.choice([-1, 1]) * T / (SUB_SCALE[c["ctype"]] * dfac)))
                    c["text"] = nest(c["raw_text"], c["name"], c["coeff"], c["exp"])
                vals, der = sub_poly(c, raw)
                for x, dx in zip(vals, der):
                    cur.append(x)
                    S.append(SUB_SCALE[c["ctype"]] * max(dx, 1e-3))
                    wj.append(1.0 if weights is None else weights[i])
            n = len(cur)
            step = [prng.choice([-1, 1]) * prng.uniform(0.4, 1.0) * S[j] for j in range(n)]
            curv = [prng.uniform(-0.04, 0.04) * S[j] for j in range(n)]
            # the current point is off the path: offset perpendicular to the tangent, 15-40 % of the frame spacing
            r = [prng.gauss(0, 1) * S[j] for j in range(n)]
            ss = sum(x * x for x in step)
            pr = sum(a * b for a, b in zip(r, step)) / ss
            r = [a - pr * b for a, b in zip(r, step)]
            rn = math.sqrt(sum(x * x for x in r)) or 1.0
            amp = prng.uniform(0.15, 0.4) * math.sqrt(ss) / rn
            offp = [amp * x for x in r]
            rows = []
            for k in range(K):
                sk = k - t0
                rows.append([cur[j] + offp[j] + sk * step[j] + sk * sk * curv[j] for j in range(n)])
            d["files"]["path.txt"] = "".join(" ".join(fnum(x) for x in rw) + "\n" for rw in rows)
            extra = []
            if lam_factor is not None:
                msd = sum((wj[j] * step[j]) ** 2 for j in range(n))
                extra.append("    lambda %s" % fnum(lam_factor / msd))
            d["_build"](extra)

        d["prep"] = {"text": subs_prep_text(subs), "finalize": finalize}
        return d
    return f


def c_linear_combination(rng, sysm, pool, o):
    """linearCombination { sub-components with componentCoeff / componentExp }: scalar, or vector-valued when every
    sub-component has the same vector type"""
    v = o.get("variant", rng.choice(["scalar", "scalar", "vec3", "pairs"]))
    if v == "scalar":
        subs = make_subs(rng, sysm, pool, [rng.choice(SUB_SCALAR) for _ in range(rng.randint(2, 3))])
        return _composite("linearCombination", [], subs, variant=v)
    if v == "vec3":
        subs = make_subs(rng, sysm, pool, ["distanceVec", "distanceVec"])
        return _composite("linearCombination", [], subs, vtype="vec3", dim=3, variant=v)
    # two distancePairs blocks of equal dimension
    subs = []
    for i in range(2):
        p = list(pool)
        g1, g2 = pick_atoms(rng, p, 2), pick_atoms(rng, p, 2)
        raw = "  distancePairs {\n%s\n%s\n  }" % (group_block("group1", g1), group_block("group2", g2))
        co = round(rng.uniform(-2, 2), 3) or 1.5
        subs.append(dict(text=nest(raw, "s%03d" % (i + 1), co), raw_text=raw, ctype="distancePairs", name="s%03d" % (i + 1),
                         coeff=co, exp=None, atoms=g1 + g2, vtype="vector", dim=4))
    return _composite("linearCombination", [], subs, vtype="vector", dim=4, variant=v)


NN_ACTIVATIONS = ["tanh", "sigmoid", "linear", "elu", "relu", "lrelu100"]


def c_neural_network(rng, sysm, pool, o):
    """neuralNetwork { output_component, layerN_WeightsFile / _BiasesFile / _activation, scalar sub-components }"""
    nin = rng.randint(2, 3)
    subs = make_subs(rng, sysm, pool, [rng.choice(SUB_SCALAR) for _ in range(nin)])
    nlayers = rng.randint(1, 3)
    sizes = [nin] + [rng.randint(2, 4) for _ in range(nlayers - 1)] + [rng.randint(1, 2)]
    acts = [rng.choice(NN_ACTIVATIONS[:4]) if rng.random() < 0.8 else rng.choice(NN_ACTIVATIONS[4:]) for _ in range(nlayers)]
    out = rng.randrange(sizes[-1])
    head = ["    output_component %d" % out]
    for l in range(nlayers):
        head += ["    layer%d_WeightsFile nn_w%d.txt" % (l + 1, l + 1), "    layer%d_BiasesFile nn_b%d.txt" % (l + 1, l + 1),
                 "    layer%d_activation %s" % (l + 1, acts[l])]
    d = _composite("neuralNetwork", head, subs, layers=sizes, activations=acts, variant="%dlayer" % nlayers)
    prng = rng.__class__(rng.getrandbits(48))

    def finalize(values):
        cur = [sub_poly(c, values[c["name"]])[0][0] for c in subs]
        for l in range(nlayers):
            W = [[prng.uniform(-1.0, 1.0) for _ in range(sizes[l])] for _ in range(sizes[l + 1])]
            if l == 0:
                # inputs of very different magnitudes (distances, angles in degrees): keep the first layer out of saturation
                W = [[w / max(1.0, abs(cur[j])) for j, w in enumerate(row)] for row in W]
            b = [prng.uniform(-0.5, 0.5) for _ in range(sizes[l + 1])]
            d["files"]["nn_w%d.txt" % (l + 1)] = "".join(" ".join(fnum(w) for w in row) + "\n" for row in W)
            d["files"]["nn_b%d.txt" % (l + 1)] = "".join(fnum(x) + "\n" for x in b)
        d["_build"]()

    d["prep"] = {"text": subs_prep_text(subs), "finalize": finalize}
    return d


def _named(fn):
    def f(rng, sysm, pool, o):
        d = fn(rng, sysm, pool, o)
        d.setdefault("prep", None)
        d.setdefault("files", {})
        return d
    return f


C01_EXTRA_COMPONENTS = {
    "alpha": _named(c_alpha),
    "dihedralPC": _named(c_dihedralpc),
    "gspath": c_cartpath("gspath"),
    "gzpath": c_cartpath("gzpath"),
    "aspath": c_cartpath("aspath"),
    "azpath": c_cartpath("azpath"),
    "gspathCV": c_cvpath("gspathCV"),
    "gzpathCV": c_cvpath("gzpathCV"),
    "aspathCV": c_cvpath("aspathCV"),
    "azpathCV": c_cvpath("azpathCV"),
    "linearCombination": c_linear_combination,
    "neuralNetwork": c_neural_network,
}


# template variants, cycled by C01 so that every quick run sees each of them
C01_EXTRA_VARIANTS = {
    "alpha": ["default", "params", "angles", "hbonds"],
    "gspath": ["default", "fitting", "neighbour", "third"],
    "gzpath": ["default", "fitting", "neighbour", "third"],
    "aspath": ["default", "fitting"],
    "azpath": ["default", "fitting"],
    "gspathCV": ["scalar", "mixed", "neighbour", "third"],
    "gzpathCV": ["scalar", "mixed", "neighbour", "third"],
    "aspathCV": ["scalar", "mixed"],
    "azpathCV": ["scalar", "mixed"],
    "linearCombination": ["scalar", "vec3", "scalar", "pairs"],
}


def make_c01_colvar(rng, sysm, pool, name, ctype, opts=None, extra_lines=(), coeff=None, exp=None):
    """like make_colvar() for C01_EXTRA_COMPONENTS.  If the component needs a preliminary run, cv["prep"]["text"] is its
    configuration and cv["prep"]["finalize"](values) completes cv["text"] and cv["files"]."""
    c = C01_EXTRA_COMPONENTS[ctype](rng, sysm, pool, opts or {})
    c["ctype"] = ctype
    cv = dict(name=name, text=None, comps=[c], vtype=c["vtype"], dim=c["dim"], period=None, tf=False, ctype=ctype,
              opts=opts or {}, coeff=coeff, exp=exp, files=c["files"], prep=None, variant=c.get("variant"))

    def build():
        cv["text"] = colvar_block(name, [(c, coeff, exp)], extra_lines)
    build()
    if c.get("prep"):
        inner = c["prep"]["finalize"]

        def finalize(values):
            inner(values)
            build()
        cv["prep"] = {"text": c["prep"]["text"], "finalize": finalize}
    return cv
