"""Shared machinery of the monitors: builds, running esim in parallel, verdicts, evidence.

Verdict discipline (DESIGN.md 1.5):
  exit 0  property held on everything observed (known findings are printed, not failed)
  exit 1  at least one violation whose key is not listed in known_findings.jsonl
  exit 2  harness failure / inconclusive (observation floor not reached, watchdog)
"""
import json
import os
import re
import random
import shutil
import signal
import subprocess
import sys
import time
from concurrent.futures import ThreadPoolExecutor

VERIF = os.path.dirname(os.path.dirname(os.path.abspath(__file__)))
sys.path.insert(0, os.path.join(VERIF, "build"))
import build as vbuild  # noqa: E402

NPROC = int(os.environ.get("VERIF_JOBS", "16"))


def seed():
    try:
        return int(os.environ.get("VERIF_SEED", "1"))
    except ValueError:
        return 1


def fnum(x):
    """repr() of a float round-trips exactly; strtod in esim parses it exactly."""
    return repr(float(x))


def fl(x):
    """decode a number of the event log ("nan"/"inf" are written as strings)."""
    if isinstance(x, str):
        return float(x)
    return x


class Check:
    """One run of one property's check: collects cases, violations, evidence."""

    def __init__(self, pid, tier, level="exploration"):
        self.pid = pid
        self.tier = tier
        self.level = level
        self.seed = seed()
        self.rng = random.Random((self.seed * 1000003) ^ hash_str(pid))
        self.t0 = time.time()
        self.evaluations = 0
        self.distinct = set()
        self.samples = []
        self.violations = []       # (key, text, replay)
        self.known_hit = {}        # key -> text
        self.inconclusive = []     # text
        self.extra = {}
        self.assumptions = []
        self.rule = ""
        self.exhaustive = False
        # VERIF_SCRATCH_TAG (mutation campaigns, background sweeps): keep work, replays and evidence of
        # such a run apart from those of the registered check
        self.tag = os.environ.get("VERIF_SCRATCH_TAG", "")
        self.work = os.path.join(VERIF, "work", pid + ("_" + self.tag if self.tag else ""))
        shutil.rmtree(self.work, ignore_errors=True)
        os.makedirs(self.work, exist_ok=True)
        self.replays = os.path.join(VERIF, "replays", pid + ("_" + self.tag if self.tag else ""))
        os.makedirs(self.replays, exist_ok=True)
        self.known = load_known(pid)

    # -- bookkeeping -------------------------------------------------------------------------
    def count(self, n=1):
        self.evaluations += n

    def nontrivial(self, key):
        self.distinct.add(key)

    def sample(self, obj, cap=6):
        if len(self.samples) < cap:
            self.samples.append(obj)

    def bump(self, k, n=1):
        self.extra[k] = self.extra.get(k, 0) + n

    def note_set(self, k, v):
        s = self.extra.setdefault(k, [])
        if v not in s and len(s) < 400:
            s.append(v)

    def inconc(self, text):
        if len(self.inconclusive) < 50:
            self.inconclusive.append(text)
        self.bump("inconclusive_cases")

    def violation(self, key, text, files=None, payload=None):
        """key: discriminating class of the failing input (matched against known findings)."""
        full = "%s:%s" % (self.pid, key)
        # A grid of at most 1e9 elements (the library's stated limit, checked in colvar_grid::setup) is a bounded
        # allocation: the sanitizer's / libFuzzer's own allocation caps (2 GB) are lower than that limit, so their
        # report for such a request is not a verdict on the library.  Recorded as an observation.
        m_ = re.search(r"requested allocation size 0x([0-9a-fA-F]+)", text or "") or re.search(r"malloc\((\d+)\)", text or "")
        if m_ and "colvar_grid" in key:
            size_ = int(m_.group(1), 16) if m_.group(0).startswith("requested") else int(m_.group(1))
            if size_ <= 8 * 10 ** 9 + 4096:
                self.bump("bounded_grid_allocations_reported_by_sanitizer_caps")
                self.note_set("bounded_grid_allocation_sizes", size_)
                return False
        for k in self.known:
            if k["status"] == "known" and match_key(k["key"], full):
                if full not in self.known_hit:
                    self.known_hit[full] = (k, text)
                self.bump("known_finding_hits")
                return False
        # new violation: write a replay directory
        n = len(self.violations)
        if n >= 25:
            self.bump("violations_not_recorded")
            return True
        d = os.path.join(self.replays, "s%d_%s_%03d" % (self.seed, self.tier, n))
        shutil.rmtree(d, ignore_errors=True)
        os.makedirs(d, exist_ok=True)
        for f in files or []:
            if f and os.path.exists(f):
                shutil.copy(f, d)
        with open(os.path.join(d, "violation.json"), "w") as f:
            json.dump({"property": self.pid, "key": full, "text": text, "seed": self.seed,
                       "tier": self.tier, "payload": payload}, f, indent=1, default=str)
        self.violations.append((full, text, d))
        return True

    # -- finish ------------------------------------------------------------------------------
    def finish(self, floor_ok=True, floor_text=""):
        wall = time.time() - self.t0
        cov = {
            "evaluations": int(self.evaluations),
            "distinct_nontrivial": len(self.distinct),
            "rule": self.rule,
            "samples": self.samples if self.samples else ["(none)"],
            "exhaustive": bool(self.exhaustive),
            "inconclusive": self.inconclusive[:20],
            "known_findings_hit": sorted(self.known_hit),
            "build_keys": {f: vbuild.lib_key(f) for f in self.extra.get("_flavours", [])},
        }
        for k, v in self.extra.items():
            if not k.startswith("_"):
                cov[k] = v
        ev = {
            "property_id": self.pid, "tier": self.tier, "seed": self.seed, "level": self.level,
            "coverage": cov, "assumptions": self.assumptions, "wall_s": round(wall, 2),
            "violations": len(self.violations),
        }
        evdir = os.path.join(VERIF, "evidence") if not self.tag else os.path.join(VERIF, "work", "evidence_" + self.tag)
        os.makedirs(evdir, exist_ok=True)
        tmp = os.path.join(evdir, self.pid + ".json.tmp")
        with open(tmp, "w") as f:
            json.dump(ev, f, indent=1, default=str)
        os.replace(tmp, os.path.join(evdir, self.pid + ".json"))
        printed = set()
        for full, (k, text) in sorted(self.known_hit.items()):
            if k["key"] in printed:
                continue
            printed.add(k["key"])
            print("KNOWN-FINDING: property=%s %s [%s]" % (self.pid, k.get("what", ""), k["key"]))
        for full, text, d in self.violations:
            print("VIOLATION property=%s replay=%s" % (self.pid, d))
            print("  key=%s %s" % (full, text[:600]))
        print("%s %s seed=%d: %d evaluations, %d distinct non-trivial, %d violations, %d known, "
              "%d inconclusive, %.1fs" % (self.pid, self.tier, self.seed, self.evaluations,
                                         len(self.distinct), len(self.violations), len(self.known_hit),
                                         self.extra.get("inconclusive_cases", 0), wall))
        shutil.rmtree(self.work, ignore_errors=True)
        if self.violations:
            return 1
        if not floor_ok:
            print("INCONCLUSIVE property=%s: observation floor not reached: %s" % (self.pid, floor_text))
            return 2
        # cases the monitor could not judge are not cases in which the property held: beyond a small allowance (none occur on
        # the unchanged tree, except where a monitor sets its own allowance) the run decides nothing
        ninc = self.extra.get("inconclusive_cases", 0)
        allow = getattr(self, "max_inconclusive", None)
        if allow is None:
            allow = max(5, int(0.01 * self.evaluations))
        if ninc > allow:
            print("INCONCLUSIVE property=%s: %d cases could not be judged (allowance %d), e.g. %s" % (self.pid, ninc, allow, str(self.inconclusive[:2])[:400]))
            return 2
        return 0

    def use_flavour(self, f):
        self.extra.setdefault("_flavours", [])
        if f not in self.extra["_flavours"]:
            self.extra["_flavours"].append(f)
        self.note_set("sanitizer_flavours", f)


def hash_str(s):
    h = 0
    for ch in s:
        h = (h * 131 + ord(ch)) & 0xFFFFFFFF
    return h


def load_known(pid):
    """known_findings.txt, one finding per line (committed, never written at run time):
         known: property=<id> key=<violation key, may end in *> :: <what fails>
         fixed: property=<id> <commit> <what failed>          (suppresses nothing)
    """
    out = []
    p = os.path.join(VERIF, "known_findings.txt")
    if os.path.exists(p):
        for line in open(p):
            line = line.strip()
            if not line or line.startswith("#"):
                continue
            status, _, rest = line.partition(":")
            status = status.strip()
            rest = rest.strip()
            if not rest.startswith("property=" + pid + " "):
                continue
            rest = rest[len("property=" + pid + " "):]
            if status == "known":
                keypart, _, what = rest.partition("::")
                key = keypart.strip()
                if key.startswith("key="):
                    key = key[4:]
                out.append({"property": pid, "status": "known", "key": key, "what": what.strip()})
            elif status == "fixed":
                out.append({"property": pid, "status": "fixed", "key": "", "what": rest})
    return out


def match_key(pattern, full):
    """pattern may end with '*' (prefix match)"""
    if pattern.endswith("*"):
        return full.startswith(pattern[:-1])
    return pattern == full


# ---- running tools -------------------------------------------------------------------------

SAN_ENV = {
    "ASAN_OPTIONS": "abort_on_error=1:detect_leaks=0:allocator_may_return_null=0:max_allocation_size_mb=3000:handle_abort=1",
    "UBSAN_OPTIONS": "print_stacktrace=1:halt_on_error=1",
    "OMP_NUM_THREADS": "1",
}


def run_proc(cmd, timeout=60, env=None, cwd=None, stdin=None):
    """returns dict(rc, sig, out, err, timeout)"""
    e = dict(os.environ)
    e.update(SAN_ENV)
    if env:
        e.update(env)
    try:
        p = subprocess.run(cmd, stdout=subprocess.PIPE, stderr=subprocess.PIPE, timeout=timeout,
                           env=e, cwd=cwd, stdin=stdin or subprocess.DEVNULL)
        rc = p.returncode
        return dict(rc=rc, sig=(-rc if rc < 0 else 0), out=p.stdout.decode("utf-8", "replace"),
                    err=p.stderr.decode("utf-8", "replace"), timeout=False)
    except subprocess.TimeoutExpired as ex:
        return dict(rc=None, sig=0, out=(ex.stdout or b"").decode("utf-8", "replace"),
                    err=(ex.stderr or b"").decode("utf-8", "replace"), timeout=True)


def parse_events(text):
    ev = []
    for line in text.splitlines():
        line = line.strip()
        if not line.startswith("{"):
            continue
        try:
            ev.append(json.loads(line))
        except ValueError:
            ev.append({"ev": "garbled", "raw": line[:200]})
    return ev


def run_esim(flavour, scenario_text, workdir, name, timeout=120, env=None, keep=False):
    """Write the scenario, run esim in workdir, return (result dict, events, scenario path)."""
    exe = vbuild.tool(flavour, "esim")
    os.makedirs(workdir, exist_ok=True)
    sp = os.path.join(workdir, name + ".scn")
    with open(sp, "w") as f:
        f.write(scenario_text)
    r = run_proc([exe, sp], timeout=timeout, env=env, cwd=workdir)
    ev = parse_events(r["out"])
    r["complete"] = bool(ev) and ev[-1].get("ev") == "end"
    return r, ev, sp


def pmap(fn, items, jobs=None):
    with ThreadPoolExecutor(jobs or NPROC) as ex:
        return list(ex.map(fn, items))


def sanitizer_report(err):
    """first line of a sanitizer report in stderr, or None"""
    for line in err.splitlines():
        if "ERROR: AddressSanitizer" in line or "runtime error:" in line or "WARNING: ThreadSanitizer" in line \
                or "ERROR: LeakSanitizer" in line or "AddressSanitizer:" in line and "ERROR" in line:
            return line.strip()[:300]
    return None


def colvars_frame(err):
    """innermost frame in /repo/src of a sanitizer/backtrace dump (for violation keys)"""
    import re
    for line in err.splitlines():
        m = re.search(r"#\d+ .* in (\S+).*?/repo/src/(\S+?):(\d+)", line)
        if m:
            return "%s@%s" % (m.group(1)[:60], m.group(2))
    return "?"


def main_args(argv):
    import argparse
    ap = argparse.ArgumentParser()
    ap.add_argument("--tier", default=os.environ.get("VERIF_TIER", "quick"), choices=["quick", "thorough"])
    ap.add_argument("--replay", default=None)
    return ap.parse_args(argv)
