"""Reference model of the restraint biases, written from the reference manual
(doc/colvars-refman-main.tex: "Harmonic restraints", "Moving restraints", "Changing force constant",
"Computing the work of a changing restraint", "Harmonic wall restraints", "Linear restraints",
"Probability distribution-restraints", "Adiabatic Bias Molecular Dynamics", "Non-scalar components").

Everything here is a function of the variable values and of the ABSOLUTE step number: the model knows
nothing about run statements, restarts or processes.

Value types ("vtype"):
  scalar            real number                       difference x - c
  periodic          real number with period P         shortest image of x - c, in [-P/2, P/2]
  unit3vector       3 numbers, |v| = 1                distance = angle between the two vectors
  quaternion        4 numbers, |q| = 1, q == -q       distance = angle between the 4-vectors, closest of +-q
  3vector / vector  n numbers                         Euclidean
"""
import math


# ---- metric -------------------------------------------------------------------------------------

def sdiff(x, c, period=0.0):
    """x - c, shortest image for a periodic variable"""
    d = x - c
    if period and period > 0.0:
        d -= period * math.floor(d / period + 0.5)
    return d


def _angle(a, b):
    """angle between two vectors, well conditioned everywhere (atan2 of |a x b|-like quantities)"""
    na = math.sqrt(sum(x * x for x in a))
    nb = math.sqrt(sum(x * x for x in b))
    ua = [x / na for x in a]
    ub = [x / nb for x in b]
    dm = math.sqrt(sum((x - y) ** 2 for x, y in zip(ua, ub)))
    dp = math.sqrt(sum((x + y) ** 2 for x, y in zip(ua, ub)))
    return 2.0 * math.atan2(dm, dp)


def dist2(vtype, x, c, period=0.0):
    """square distance between a value and a centre; returns (d2, conditioning factor >= 1)"""
    if vtype == "scalar":
        return (x - c) ** 2, 1.0
    if vtype == "periodic":
        return sdiff(x, c, period) ** 2, 1.0
    if vtype == "unit3vector":
        th = _angle(x, c)
        s = abs(math.sin(th))
        return th * th, (max(th, 1e-300) / s if s > 0 else float("inf"))
    if vtype == "quaternion":
        th = _angle(x, c)
        if th > 0.5 * math.pi:
            th = math.pi - th          # q and -q are the same rotation
        s = abs(math.sin(th))
        return th * th, (max(th, 1e-300) / s if s > 0 else float("inf"))
    if vtype in ("3vector", "vector"):
        return sum((a - b) ** 2 for a, b in zip(x, c)), 1.0
    raise ValueError(vtype)


# ---- potentials ---------------------------------------------------------------------------------

def harmonic_dU_dk(xs, cs, cvs):
    """sum_i (1/2) ((x_i - c_i)/w_i)^2 ; cvs: list of dict(vtype, width, period). returns (value, cond)"""
    s = 0.0
    cond = 1.0
    for x, c, cv in zip(xs, cs, cvs):
        d2, cn = dist2(cv["vtype"], x, c, cv.get("period", 0.0))
        s += 0.5 * d2 / (cv["width"] ** 2)
        cond = max(cond, cn)
    return s, cond


def harmonic_energy(k, xs, cs, cvs):
    v, cond = harmonic_dU_dk(xs, cs, cvs)
    return k * v, cond


def harmonic_force_scalar(k, x, c, cv):
    """force on a scalar variable, -dU/dx"""
    return -k * sdiff(x, c, cv.get("period", 0.0)) / cv["width"] ** 2


def wall_excess(x, lower, upper, period=0.0):
    """signed amount by which x is outside [lower, upper]: <0 below the lower wall, >0 above the upper
    wall, 0 inside.  For a periodic variable both walls may apply: the closest one is used.
    Returns (excess, tie) where tie says that the two walls are equidistant (rule undefined)."""
    if period and period > 0.0:
        dl = sdiff(x, lower, period)
        du = sdiff(x, upper, period)
        if abs(dl) == abs(du):
            return 0.0, True
        if abs(dl) < abs(du):
            return (dl if dl < 0.0 else 0.0), False
        return (du if du > 0.0 else 0.0), False
    if lower is not None and x < lower:
        return x - lower, False
    if upper is not None and x > upper:
        return x - upper, False
    return 0.0, False


def walls_constants(force_constant, lower_k, upper_k, have_lower, have_upper):
    """documented defaults and geometric-mean convention.
    returns (k, rel_lower, rel_upper): k is the constant 'reported as k and used in the change of
    force-constant scheme'; the constant of each wall is k * rel."""
    if have_lower and have_upper:
        kl = force_constant if lower_k is None else lower_k
        ku = force_constant if upper_k is None else upper_k
        g = math.sqrt(kl * ku)
        return g, kl / g, ku / g
    if have_lower:
        return (force_constant if lower_k is None else lower_k), 1.0, 1.0
    return (force_constant if upper_k is None else upper_k), 1.0, 1.0


def walls_dU_dk(xs, lowers, uppers, rel_l, rel_u, cvs):
    """sum_i (1/2) rel * (excess_i / w_i)^2 ; returns (value, tie)"""
    s = 0.0
    tie = False
    for i, (x, cv) in enumerate(zip(xs, cvs)):
        lo = lowers[i] if lowers is not None else None
        up = uppers[i] if uppers is not None else None
        e, t = wall_excess(x, lo, up, cv.get("period", 0.0))
        tie = tie or t
        rel = rel_u if e > 0.0 else rel_l
        s += 0.5 * rel * (e / cv["width"]) ** 2
    return s, tie


def linear_dU_dk(xs, cs, cvs):
    return sum((x - c) / cv["width"] for x, c, cv in zip(xs, cs, cvs))


def histogram_density(values, lower, width, nbins, sigma):
    """h(xi) of the manual on the grid mid-points: (1/(M sqrt(2 pi sigma^2))) sum_i exp(-(xi-xi_i)^2/(2 sigma^2))"""
    M = len(values)
    nrm = 1.0 / (M * math.sqrt(2.0 * math.pi * sigma * sigma))
    h = []
    for g in range(nbins):
        xg = lower + (g + 0.5) * width
        h.append(nrm * sum(math.exp(-(xg - v) ** 2 / (2.0 * sigma * sigma)) for v in values))
    return h


def histogram_reference(ref, width):
    """h0, rescaled to unit integral when it is not normalised"""
    integral = sum(ref) * width
    if integral == 1.0:
        return list(ref), integral
    return [r / integral for r in ref], integral


def histogram_sumsq(values, lower, width, nbins, sigma, ref_normalised):
    h = histogram_density(values, lower, width, nbins, sigma)
    return sum((a - b) ** 2 for a, b in zip(h, ref_normalised))


def histogram_energy_documented(k, values, lower, width, nbins, sigma, ref_normalised):
    """(1/2) k Integral (h - h0)^2 dxi, the integral taken on the grid of h0 (mid-point rule)"""
    return 0.5 * k * width * histogram_sumsq(values, lower, width, nbins, sigma, ref_normalised)


class ABMD:
    """V_t = (k/2)(xi_t - ref_t)^2 if xi_t < ref_t else 0; ref_t = min(max_{s<=t} xi_s, stop)
    (mirror image when decreasing).  No width scaling (documented)."""

    def __init__(self, k, stop, decreasing=False, ref=None):
        self.k = k
        self.stop = stop
        self.sign = -1.0 if decreasing else 1.0
        self.hw = None if ref is None else ref * self.sign   # high-water mark in the 'increasing' frame

    def step(self, x):
        y = x * self.sign
        self.hw = y if self.hw is None else max(self.hw, y)
        ref = min(self.hw, self.stop * self.sign)
        e = 0.5 * self.k * (y - ref) ** 2 if y < ref else 0.0
        return e, ref * self.sign


# ---- schedules (functions of the absolute step) ---------------------------------------------------

class Schedule:
    """kind: 'fixed' | 'cont' | 'staged'
       first: step at which the restraint was defined; nsteps = targetNumSteps;
       nstages = targetNumStages (or len(lambdaSchedule)-1); lambdas: lambdaSchedule or None;
       delta: the stage that begins "after N steps" begins at step first + j*N + delta.  The manual only
       says that each stage lasts N steps and that N*(nstages+1) steps sample both ends: delta in {0,1}."""

    def __init__(self, kind, first=0, nsteps=0, nstages=0, lambdas=None, delta=0):
        self.kind = kind
        self.first = first
        self.nsteps = nsteps
        self.nstages = nstages if lambdas is None else len(lambdas) - 1
        self.lambdas = lambdas
        self.delta = delta

    def stage(self, t):
        if self.kind != "staged":
            return 0
        d = t - self.first - self.delta
        if d < 0:
            return 0
        return min(d // self.nsteps, self.nstages)

    def lam(self, t):
        """coupling parameter in [0,1] at absolute step t"""
        if self.kind == "fixed":
            return 0.0
        if self.kind == "cont":
            d = t - self.first
            if d <= 0:
                return 0.0
            if d >= self.nsteps:
                return 1.0
            return d / float(self.nsteps)
        s = self.stage(t)
        if self.lambdas is not None:
            return self.lambdas[s]
        return s / float(self.nstages)

    def stage_lambda(self, s):
        if self.lambdas is not None:
            return self.lambdas[s]
        return s / float(self.nstages)


def force_constant(k0, k1, lam, exponent=1.0, decoupling=False):
    """k_lambda = k0 + lambda^alpha (k1 - k0); decoupling: k_lambda = (1 - lambda)^alpha k0"""
    if decoupling:
        return (1.0 - lam) ** exponent * k0
    return k0 + lam ** exponent * (k1 - k0)


def dk_dcoupling(k0, k1, c, exponent=1.0, decoupling=False):
    """derivative of the force constant with respect to the *reported* coupling parameter c
    (c = lambda, or c = 1 - lambda when decoupling: the reported Lambda runs from 1 to 0 then and
    k = c^alpha k0)"""
    if exponent == 1.0:
        p = 1.0
    elif c == 0.0:
        p = 0.0
    else:
        p = exponent * c ** (exponent - 1.0)
    return p * (k0 if decoupling else (k1 - k0))


def interpolate(vtype, c0, c1, lam):
    """centres at coupling lam: linear interpolation between the initial and the target centres"""
    if vtype in ("scalar", "periodic"):
        return (1.0 - lam) * c0 + lam * c1
    if vtype in ("3vector", "vector"):
        return [(1.0 - lam) * a + lam * b for a, b in zip(c0, c1)]
    raise ValueError("moving centres are modelled for scalar and vector values only")


def window_means(samples, lo, hi, length):
    """means over every window of `length` consecutive steps inside [lo, hi]; samples: dict step->value.
    returns list of (first step of the window, mean, sum of |terms|)"""
    out = []
    for a in range(lo, hi - length + 2):
        steps = range(a, a + length)
        if all(s in samples for s in steps):
            out.append((a, sum(samples[s] for s in steps) / float(length), sum(abs(samples[s]) for s in steps)))
    return out
