"""Independent reference model of the Colvars component functions (property C02, layer L2).

Written from the formulas of the reference manual (doc/colvars-refman-main.tex, sections
"Distances", "Angles", "Contacts", "Collective metrics", "Rotations", "Raw data", "Linear and
polynomial combinations of components", "Moving frame of reference", "Treatment of periodic boundary
conditions").  The C++ sources were consulted only for what the manual leaves open; every such
convention is marked "convention:" below.

Deliberately different numerics from the library: optimal rotations come from an SVD (Kabsch), never
from the quaternion eigenproblem; rotation-derived scalars (angle, tilt, spin, Euler angles) are
taken from the 3x3 matrix, never from quaternion components; the minimum image is found by brute
force over the 27 neighbouring images.

Public entry points
    parse_config(text)            -> tree  (list of (key, value); value is a str or a tree)
    serialize(tree)               -> text
    ColvarModel(tree_of_one_colvar_block).evaluate(X, masses, charges, cell) -> Result
"""
import math
import re

import numpy as np

DEG = 180.0 / math.pi


# ---------------------------------------------------------------------------------------------
# configuration tree
# ---------------------------------------------------------------------------------------------

def parse_config(text):
    """Line-oriented parser of the configurations produced by vlib/corpus.py: every line is
    `key {`, `}` or `key value...`.  Returns a list of (key, value)."""
    root = []
    stack = [root]
    for raw in text.splitlines():
        line = raw.strip()
        if not line or line.startswith("#"):
            continue
        if line == "}":
            stack.pop()
            continue
        if line.endswith("{"):
            key = line[:-1].strip()
            blk = []
            stack[-1].append((key, blk))
            stack.append(blk)
            continue
        parts = line.split(None, 1)
        stack[-1].append((parts[0], parts[1] if len(parts) > 1 else ""))
    if len(stack) != 1:
        raise ValueError("unbalanced braces")
    return root


def serialize(tree, indent=0):
    out = []
    pad = "  " * indent
    for key, val in tree:
        if isinstance(val, list):
            out.append("%s%s {" % (pad, key))
            out.append(serialize(val, indent + 1))
            out.append("%s}" % pad)
        else:
            out.append("%s%s %s" % (pad, key, val))
    return "\n".join(x for x in out if x != "")


def tget(tree, key, default=None):
    """last scalar value of `key` (keywords are case-insensitive in Colvars)"""
    r = default
    for k, v in tree:
        if k.lower() == key.lower() and not isinstance(v, list):
            r = v
    return r


def tgetall(tree, key):
    return [v for k, v in tree if k.lower() == key.lower() and not isinstance(v, list)]


def tsub(tree, key):
    for k, v in tree:
        if k.lower() == key.lower() and isinstance(v, list):
            return v
    return None


def tbool(tree, key, default):
    v = tget(tree, key)
    if v is None:
        return default
    return v.strip().lower() in ("on", "yes", "true")


_VEC = re.compile(r"\(([^()]*)\)")


def parse_vecs(s):
    return [[float(x) for x in m.split(",")] for m in _VEC.findall(s)]


def parse_vec(s):
    return parse_vecs(s)[0]


def fmt_vec(v):
    return "(" + ", ".join(repr(float(x)) for x in v) + ")"


# ---------------------------------------------------------------------------------------------
# linear algebra helpers
# ---------------------------------------------------------------------------------------------

def unit(v):
    v = np.asarray(v, float)
    return v / math.sqrt(float(v @ v))


def kabsch(P, Q):
    """Proper rotation R minimising sum_i |R P_i - Q_i|^2 (no centring done here).
    Returns (R, gap) with gap a conditioning indicator: the smallest separation between the optimum
    and the next stationary value of the overlap, relative to its scale (0 = degenerate)."""
    P = np.asarray(P, float)
    Q = np.asarray(Q, float)
    H = P.T @ Q
    U, S, Vt = np.linalg.svd(H)
    d = 1.0 if np.linalg.det(Vt.T @ U.T) > 0 else -1.0
    D = np.diag([1.0, 1.0, d])
    R = Vt.T @ D @ U.T
    s = [S[0], S[1], d * S[2]]
    # quaternion overlap eigenvalues are s0+s1+s2 (optimum), s0-s1-s2, -s0+s1-s2, -s0-s1+s2
    gap = 2.0 * (s[1] + s[2])
    scale = max(S[0], 1e-300)
    return R, gap / scale


def random_rotation(rng, max_angle=None):
    """numpy rotation matrix from a python random.Random; uniform over SO(3) if max_angle is None,
    otherwise a rotation by an angle in (0, max_angle] about a uniform axis"""
    while True:
        a = np.array([rng.gauss(0, 1) for _ in range(3)])
        n = math.sqrt(float(a @ a))
        if n > 1e-3:
            a /= n
            break
    if max_angle is None:
        # uniform: random unit quaternion
        while True:
            q = np.array([rng.gauss(0, 1) for _ in range(4)])
            n = math.sqrt(float(q @ q))
            if n > 1e-3:
                q /= n
                break
        return quat_to_matrix(q)
    ang = rng.uniform(0.0, max_angle)
    return axis_angle_matrix(a, ang)


def axis_angle_matrix(a, ang):
    a = unit(a)
    K = np.array([[0, -a[2], a[1]], [a[2], 0, -a[0]], [-a[1], a[0], 0]])
    return np.eye(3) + math.sin(ang) * K + (1 - math.cos(ang)) * (K @ K)


def quat_to_matrix(q):
    w, x, y, z = q
    return np.array([[1 - 2 * (y * y + z * z), 2 * (x * y - w * z), 2 * (x * z + w * y)],
                     [2 * (x * y + w * z), 1 - 2 * (x * x + z * z), 2 * (y * z - w * x)],
                     [2 * (x * z - w * y), 2 * (y * z + w * x), 1 - 2 * (x * x + y * y)]])


def matrix_to_quat(R):
    """unit quaternion (w,x,y,z) of a rotation matrix, w >= 0 branch-free of singularities"""
    t = R[0, 0] + R[1, 1] + R[2, 2]
    if t > 0:
        s = math.sqrt(t + 1.0) * 2
        q = [0.25 * s, (R[2, 1] - R[1, 2]) / s, (R[0, 2] - R[2, 0]) / s, (R[1, 0] - R[0, 1]) / s]
    elif R[0, 0] > R[1, 1] and R[0, 0] > R[2, 2]:
        s = math.sqrt(1.0 + R[0, 0] - R[1, 1] - R[2, 2]) * 2
        q = [(R[2, 1] - R[1, 2]) / s, 0.25 * s, (R[0, 1] + R[1, 0]) / s, (R[0, 2] + R[2, 0]) / s]
    elif R[1, 1] > R[2, 2]:
        s = math.sqrt(1.0 + R[1, 1] - R[0, 0] - R[2, 2]) * 2
        q = [(R[0, 2] - R[2, 0]) / s, (R[0, 1] + R[1, 0]) / s, 0.25 * s, (R[1, 2] + R[2, 1]) / s]
    else:
        s = math.sqrt(1.0 + R[2, 2] - R[0, 0] - R[1, 1]) * 2
        q = [(R[1, 0] - R[0, 1]) / s, (R[0, 2] + R[2, 0]) / s, (R[1, 2] + R[2, 1]) / s, 0.25 * s]
    q = np.array(q)
    return q / math.sqrt(float(q @ q))


class Ctx:
    """evaluation context: engine data plus flags raised while evaluating"""

    def __init__(self, X, masses, charges, cell, names=None, files=None):
        self.names = names or {}     # (resid, atom name, segid) -> 0-based atom index
        self.files = files or {}     # file name -> content (vectorFile of dihedralPC)
        self.X = np.asarray(X, float)
        self.m = np.asarray(masses, float)
        self.q = np.asarray(charges, float)
        self.cell = None if cell is None else np.asarray(cell, float)
        self.flags = []          # reasons why the value is ill-conditioned at this geometry
        self.unmodelled = []     # reasons why there is no documented function to compare with
        self.min_gap = None      # smallest Kabsch conditioning indicator seen
        self.rotations = []      # (label, R) of every optimal rotation used

    def flag(self, s):
        if s not in self.flags:
            self.flags.append(s)

    def nomodel(self, s):
        if s not in self.unmodelled:
            self.unmodelled.append(s)

    def note_gap(self, g):
        self.min_gap = g if self.min_gap is None else min(self.min_gap, g)

    def minimage(self, d):
        """Manual, 'Treatment of periodic boundary conditions', rule 1: distance vectors follow the
        minimum-image convention.  Brute force over the 27 neighbouring images of the vector reduced
        to the primary cell."""
        d = np.asarray(d, float)
        if self.cell is None:
            return d
        L = self.cell
        base = d - L * np.floor(d / L)        # components in [0, L)
        best = None
        bestn = None
        second = None
        for i in (-1, 0, 1):
            for j in (-1, 0, 1):
                for k in (-1, 0, 1):
                    c = base + L * np.array([i, j, k], float)
                    n = float(c @ c)
                    if bestn is None or n < bestn:
                        second = bestn
                        bestn, best = n, c
                    elif second is None or n < second:
                        second = n
        if second is not None and math.sqrt(second) - math.sqrt(bestn) < 1e-6:
            self.flag("minimum image tie")
        return best


# ---------------------------------------------------------------------------------------------
# atom groups and the moving frame of reference
# ---------------------------------------------------------------------------------------------

class Group:
    def __init__(self, blk):
        self.blk = blk
        self.dummy = None
        d = tget(blk, "dummyAtom")
        if d is not None:
            self.dummy = np.array(parse_vec(d))
        ids = []
        for k, v in blk:
            if isinstance(v, list):
                continue
            kl = k.lower()
            if kl == "atomnumbers":
                ids += [int(x) for x in v.split()]
            elif kl == "atomnumbersrange":
                a, b = v.split("-")
                ids += list(range(int(a), int(b) + 1))
        # manual, "Atom selection keywords": atoms included several times are only counted once
        seen = []
        for a in ids:
            if a not in seen:
                seen.append(a)
        self.ids = [a - 1 for a in seen]
        self.center = tbool(blk, "centerToReference", False)
        self.center_origin = tbool(blk, "centerToOrigin", False)
        if self.center_origin:
            self.center = tbool(blk, "centerToReference", True)
        self.rotate = tbool(blk, "rotateToReference", False)
        self.user_fit = any(tget(blk, k) is not None for k in ("centerToReference", "rotateToReference",
                                                               "centerToOrigin"))
        fg = tsub(blk, "fittingGroup")
        self.fit_ids = Group(fg).ids if fg is not None else None
        rp = tget(blk, "refPositions")
        self.ref = np.array(parse_vecs(rp)) if rp is not None else None

    def size(self):
        return 1 if self.dummy is not None else len(self.ids)

    def set_default_fit(self, ref):
        """rmsd / eigenvector: centerToReference and rotateToReference default to on, fitted onto the
        component's own refPositions"""
        self.center = True
        self.rotate = True
        self.ref = np.asarray(ref, float)

    def positions(self, ctx):
        """positions seen by the component: x' = R (x - x^C) + x^ref  (manual, 'Moving frame of
        reference'); x^C geometric centre of the (fitting) group, x^ref that of the reference
        positions, R the optimal rotation onto them"""
        if self.dummy is not None:
            return self.dummy.reshape(1, 3)
        x = ctx.X[self.ids]
        if not (self.center or self.rotate):
            return x
        if self.ref is None:
            ctx.nomodel("fit without reference positions")
            return x
        fit = ctx.X[self.fit_ids] if self.fit_ids is not None else x
        refcog = self.ref.mean(axis=0)
        if self.center:
            c = fit.mean(axis=0)
            x = x - c
            fit = fit - c
        if self.rotate:
            if not self.center:
                # "around the origin": the manual does not say onto which positions the optimum is taken
                ctx.nomodel("rotateToReference without centerToReference not modelled")
                return x
            if len(self.ref) != len(fit):
                ctx.nomodel("reference positions do not match the fitting group")
                return x
            R, gap = kabsch(fit, self.ref - refcog)
            ctx.note_gap(gap)
            ctx.rotations.append(("fit", R))
            x = x @ R.T
        if self.center and not self.center_origin:
            x = x + refcog
        return x

    def com(self, ctx):
        """convention (checked in colvaratoms.cpp): groups are mass-weighted, com = sum m x / sum m"""
        if self.dummy is not None:
            return self.dummy.copy()
        x = self.positions(ctx)
        m = ctx.m[self.ids]
        return (m[:, None] * x).sum(axis=0) / m.sum()

    def cog(self, ctx):
        return self.positions(ctx).mean(axis=0)

    def dipole(self, ctx):
        """dipole moment about the centre of mass: sum q_i (x_i - com)"""
        x = self.positions(ctx)
        return (ctx.q[self.ids][:, None] * (x - self.com(ctx))).sum(axis=0)


# ---------------------------------------------------------------------------------------------
# components
# ---------------------------------------------------------------------------------------------

def _grp(blk, key):
    g = tsub(blk, key)
    if g is None:
        raise KeyError(key)
    return Group(g)


def _axis(blk):
    a = tget(blk, "axis")
    return unit(parse_vec(a)) if a is not None else np.array([0.0, 0.0, 1.0])


def _angle_deg(ctx, a, b):
    n = math.sqrt(float(a @ a) * float(b @ b))
    if n < 1e-12:
        ctx.flag("angle with a zero vector")
        return 0.0
    c = float(a @ b) / n
    return DEG * math.acos(max(-1.0, min(1.0, c)))


def _switch(ctx, d, blk, r0_default, en_default, ed_default, tol=0.0):
    """(1 - (d/d0)^n) / (1 - (d/d0)^m); anisotropic: d/d0 -> |(dx/d0x, dy/d0y, dz/d0z)|;
    tolerance: 'modified by subtracting the tolerance and then rescaling so that each pair covers
    the range [0, 1]'; contributions below the tolerance are excluded"""
    en = int(tget(blk, "expNumer", en_default))
    ed = int(tget(blk, "expDenom", ed_default))
    c3 = tget(blk, "cutoff3")
    if c3 is not None:
        r0v = np.abs(np.array(parse_vec(c3)))
        l = math.sqrt(float(((d / r0v) ** 2).sum()))
    else:
        r0 = float(tget(blk, "cutoff", r0_default))
        l = math.sqrt(float(d @ d)) / r0
    if abs(l - 1.0) < 1e-7:
        ctx.flag("switching function at its removable singularity")
        return en / float(ed)
    s = (1.0 - l ** en) / (1.0 - l ** ed)
    if tol > 0.0:
        s = (s - tol) / (1.0 - tol)
        if abs(s) < 1e-9:
            ctx.flag("pair at the tolerance threshold")
        if s < 0.0:
            s = 0.0
    return s


def c_distance(blk, ctx):
    g1, g2 = _grp(blk, "group1"), _grp(blk, "group2")
    d = ctx.minimage(g2.com(ctx) - g1.com(ctx))
    return [math.sqrt(float(d @ d))]


def c_distance_vec(blk, ctx):
    # convention: the vector joins group1 to group2 (group2 - group1)
    g1, g2 = _grp(blk, "group1"), _grp(blk, "group2")
    return list(ctx.minimage(g2.com(ctx) - g1.com(ctx)))


def c_distance_dir(blk, ctx):
    g1, g2 = _grp(blk, "group1"), _grp(blk, "group2")
    return list(unit(ctx.minimage(g2.com(ctx) - g1.com(ctx))))


def _z_frame(blk, ctx):
    main, ref = _grp(blk, "main"), _grp(blk, "ref")
    r, r1 = main.com(ctx), ref.com(ctx)
    if tsub(blk, "ref2") is not None:
        r2 = _grp(blk, "ref2").com(ctx)
        e = unit(ctx.minimage(r2 - r1))
        return r, r1, r2, e
    return r, r1, None, _axis(blk)


def c_distance_z(blk, ctx):
    r, r1, r2, e = _z_frame(blk, ctx)
    if r2 is None:
        return [float(e @ ctx.minimage(r - r1))]          # e . (r - r1)
    # origin r_m = 1/2 (r1 + r2), with r2 the periodic image closest to r1 (the engine may supply any image of either group)
    rm = r1 + 0.5 * ctx.minimage(r2 - r1)
    return [float(e @ ctx.minimage(r - rm))]


def c_distance_xy(blk, ctx):
    r, r1, r2, e = _z_frame(blk, ctx)
    d = ctx.minimage(r - r1)
    p = d - float(d @ e) * e
    return [math.sqrt(float(p @ p))]


def c_distance_inv(blk, ctx):
    g1, g2 = _grp(blk, "group1"), _grp(blk, "group2")
    n = int(tget(blk, "exponent", 6))
    x1, x2 = g1.positions(ctx), g2.positions(ctx)
    s = 0.0
    for a in x1:
        for b in x2:
            d = ctx.minimage(b - a)
            s += math.sqrt(float(d @ d)) ** (-n)
    return [(s / (len(x1) * len(x2))) ** (-1.0 / n)]


def c_distance_pairs(blk, ctx):
    # convention: flat index i1 * N2 + i2
    g1, g2 = _grp(blk, "group1"), _grp(blk, "group2")
    out = []
    for a in g1.positions(ctx):
        for b in g2.positions(ctx):
            d = ctx.minimage(b - a)
            out.append(math.sqrt(float(d @ d)))
    return out


def c_cartesian(blk, ctx):
    return [float(v) for p in _grp(blk, "atoms").positions(ctx) for v in p]


def c_angle(blk, ctx):
    r1, r2, r3 = (_grp(blk, "group%d" % i).com(ctx) for i in (1, 2, 3))
    return [_angle_deg(ctx, ctx.minimage(r1 - r2), ctx.minimage(r3 - r2))]


def c_dipole_angle(blk, ctx):
    # angle between the dipole of group1 and the vector joining group2 to group3
    g1 = _grp(blk, "group1")
    r2, r3 = _grp(blk, "group2").com(ctx), _grp(blk, "group3").com(ctx)
    return [_angle_deg(ctx, g1.dipole(ctx), ctx.minimage(r3 - r2))]


def c_dihedral(blk, ctx):
    """torsion 1-2-3-4 with the usual (IUPAC) sign: positive when, looking along 2->3, bond 3->4 is
    rotated clockwise with respect to 2->1"""
    r = [_grp(blk, "group%d" % i).com(ctx) for i in (1, 2, 3, 4)]
    a = ctx.minimage(r[0] - r[1])          # bond 2->1
    b2 = ctx.minimage(r[2] - r[1])         # bond 2->3
    d = ctx.minimage(r[3] - r[2])          # bond 3->4
    e = unit(b2)
    u = a - float(a @ e) * e               # projections on the plane orthogonal to 2->3
    w = d - float(d @ e) * e
    # right-handed angle about e from u to w (= clockwise when looking along e)
    x = float(u @ w)
    y = float(e @ np.cross(u, w))
    if math.hypot(x, y) < 1e-8 * float(a @ a) ** 0.5 * float(d @ d) ** 0.5:
        ctx.flag("dihedral with collinear groups")
    return [DEG * math.atan2(y, x)]


def c_polar_theta(blk, ctx):
    p = _grp(blk, "atoms").com(ctx)
    return [DEG * math.acos(p[2] / math.sqrt(float(p @ p)))]


def c_polar_phi(blk, ctx):
    p = _grp(blk, "atoms").com(ctx)
    if math.hypot(p[0], p[1]) < 1e-6 * math.sqrt(float(p @ p)):
        ctx.flag("polarPhi at the pole")
    return [DEG * math.atan2(p[1], p[0])]


def c_dipole_magnitude(blk, ctx):
    d = _grp(blk, "atoms").dipole(ctx)
    return [math.sqrt(float(d @ d))]


def c_coordnum(blk, ctx):
    g1, g2 = _grp(blk, "group1"), _grp(blk, "group2")
    tol = float(tget(blk, "tolerance", 0.0))
    center_only = tbool(blk, "group2CenterOnly", g2.dummy is not None)
    x1 = g1.positions(ctx)
    x2 = [g2.com(ctx)] if center_only else g2.positions(ctx)
    s = 0.0
    for a in x1:
        for b in x2:
            s += _switch(ctx, ctx.minimage(b - a), blk, 4.0, 6, 12, tol)
    return [s]


def c_selfcoordnum(blk, ctx):
    g1 = _grp(blk, "group1")
    tol = float(tget(blk, "tolerance", 0.0))
    x = g1.positions(ctx)
    s = 0.0
    for i in range(len(x)):
        for j in range(i + 1, len(x)):
            s += _switch(ctx, ctx.minimage(x[j] - x[i]), blk, 4.0, 6, 12, tol)
    return [s]


def c_groupcoord(blk, ctx):
    """not in the reference manual; definition from the source (colvarcomp.h: "coordination number
    between two groups"; colvarcomp_coordnums.cpp): the coordNum switching function of the distance
    between the two centres of mass"""
    g1, g2 = _grp(blk, "group1"), _grp(blk, "group2")
    return [_switch(ctx, ctx.minimage(g2.com(ctx) - g1.com(ctx)), blk, 4.0, 6, 12)]


def c_hbond(blk, ctx):
    a = int(tget(blk, "acceptor")) - 1
    d = int(tget(blk, "donor")) - 1
    return [_switch(ctx, ctx.minimage(ctx.X[d] - ctx.X[a]), blk, 3.3, 6, 8)]


def _comp_ref(blk):
    rp = tget(blk, "refPositions")
    return np.array(parse_vecs(rp))


def c_rmsd(blk, ctx):
    g = _grp(blk, "atoms")
    ref = _comp_ref(blk)
    if not g.user_fit:
        g.set_default_fit(ref)
    x = g.positions(ctx)
    return [math.sqrt(float(((x - ref) ** 2).sum()) / len(x))]


def c_gyration(blk, ctx, kind="gyration"):
    g = _grp(blk, "atoms")
    if g.user_fit:
        # the manual's definition is relative to the centre of geometry and it discourages fit options
        # in this block (the library logs a warning): no documented function to compare with
        ctx.nomodel("explicit fit options on a group the manual says should not carry them")
    x = g.positions(ctx)
    x = x - x.mean(axis=0)
    if kind == "gyration":
        return [math.sqrt(float((x ** 2).sum()) / len(x))]
    if kind == "inertia":
        return [float((x ** 2).sum())]
    e = _axis(blk)
    return [float(((x @ e) ** 2).sum())]


def c_eigenvector(blk, ctx):
    g = _grp(blk, "atoms")
    ref = _comp_ref(blk)
    v = np.array(parse_vecs(tget(blk, "vector")))
    if tbool(blk, "differenceVector", False) or tbool(blk, "normalizeVector", False):
        ctx.nomodel("differenceVector/normalizeVector not modelled")
    v = v - v.mean(axis=0)          # "the Colvars module centers the v_i automatically"
    if not g.user_fit:
        g.set_default_fit(ref)
    x = g.positions(ctx)
    # with the v_i centred, subtracting the centres of geometry of x and ref changes nothing
    return [float(((x - ref) * v).sum())]


def _rotation_ref_to_current(blk, ctx):
    """convention (colvarcomp_rotations.cpp): the rotation is taken *from* the reference positions
    *to* the current ones, both centred on their centres of geometry"""
    g = _grp(blk, "atoms")
    ref = _comp_ref(blk)
    x = g.positions(ctx)
    R, gap = kabsch(ref - ref.mean(axis=0), x - x.mean(axis=0))
    ctx.note_gap(gap)
    ctx.rotations.append(("orientation", R))
    return R


def c_orientation(blk, ctx):
    R = _rotation_ref_to_current(blk, ctx)
    q = matrix_to_quat(R)
    c = tget(blk, "closestToQuaternion")
    refq = np.array(parse_vec(c)) if c is not None else np.array([1.0, 0.0, 0.0, 0.0])
    ip = float(q @ refq)
    if abs(ip) < 1e-7:
        ctx.flag("orientation equidistant from +/- reference quaternion")
    if ip < 0:
        q = -q
    return list(q)


def _cos_rot(R):
    return max(-1.0, min(1.0, 0.5 * (R[0, 0] + R[1, 1] + R[2, 2] - 1.0)))


def c_orientation_angle(blk, ctx):
    return [DEG * math.acos(_cos_rot(_rotation_ref_to_current(blk, ctx)))]


def c_orientation_proj(blk, ctx):
    return [_cos_rot(_rotation_ref_to_current(blk, ctx))]


def c_tilt(blk, ctx):
    """cosine of the 'tilt' sub-rotation about an axis orthogonal to e = cosine of the angle between e
    and its image"""
    R = _rotation_ref_to_current(blk, ctx)
    e = _axis(blk)
    return [float(e @ (R @ e))]


def c_spin_angle(blk, ctx):
    """angle of the 'spin' sub-rotation around e: R = S T with S the rotation about an axis orthogonal
    to e that takes e to R e, T a rotation about e; angle of T"""
    R = _rotation_ref_to_current(blk, ctx)
    e = _axis(blk)
    f = R @ e
    c = float(e @ f)
    if c < -1.0 + 1e-6:
        ctx.flag("spinAngle undefined (tilt = -1)")
        return [0.0]
    ax = np.cross(e, f)
    n = math.sqrt(float(ax @ ax))
    S = np.eye(3) if n < 1e-14 else axis_angle_matrix(ax / n, math.atan2(n, c))
    T = S.T @ R
    # a vector orthogonal to e
    u = np.cross(e, [1.0, 0.0, 0.0])
    if float(u @ u) < 0.1:
        u = np.cross(e, [0.0, 1.0, 0.0])
    u = unit(u)
    Tu = T @ u
    return [DEG * math.atan2(float(e @ np.cross(u, Tu)), float(u @ Tu))]


def _euler(blk, ctx):
    """roll/pitch/yaw (phi, theta, psi) of R = Rz(psi) Ry(theta) Rx(phi)"""
    R = _rotation_ref_to_current(blk, ctx)
    s = max(-1.0, min(1.0, -R[2, 0]))
    if abs(s) > 1.0 - 1e-6:
        ctx.flag("Euler angles at gimbal lock")
    return (DEG * math.atan2(R[2, 1], R[2, 2]), DEG * math.asin(s), DEG * math.atan2(R[1, 0], R[0, 0]))


def _dihedral_points(ctx, p1, p2, p3, p4):
    """same construction as c_dihedral for four points"""
    a = ctx.minimage(p1 - p2)
    b2 = ctx.minimage(p3 - p2)
    d = ctx.minimage(p4 - p3)
    e = unit(b2)
    u = a - float(a @ e) * e
    w = d - float(d @ e) * e
    x = float(u @ w)
    y = float(e @ np.cross(u, w))
    if math.hypot(x, y) < 1e-8 * float(a @ a) ** 0.5 * float(d @ d) ** 0.5:
        ctx.flag("dihedral with collinear atoms")
    return math.atan2(y, x)


def _residues(blk):
    a, b = G_range(tget(blk, "residueRange"))
    return list(range(a, b + 1)), tget(blk, "psfSegID", "MAIN").strip()


def G_range(s):
    a, b = s.strip().split("-")
    return int(a), int(b)


def _named(ctx, resid, name, seg):
    k = ctx.names.get((resid, name, seg))
    if k is None:
        raise KeyError("atom %s of residue %d in segment %s" % (name, resid, seg))
    return ctx.X[k]


def c_alpha(blk, ctx):
    """manual eq. 'colvars_alpha': (1-C)/(N-1) sum angf(CA_n, CA_n+1, CA_n+2) + C/(N-3) sum hbf(O_n, N_n+4)
    over the N+1 residues of residueRange; angf = (1 - t^2)/(1 - t^4), t = (theta - theta0)/tol;
    hbf = the hBond switching function (cutoff 3.3, exponents 6 and 8 by default)"""
    res, seg = _residues(blk)
    C = float(tget(blk, "hBondCoeff", 0.5))
    th0 = float(tget(blk, "angleRef", 88.0))
    tol = float(tget(blk, "angleTol", 15.0))
    hb = [("cutoff", tget(blk, "hBondCutoff", "3.3")), ("expNumer", tget(blk, "hBondExpNumer", "6")),
          ("expDenom", tget(blk, "hBondExpDenom", "8"))]
    N = len(res) - 1
    val = 0.0
    if C < 1.0:
        s = 0.0
        for i in range(len(res) - 2):
            a, b, c = (_named(ctx, res[i + k], "CA", seg) for k in range(3))
            th = _angle_deg(ctx, ctx.minimage(a - b), ctx.minimage(c - b))
            t = (th - th0) / tol
            if abs(abs(t) - 1.0) < 1e-6:
                ctx.flag("alpha angle score at its removable singularity")
                s += 0.5
            else:
                s += (1.0 - t ** 2) / (1.0 - t ** 4)
        val += (1.0 - C) / (N - 1) * s
    if C > 0.0:
        s = 0.0
        for i in range(len(res) - 4):
            o = _named(ctx, res[i], "O", seg)
            n = _named(ctx, res[i + 4], "N", seg)
            s += _switch(ctx, ctx.minimage(n - o), hb, 3.3, 6, 8)
        val += C / (N - 3) * s
    return [val]


def c_dihedralpc(blk, ctx):
    """xi = sum_n k_{4n-3} cos(psi_n) + k_{4n-2} sin(psi_n) + k_{4n-1} cos(phi_{n+1}) + k_{4n} sin(phi_{n+1});
    psi_n = N_n-CA_n-C_n-N_{n+1}, phi_{n+1} = C_n-N_{n+1}-CA_{n+1}-C_{n+1} (Ramachandran angles);
    coefficients: column vectorNumber of the Carma-style vectorFile"""
    res, seg = _residues(blk)
    fname = tget(blk, "vectorFile").strip()
    col = int(tget(blk, "vectorNumber"))
    if fname not in ctx.files:
        ctx.nomodel("vector file not available to the model")
        return [0.0]
    k = [float(line.split()[col - 1]) for line in ctx.files[fname].splitlines() if len(line) >= 2]
    if len(k) != 4 * (len(res) - 1):
        ctx.nomodel("wrong number of coefficients")
        return [0.0]
    val = 0.0
    for n in range(len(res) - 1):
        N0, CA0, C0 = (_named(ctx, res[n], a, seg) for a in ("N", "CA", "C"))
        N1, CA1, C1 = (_named(ctx, res[n + 1], a, seg) for a in ("N", "CA", "C"))
        psi = _dihedral_points(ctx, N0, CA0, C0, N1)
        phi = _dihedral_points(ctx, C0, N1, CA1, C1)
        val += k[4 * n] * math.cos(psi) + k[4 * n + 1] * math.sin(psi) + k[4 * n + 2] * math.cos(phi) \
            + k[4 * n + 3] * math.sin(phi)
    return [val]


COMPONENTS = {
    "alpha": c_alpha,
    "dihedralPC": c_dihedralpc,
    "distance": c_distance,
    "distanceZ": c_distance_z,
    "distanceXY": c_distance_xy,
    "distanceVec": c_distance_vec,
    "distanceDir": c_distance_dir,
    "distanceInv": c_distance_inv,
    "distancePairs": c_distance_pairs,
    "cartesian": c_cartesian,
    "angle": c_angle,
    "dipoleAngle": c_dipole_angle,
    "dihedral": c_dihedral,
    "polarTheta": c_polar_theta,
    "polarPhi": c_polar_phi,
    "dipoleMagnitude": c_dipole_magnitude,
    "coordNum": c_coordnum,
    "selfCoordNum": c_selfcoordnum,
    "groupCoord": c_groupcoord,
    "hBond": c_hbond,
    "rmsd": c_rmsd,
    "gyration": lambda b, c: c_gyration(b, c, "gyration"),
    "inertia": lambda b, c: c_gyration(b, c, "inertia"),
    "inertiaZ": lambda b, c: c_gyration(b, c, "inertiaZ"),
    "eigenvector": c_eigenvector,
    "orientation": c_orientation,
    "orientationAngle": c_orientation_angle,
    "orientationProj": c_orientation_proj,
    "tilt": c_tilt,
    "spinAngle": c_spin_angle,
    "eulerPhi": lambda b, c: [_euler(b, c)[0]],
    "eulerTheta": lambda b, c: [_euler(b, c)[1]],
    "eulerPsi": lambda b, c: [_euler(b, c)[2]],
}
_LOWER = {k.lower(): k for k in COMPONENTS}

PERIODIC = {"dihedral": 360.0, "polarPhi": 360.0, "spinAngle": 360.0, "eulerPhi": 360.0, "eulerPsi": 360.0}


class Result:
    def __init__(self, value, flags, unmodelled, min_gap, parts):
        self.value = value      # list of floats
        self.flags = flags      # non-empty: ill-conditioned geometry, no comparison is conclusive
        self.unmodelled = unmodelled  # non-empty: no documented function (L2 not applicable)
        self.min_gap = min_gap
        self.parts = parts      # per-component values


class ColvarModel:
    """xi = sum_i c_i [q_i]^{n_i}  (manual, 'Linear and polynomial combinations of components')"""

    def __init__(self, tree):
        """tree: the content of one `colvar { ... }` block"""
        self.name = tget(tree, "name")
        self.comps = []
        for k, v in tree:
            if isinstance(v, list) and k.lower() in _LOWER:
                self.comps.append((_LOWER[k.lower()], v))
        if not self.comps:
            raise ValueError("no modelled component in colvar " + str(self.name))

    def component_types(self):
        return [c for c, _ in self.comps]

    def evaluate(self, X, masses, charges, cell=None, names=None, files=None):
        ctx = Ctx(X, masses, charges, cell, names, files)
        total = None
        parts = []
        for ctype, blk in self.comps:
            v = np.array(COMPONENTS[ctype](blk, ctx), float)
            parts.append(list(v))
            coeff = float(tget(blk, "componentCoeff", 1.0))
            exp = int(tget(blk, "componentExp", 1))
            if len(v) == 1:
                term = coeff * v ** exp
            else:
                if exp != 1:
                    ctx.nomodel("componentExp on a non-scalar component")
                term = coeff * v
            total = term if total is None else total + term
        return Result([float(x) for x in total], ctx.flags, ctx.unmodelled, ctx.min_gap, parts), ctx


def model_of_config(text):
    """[ColvarModel] for every colvar block of a configuration text"""
    tree = parse_config(text)
    return [ColvarModel(v) for k, v in tree if k.lower() == "colvar" and isinstance(v, list)]


def rms_deviation(R, X, ref):
    """sqrt(1/N sum |R (x_i - x_cog) - (ref_i - ref_cog)|^2)  (manual eq. for rmsd)"""
    X = np.asarray(X, float)
    ref = np.asarray(ref, float)
    a = (X - X.mean(axis=0)) @ np.asarray(R).T
    b = ref - ref.mean(axis=0)
    return math.sqrt(float(((a - b) ** 2).sum()) / len(X))
