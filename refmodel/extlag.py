"""Reference model of the extended-Lagrangian ("fictitious particle") dynamics of a scalar variable.

Written from the reference manual (section "Extended Lagrangian") and from the integrator the source
cites for it: the "BAOA" / GROMACS-SD scheme of Kieninger & Keller, J. Chem. Theory Comput. 2022,
doi 10.1021/acs.jctc.2c00585, eqs. (10a)-(10d).

Documented parameters (manual):
    k     = k_B T / sigma^2                  sigma = extendedFluctuation           [E]/U^2
    m     = k_B T (tau / (2 pi sigma))^2     tau   = extendedTimeConstant (fs)     [E] fs^2/U^2
    T     = extendedTemp (default: thermostat temperature)
    gamma = extendedLangevinDamping in ps^-1; time step in fs  ->  gamma_fs = gamma * 1e-3
    a variable with timeStepFactor n is updated every n-th step with the slow step h = n * dt;
    bias forces accumulated over the interval are applied as an impulse (n * F handed over, F felt
    by the fictitious particle over the slow step)
    reflecting boundaries: "upon collision, the particle is reflected with opposite momentum"
    biases act on the fictitious particle, biases that bypass it act on the atoms; the atoms feel the
    coupling spring only.

One step of the scheme, starting from x_t, the force f_t and the half-step velocity v_(t-1/2)
(the state the scheme carries is (x_t, v_(t-1/2)): velocities live on half steps):

    f_t      = k * mi(xa_t - x_t) + F_bias,t              mi = shortest image for a periodic variable
    B        v'  = v_(t-1/2) + h f_t / m                  (10a)   done as two half kicks; after the first
                                                                  one the velocity is v_t, the on-step
                                                                  velocity the kinetic energy refers to
    A        x'  = x_t + h v' / 2                         (10b)
    O        v'' = exp(-gamma h) v' + sqrt(k_B T (1 - exp(-2 gamma h)) / m) * N(0,1)      (10c)
    A        x_(t+1) = x' + h v'' / 2                     (10d)
             v_(t+1/2) = v''
    energies of step t:   Ep = k/2 * mi(xa_t - x_t)^2,   Ek = m/2 * v_t^2
    reflection: an arrival position beyond a reflecting boundary b is mirrored (x -> 2b - x) and the
    momentum reversed.  The manual does not say *which* discrete velocity is reversed; the source
    comments state "bounce happened on average at t+1/2" and reverse the mean of the two half-step
    velocities adjacent to t, -(v_(t-1/2) + v_(t+1/2))/2 ("mean" below).  "last" reverses the velocity
    the particle arrived with, -v_(t+1/2).  The monitor reports which convention the code follows.
    periodic variable: x_(t+1) is wrapped into the period centred on wrapAround.

Everything is plain binary64 arithmetic, written in the order the formulas above are stated.
"""
import math

KB_REAL = 0.001987191   # kcal/mol/K, "real" units


class Params(object):
    def __init__(self, sigma, tau, temp, gamma_ps, dt, tsf=1, lower=None, upper=None,
                 refl_lower=False, refl_upper=False, period=0.0, wrap_center=0.0, kb=KB_REAL,
                 bounce="mean"):
        self.sigma, self.tau, self.temp, self.gamma_ps = sigma, tau, temp, gamma_ps
        self.dt, self.tsf = dt, int(tsf)
        self.kT = kb * temp
        self.k = self.kT / (sigma * sigma)
        self.m = self.kT * (tau / (2.0 * math.pi * sigma)) ** 2
        self.gamma = gamma_ps * 1.0e-3             # fs^-1
        self.h = dt * float(self.tsf)              # slow time step
        self.damp = math.exp(-self.gamma * self.h)
        self.noise = math.sqrt(self.kT * (1.0 - math.exp(-2.0 * self.gamma * self.h)) / self.m) if self.gamma > 0.0 else 0.0
        self.lower, self.upper = lower, upper
        self.refl_lower, self.refl_upper = bool(refl_lower), bool(refl_upper)
        self.period, self.wrap_center = period, wrap_center
        self.bounce = bounce

    def mi(self, d):
        """shortest image of a difference"""
        if self.period > 0.0:
            d -= self.period * math.floor(d / self.period + 0.5)
        return d

    def wrap(self, x):
        if self.period > 0.0:
            x -= self.period * math.floor((x - self.wrap_center) / self.period + 0.5)
        return x


class ExtLag(object):
    """state: x (position at the current step), v (velocity half a slow step earlier)"""

    def __init__(self, p):
        self.p = p
        self.x = None
        self.v = 0.0
        self.margin = float("inf")    # smallest distance of an arrival position to a reflecting wall

    def start(self, xa):
        """a fresh run: the particle starts on the variable's value, at rest; never outside a reflecting wall"""
        p = self.p
        x = xa
        if p.refl_lower and x < p.lower:
            x = p.lower
        if p.refl_upper and x > p.upper:
            x = p.upper
        self.x, self.v = x, 0.0

    def set_state(self, x, v):
        self.x, self.v = x, v

    def step(self, xa, fbias=0.0, gauss=0.0, commit=True):
        """one slow step from (x_t, v_(t-1/2)) with the variable at xa and the summed bias force fbias
        on the particle.  Returns the quantities of step t and the new state; commit=False leaves the
        state untouched (a step that the engine repeats is integrated again from the same state)."""
        p = self.p
        x0, v0 = self.x, self.v
        d = p.mi(xa - x0)
        fs = p.k * d                        # spring force on the particle; the variable feels -fs
        f = fs + fbias
        ep = 0.5 * p.k * d * d
        vt = v0 + 0.5 * p.h * f / p.m       # on-step velocity v_t
        ek = 0.5 * p.m * vt * vt
        v1 = vt + 0.5 * p.h * f / p.m       # (10a) complete
        x1 = x0 + p.h * v1 / 2.0            # (10b)
        if p.gamma > 0.0:
            v2 = p.damp * v1 + p.noise * gauss          # (10c)
        else:
            v2 = v1
        x2 = x1 + p.h * v2 / 2.0            # (10d)
        bounced = 0
        margin = float("inf")
        if p.refl_lower:
            margin = min(margin, abs(x2 - p.lower))
        if p.refl_upper:
            margin = min(margin, abs(x2 - p.upper))
        b = None
        if p.refl_lower and x2 < p.lower:
            b, bounced = p.lower, -1
        elif p.refl_upper and x2 > p.upper:
            b, bounced = p.upper, +1
        if b is not None:
            x2 = x2 - 2.0 * (x2 - b)
            v2 = -0.5 * (v0 + v2) if p.bounce == "mean" else -v2
        still_out = bool((p.refl_lower and x2 < p.lower) or (p.refl_upper and x2 > p.upper))
        x2w = p.wrap(x2)
        out = dict(x=x0, v=v0, f_spring=fs, f_total=f, f_bias=fbias, Ep=ep, Ek=ek, v_on=vt,
                   f_var=-fs * float(p.tsf),     # spring force on the variable, impulse over the inner steps
                   x_new=x2w, v_new=v2, bounced=bounced, wrapped=(x2w != x2), margin=margin, still_out=still_out)
        if commit:
            self.x, self.v = x2w, v2
            self.margin = min(self.margin, margin)
        return out
