"""Textbook definitions of the derived quantities Colvars writes for one variable (property C19).

Written from the reference manual (section "Statistical analysis"), not from the C++:

 * running average / standard deviation (runAve, runAveLength L, runAveStride s):
   "Length (in number of points) of the running average window", "Number of steps between two values
   within the running average window".  The window that ends at step t is therefore
       W(t) = { x(t), x(t-s), ..., x(t-(L-1)s) }
   mean(t) = (1/L) sum W(t);  the standard deviation is the root of the mean squared deviation of the
   window's members *from that mean*; both normalisations found in textbooks are returned
   (L-1: sample, L: population).

 * time correlation function (corrFunc, corrFuncType, corrFuncLength, corrFuncStride, corrFuncOffset,
   corrFuncNormalize, corrFuncWithColvar):
       C_ij(tau) = < PI( xi_i(t0), xi_j(t0+tau) ) >_t0
   PI = product (scalars), scalar product (vectors); coordinate_p2: P2 of the cosine of the angle between
   the two vectors.  "velocity": the same with the velocities.  Normalised: C(tau)/C(0), with
   C(0) = < PI(xi_i(t0), xi_j(t0)) >.  The average runs over a set of time origins
   given by the caller (the file states how many samples it used; see monitors/c19.py for how the set is
   chosen without demanding more than the manual says).

All sequences are numpy arrays of shape (T, dim); index = position in the sequence of distinct steps.
"""
import math

import numpy as np


def window(t, L, stride):
    """indices of the members of the window that ends at t (most recent first)"""
    return [t - k * stride for k in range(L)]


def running_stats(x, t, L, stride):
    """(mean vector, sample std (L-1), population std (L)) of the window ending at index t; None if the
    window reaches before the first element"""
    idx = window(t, L, stride)
    if idx[-1] < 0 or t >= len(x):
        return None
    w = np.asarray([x[i] for i in idx], dtype=float)
    m = w.mean(axis=0)
    d2 = float(((w - m) ** 2).sum())
    s_sample = math.sqrt(d2 / (L - 1)) if L > 1 else float("nan")
    s_pop = math.sqrt(d2 / L)
    return m, s_sample, s_pop


def pair(kind, a, b):
    """PI(a, b) for one pair of values"""
    a = np.asarray(a, dtype=float)
    b = np.asarray(b, dtype=float)
    if kind in ("coordinate", "velocity"):
        return float(np.dot(a, b))
    if kind == "coordinate_p2":
        na = math.sqrt(float(np.dot(a, a)))
        nb = math.sqrt(float(np.dot(b, b)))
        if na == 0.0 or nb == 0.0:
            return float("nan")
        c = float(np.dot(a, b)) / (na * nb)
        return 1.5 * c * c - 0.5
    raise ValueError(kind)


def corr_value(kind, xi, xj, lag, frames):
    """< PI(xi(t-lag), xj(t)) > over t in frames (t = the later time of each pair)"""
    acc = 0.0
    n = 0
    for t in frames:
        if t - lag < 0 or t >= len(xj):
            return None
        acc += pair(kind, xi[t - lag], xj[t])
        n += 1
    if n == 0:
        return None
    return acc / n


def corr_function(kind, xi, xj, lags, frames, normalize):
    """list of C(lag) (or C(lag)/C(0)) for lag in lags; frames: later-time indices used as samples"""
    out = []
    c0 = 1.0
    if normalize:
        c0 = corr_value(kind, xi, xj, 0, frames)   # (= 1 for a coordinate_p2 autocorrelation function)
    for lag in lags:
        v = corr_value(kind, xi, xj, lag, frames)
        if v is None or c0 is None:
            out.append(None)
        else:
            out.append(v / c0 if normalize else v)
    return out


def frame_sets(n_data, first_valid, max_lag, t_last):
    """candidate sets of time origins: every later-time index t <= t_last whose full set of lags lies
    inside the recorded sequence.  The manual does not say whether the very first recorded sample may be
    the earlier member of a pair, so two sets are offered: earliest member >= first_valid and
    >= first_valid + 1."""
    sets = []
    for lo in (first_valid, first_valid + 1):
        fr = [t for t in range(0, min(t_last, n_data - 1) + 1) if t - max_lag >= lo]
        sets.append(fr)
    return sets
