#!/bin/sh
# run the quick tier of every registered check, one line per check
cd "$(dirname "$0")/.." || exit 2
for id in $(python3 -c "import json; print(' '.join(c['property_id'] for c in json.load(open('MANIFEST.json'))['checks']))") "$@"; do
  t0=$(date +%s)
  out=$(timeout 3000 ./vcheck $id --tier quick 2>&1); rc=$?
  echo "$id rc=$rc $(( $(date +%s) - t0 ))s :: $(echo "$out" | tail -1 | cut -c1-200)"
  echo "$out" | grep "^VIOLATION\|key=" | head -6 | cut -c1-300
done
