#!/bin/bash
# usage: tools/seedsweep.sh <first seed> <last seed> <check>...   - quick tier, prints only the runs that are not silent
a=$1; b=$2; shift 2
cd "$(dirname "$0")/.."
for c in "$@"; do
  n=0
  for s in $(seq $a $b); do
    out=$(VERIF_SEED=$s VERIF_SCRATCH_TAG=sw$c timeout 3000 ./vcheck $c --tier quick 2>&1); rc=$?
    n=$((n+1))
    if [ $rc -ne 0 ]; then echo "$c seed=$s rc=$rc"; echo "$out" | grep -v '^KNOWN' | tail -4 | cut -c1-500; fi
  done
  echo "$c: $n seeds swept"
done
