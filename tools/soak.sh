#!/bin/bash
# usage: tools/soak.sh <tier> <seed> <check>...   - side runs (own scratch tag: evidence/ untouched); one summary line per check
tier=$1; seed=$2; shift 2
cd "$(dirname "$0")/.."
for c in "$@"; do
  out=$(VERIF_SEED=$seed VERIF_SCRATCH_TAG=soak${seed} timeout 14400 ./vcheck $c --tier $tier 2>&1)
  rc=$?
  echo "rc=$rc $(echo "$out" | grep -v '^KNOWN' | tail -1 | cut -c1-300)"
  if [ $rc -ne 0 ]; then echo "$out" | grep -A1 "^VIOLATION\|HARNESS\|INCONCLUSIVE" | head -12 | cut -c1-600; fi
done
