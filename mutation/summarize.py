#!/usr/bin/env python3
"""Writes mutation/RESULTS.md from seeded/<id>/{meta.json,result.json} (the seeded changes produced by independent
sub-agents and evaluated by eval_seed.py)."""
import json
import os

VERIF = os.path.dirname(os.path.dirname(os.path.abspath(__file__)))


def main():
    rows = []
    sd = os.path.join(VERIF, "seeded")
    for pid in sorted(os.listdir(sd)):
        d = os.path.join(sd, pid)
        try:
            meta = json.load(open(os.path.join(d, "meta.json")))
            res = json.load(open(os.path.join(d, "result.json")))
        except Exception as e:
            rows.append((pid, "(incomplete: %s)" % e, "", "", ""))
            continue
        hist = [h for h in res.get("history", []) if h]
        first = hist[0] if hist else res.get("ran")
        last = res.get("ran")

        def v(r):
            return ", ".join("%s %s" % (x["check"], x["verdict"]) for x in (r or [])) or "-"
        key = ""
        for x in last or []:
            if x.get("first_keys"):
                key = x["first_keys"][0].split(" ")[0].replace("key=", "")
                break
        summ = meta.get("summary", "").strip().replace("\n", " ")
        if len(summ) > 420:
            summ = summ[:417] + "..."
        needs = meta.get("needs", "").strip().replace("\n", " ")
        if len(needs) > 260:
            needs = needs[:257] + "..."
        rows.append((pid, summ, needs, "confirmed" if res.get("confirmed") else "NOT confirmed",
                     (v(first) + " -> " + v(last)) if hist and v(first) != v(last) else v(last), key))
    out = ["# Seeded changes (independent sub-agents) and what the checks made of them", "",
           "Each change compiles, passes the 92 pinned tests, fails its own demonstration and needs something specific to",
           "manifest (confirmed by `mutation/eval_seed.py` in the agent's scratch worktree). Checks were run (quick tier) against",
           "a scratch copy of `/repo/src` with the patch applied; `missed -> fired` means the check was strengthened after the",
           "first evaluation (see DESIGN.md 6.5).", "",
           "| property | change | needs | confirmation | quick check | first violation key |", "|---|---|---|---|---|---|"]
    for r in rows:
        out.append("| " + " | ".join(str(x).replace("|", "/") for x in r) + " |")
    open(os.path.join(VERIF, "mutation", "RESULTS.md"), "w").write("\n".join(out) + "\n")
    print("\n".join(out[-len(rows):]))


if __name__ == "__main__":
    main()
