#!/usr/bin/env python3
"""Apply one textual mutant to a scratch copy of /repo/src and run checks against it.

usage: run_mutant.py <id> <file> <old text> <new text> <Cxx>[,Cyy...] [--tier quick]
Prints 'MUTANT <id> <check>: FIRED|MISSED|INCONCLUSIVE (exit code, seconds)'.
The scratch copy lives in /tmp/verif_mut_<id> and is removed afterwards, with its build cache.
"""
import glob
import os
import shutil
import subprocess
import sys
import time

VERIF = os.path.dirname(os.path.dirname(os.path.abspath(__file__)))


def main():
    mid, fname, old, new, checks = sys.argv[1:6]
    tier = sys.argv[7] if len(sys.argv) > 7 else "quick"
    root = "/tmp/verif_mut_%s" % mid
    shutil.rmtree(root, ignore_errors=True)
    shutil.copytree("/repo/src", os.path.join(root, "src"))
    p = os.path.join(root, "src", fname)
    s = open(p).read()
    if s.count(old) < 1:
        print("MUTANT %s: pattern not found in %s" % (mid, fname))
        shutil.rmtree(root, ignore_errors=True)
        return 2
    s = s.replace(old, new, 1)
    open(p, "w").write(s)
    rc_all = 0
    for chk in checks.split(","):
        env = dict(os.environ, VERIF_REPO=root, VERIF_SCRATCH_TAG="mut" + mid)
        t0 = time.time()
        r = subprocess.run([os.path.join(VERIF, "vcheck"), chk, "--tier", tier], env=env, stdout=subprocess.PIPE,
                           stderr=subprocess.STDOUT, text=True, timeout=3600)
        out = r.stdout
        viol = [l for l in out.splitlines() if l.startswith("VIOLATION")]
        keys = [l.strip() for l in out.splitlines() if l.strip().startswith("key=")]
        verdict = "FIRED" if (r.returncode == 1 and viol) else ("MISSED" if r.returncode == 0 else "INCONCLUSIVE")
        print("MUTANT %s %s: %s (exit %d, %.0fs) %s" % (mid, chk, verdict, r.returncode, time.time() - t0, keys[0][:160] if keys else ""))
        if verdict == "INCONCLUSIVE":
            print(out[-1500:])
    shutil.rmtree(root, ignore_errors=True)
    import hashlib
    tag = hashlib.sha256(root.encode()).hexdigest()[:8]
    for d in glob.glob(os.path.join(VERIF, ".cache", "*@%s-*" % tag)) + glob.glob(os.path.join(VERIF, ".cache", "*@%s.lock" % tag)):
        if os.path.isdir(d):
            shutil.rmtree(d, ignore_errors=True)
        else:
            os.unlink(d)
    for d in glob.glob(os.path.join(VERIF, "replays", "*_mut" + mid)) + glob.glob(os.path.join(VERIF, "work", "*_mut" + mid)) + \
            glob.glob(os.path.join(VERIF, "work", "evidence_mut" + mid)):
        shutil.rmtree(d, ignore_errors=True)
    return rc_all


if __name__ == "__main__":
    sys.exit(main())
