#!/usr/bin/env python3
"""Confirm a seeded change produced by an independent sub-agent and run our checks against it.

usage: eval_seed.py <property id> <worktree> <check>[,<check>...] [--skip-confirm] [--thorough] [--label <dir name under seeded/>]

1. confirmation in the agent's own scratch worktree: apply _seed/patch.diff, rebuild, run the repository's
   ctest suite (must pass except customfunction_*), run _seed/run.sh (must FAIL), revert, rebuild, run
   _seed/run.sh (must PASS);
2. copies patch.diff, the demonstration and meta.json to /verif/seeded/<id>/;
3. runs the given checks (quick tier) against a scratch copy of /repo/src with the patch applied
   (VERIF_REPO; /repo itself is left alone because other work builds from it concurrently) and records
   fired / missed in /verif/seeded/<id>/result.json.
"""
import glob
import hashlib
import json
import os
import shutil
import subprocess
import sys
import time

VERIF = os.path.dirname(os.path.dirname(os.path.abspath(__file__)))


def sh(cmd, cwd=None, timeout=3600, env=None):
    r = subprocess.run(cmd, shell=True, cwd=cwd, stdout=subprocess.PIPE, stderr=subprocess.STDOUT, text=True, timeout=timeout, env=env)
    return r.returncode, r.stdout


def main():
    pid, wt, checks = sys.argv[1:4]
    skip = "--skip-confirm" in sys.argv
    tier = "thorough" if "--thorough" in sys.argv else "quick"
    seed = os.path.join(wt, "_seed")
    label = sys.argv[sys.argv.index("--label") + 1] if "--label" in sys.argv else pid
    out = os.path.join(VERIF, "seeded", label)
    os.makedirs(out, exist_ok=True)
    res = {"property": pid, "ran": [], "confirmed": None}
    bd = "_build_seed" if os.path.exists(os.path.join(wt, "_build_seed", "build.ninja")) else "_build"
    if not skip:
        steps = []
        rc, o = sh("git apply _seed/patch.diff && cmake --build %s -j8 2>&1 | tail -2" % bd, cwd=wt)
        steps.append(("apply+build", rc))
        rc, o = sh("ctest --test-dir %s -j8 --timeout 900 2>&1 | tail -15" % bd, cwd=wt)
        ok_suite = ("tests failed out of 93" in o and "1 tests failed" in o and "customfunction" in o) or "100% tests passed" in o
        steps.append(("ctest with patch", ok_suite, o.strip().splitlines()[-4:]))
        rc_fail, o1 = sh("bash _seed/run.sh 2>&1 | tail -5", cwd=wt, timeout=1800)
        rc_fail2, _ = sh("bash _seed/run.sh >/dev/null 2>&1", cwd=wt, timeout=1800)
        steps.append(("demo with patch (must fail)", rc_fail2 != 0, o1[-400:]))
        sh("git apply -R _seed/patch.diff && cmake --build %s -j8 2>&1 | tail -2" % bd, cwd=wt)
        rc_pass, o2 = sh("bash _seed/run.sh >/dev/null 2>&1; echo rc=$?", cwd=wt, timeout=1800)
        steps.append(("demo without patch (must pass)", "rc=0" in o2))
        res["confirmed"] = bool(ok_suite and rc_fail2 != 0 and "rc=0" in o2)
        res["confirmation_steps"] = steps
        print("confirmation:", res["confirmed"], steps)
    for f in (os.listdir(seed) if os.path.isdir(seed) else []):      # the worktree may be gone on a re-evaluation
        p = os.path.join(seed, f)
        if os.path.isfile(p) and os.path.getsize(p) < 2_000_000:
            shutil.copy(p, out)
    # run our checks against /repo/src + patch
    root = "/tmp/verif_seed_%s" % label
    shutil.rmtree(root, ignore_errors=True)
    shutil.copytree("/repo/src", os.path.join(root, "src"))
    # patch_current.diff: the same change re-expressed on the current /repo when a later fix touched the same lines
    pf = os.path.join(out, "patch_current.diff")
    if not os.path.exists(pf):
        pf = os.path.join(out, "patch.diff")
    res["patch_used"] = os.path.basename(pf)
    rc, o = sh("patch -p1 --no-backup-if-mismatch < %s" % pf, cwd=root)
    res["applies_to_current_repo"] = (rc == 0)
    if rc != 0:
        print("patch does not apply to current /repo/src:\n" + o[-800:])
    else:
        for chk in checks.split(","):
            env = dict(os.environ, VERIF_REPO=root, VERIF_SCRATCH_TAG="seed" + label)
            t0 = time.time()
            rc, o = sh("%s %s --tier %s" % (os.path.join(VERIF, "vcheck"), chk, tier), env=env, timeout=7200)
            keys = [l.strip()[:300] for l in o.splitlines() if l.strip().startswith("key=")]
            verdict = "fired" if rc == 1 and keys else ("missed" if rc == 0 else "inconclusive")
            res["ran"].append({"check": chk, "tier": tier, "verdict": verdict, "exit": rc, "seconds": round(time.time() - t0),
                               "first_keys": keys[:4], "tail": o.strip().splitlines()[-1:]})
            print("SEED %s vs %s: %s (exit %d) %s" % (label, chk, verdict, rc, keys[:2]))
    shutil.rmtree(root, ignore_errors=True)
    tag = hashlib.sha256(root.encode()).hexdigest()[:8]
    for d in glob.glob(os.path.join(VERIF, ".cache", "*@%s*" % tag)):
        shutil.rmtree(d, ignore_errors=True) if os.path.isdir(d) else os.unlink(d)
    for d in glob.glob(os.path.join(VERIF, "replays", "*_seed" + label)) + glob.glob(os.path.join(VERIF, "work", "*_seed" + label)) + \
            glob.glob(os.path.join(VERIF, "work", "evidence_seed" + label)):
        shutil.rmtree(d, ignore_errors=True)
    prev = {}
    rp = os.path.join(out, "result.json")
    if os.path.exists(rp):
        prev = json.load(open(rp))
        if res["confirmed"] is None:
            res["confirmed"] = prev.get("confirmed")
            res["confirmation_steps"] = prev.get("confirmation_steps")
        res["history"] = prev.get("history", []) + [prev.get("ran")]
    json.dump(res, open(rp, "w"), indent=1, default=str)


if __name__ == "__main__":
    main()
