"""Hand-written mutants for the composite-component templates of C01 (DESIGN 6.6) and for monitors/c02_paths.py.

usage: c01cov_mutants.py [mutant id ...]        (MUT_CHECK=C02 for the three c02_* mutants; default check C01)
Each mutant is applied to a scratch copy of MUT_BASE (default /repo/src; the campaign recorded in DESIGN 6.6 used a copy
with work_patches/c01cov_1..4 applied, because the unpatched tree already fires on four of the families), the check is
run with VERIF_REPO pointing at the copy, and the copy, its build cache, replays and evidence are removed afterwards."""
import glob
import hashlib
import os
import shutil
import subprocess
import sys
import time

BASE = os.environ.get("MUT_BASE", "/repo/src")
CHECK = os.environ.get("MUT_CHECK", "C01")
VERIF = os.path.dirname(os.path.dirname(os.path.abspath(__file__)))

MUTANTS = [
    ("alpha_theta", "colvarcomp_protein.cpp",
     "      (theta[i])->apply_force(theta_norm *\n                               dfdt * (1.0/theta_tol) *",
     "      (theta[i])->apply_force(theta_norm *\n                               dfdt * (-1.0/theta_tol) *", "alpha"),
    ("dihedpc_sin", "colvarcomp_protein.cpp",
     "    theta[i]->apply_force((coeffs[2*i  ] * dcosdt +\n                           coeffs[2*i+1] * dsindt) * force);",
     "    theta[i]->apply_force((coeffs[2*i  ] * dcosdt -\n                           coeffs[2*i+1] * dsindt) * force);", "dihedralPC"),
    ("gspath_v2sign", "colvarcomp_gpath.cpp",
     "        tmp_atom_grad_v2[0] = sign * 0.5 * dfdv2[i_atom][0] / M;",
     "        tmp_atom_grad_v2[0] = -sign * 0.5 * dfdv2[i_atom][0] / M;", "gspath"),
    ("gzpath_v1sign", "colvarcomp_gpath.cpp",
     "        tmp_atom_grad_v1 = -1.0 * dzdv1[i_atom];",
     "        tmp_atom_grad_v1 = 1.0 * dzdv1[i_atom];", "gzpath"),
    ("geometric_dfdv2", "colvar_geometricpath.h",
     "        dfdv2[i_elem] = factor1 * (2.0 * v3v3 * v2[i_elem]);",
     "        dfdv2[i_elem] = factor1 * (v3v3 * v2[i_elem]);", "gspath,gzpath,gspathCV,gzpathCV"),
    ("arithmetic_dsdx", "colvar_arithmeticpath.h",
     "                    -2.0 * squared_weights[j_elem] * lambda *",
     "                    2.0 * squared_weights[j_elem] * lambda *", "aspath,aspathCV"),
    ("arithmetic_dzdx", "colvar_arithmeticpath.h",
     "                    2.0 * squared_weights[j_elem] * softmax_out[i_frame] *",
     "                    1.0 * squared_weights[j_elem] * softmax_out[i_frame] *", "azpath,azpathCV"),
    ("gspathcv_v1sign", "colvarcomp_gpath.cpp",
     "                tmp_cv_grad_v1[j_elem] = -1.0 * sign * 0.5 * dfdv1[i_cv][j_elem] / M;\n                tmp_cv_grad_v2[j_elem] = sign * 0.5 * dfdv2[i_cv][j_elem] / M;\n                // Apply",
     "                tmp_cv_grad_v1[j_elem] = 1.0 * sign * 0.5 * dfdv1[i_cv][j_elem] / M;\n                tmp_cv_grad_v2[j_elem] = sign * 0.5 * dfdv2[i_cv][j_elem] / M;\n                // Apply", "gspathCV"),
    ("gzpathcv_implicit", "colvarcomp_gpath.cpp",
     "            colvarvalue tmp_cv_grad_v1 = -1.0 * dzdv1[i_cv];\n            colvarvalue tmp_cv_grad_v2 =  1.0 * dzdv2[i_cv];\n            // Temporary variables storing gradients",
     "            colvarvalue tmp_cv_grad_v1 = -1.0 * dzdv1[i_cv];\n            colvarvalue tmp_cv_grad_v2 =  0.0 * dzdv2[i_cv];\n            // Temporary variables storing gradients", "gzpathCV (vector sub-components)"),
    ("aspathcv_poly", "colvarcomp_apath.cpp",
     "                        (*(cv[i_cv]->atom_groups)[k_ag])[l_atom].grad = grad[j_elem] * factor_polynomial * (*(cv[i_cv]->atom_groups)[k_ag])[l_atom].grad;",
     "                        (*(cv[i_cv]->atom_groups)[k_ag])[l_atom].grad = grad[j_elem] * (*(cv[i_cv]->atom_groups)[k_ag])[l_atom].grad;", "aspathCV,azpathCV with coefficients"),
    ("lincomb_exp", "colvarcomp_combination.cpp",
     "        factor_polynomial = cv[i_cv]->sup_coeff * cv[i_cv]->sup_np * cvm::pow(cv[i_cv]->value().real_value, cv[i_cv]->sup_np - 1);",
     "        factor_polynomial = cv[i_cv]->sup_coeff * cvm::pow(cv[i_cv]->value().real_value, cv[i_cv]->sup_np - 1);", "linearCombination,neuralNetwork with exponents"),
    ("lincomb_vector", "colvarcomp_combination.cpp",
     "            colvarvalue cv_force = factor_polynomial * force;",
     "            colvarvalue cv_force = force;", "linearCombination vector"),
    ("nn_tanh", "colvar_neuralnetworkcompute.cpp",
     "[](double x){return 1.0 - std::tanh(x) * std::tanh(x);}",
     "[](double x){return 1.0 - std::tanh(x);}", "neuralNetwork"),
    ("nn_chain", "colvar_neuralnetworkcompute.cpp",
     "            m_chained_grad = multiply_matrix(m_grads_tmp[i_layer], m_chained_grad);",
     "            ;", "neuralNetwork 3 layers"),
    ("c02_as_index", "colvar_arithmeticpath.h",
     "        log_sum_exp_1 += i_frame * exponents[i_frame];",
     "        log_sum_exp_1 += (i_frame + 1) * exponents[i_frame];", "C02 aspath value"),
    ("c02_gz_dx", "colvar_geometricpath.h",
     "        dx = 0.5 * (f - 1);",
     "        dx = 0.5 * f;", "C02 gzpath value"),
    ("c02_norotate", "colvarcomp_gpath.cpp",
     "            tmp_atoms->enable(f_ag_center);\n            tmp_atoms->enable(f_ag_rotate);\n            tmp_atoms->ref_pos = reference_frames[i_frame];",
     "            tmp_atoms->enable(f_ag_center);\n            tmp_atoms->ref_pos = reference_frames[i_frame];", "C02 path rigid motion"),
    ("distance_sign", "colvarcomp_distances.cpp",
     "  group1->set_weighted_gradient(-1.0 * u);",
     "  group1->set_weighted_gradient(1.0 * u);", "distance (regression of the oracle)"),
    ("dz_period_ref2", "colvarcomp_distances.cpp",
     "        -1.0 * dist_v - 0.5 * axis_norm * axis + proj * axis ));",
     "        -1.0 * dist_v - 0.5 * axis_norm * axis + x.real_value * axis ));", "distanceZ periodic_ref2 (revert of part of 0e789487)"),
]


def clean(root, tag):
    shutil.rmtree(root, ignore_errors=True)
    h = hashlib.sha256(root.encode()).hexdigest()[:8]
    for d in glob.glob(os.path.join(VERIF, ".cache", "*@%s-*" % h)) + glob.glob(os.path.join(VERIF, ".cache", "*@%s.lock" % h)):
        if os.path.isdir(d):
            shutil.rmtree(d, ignore_errors=True)
        else:
            os.unlink(d)
    for d in glob.glob(os.path.join(VERIF, "replays", "*_" + tag)) + glob.glob(os.path.join(VERIF, "work", "*_" + tag)) + \
            glob.glob(os.path.join(VERIF, "work", "evidence_" + tag)):
        shutil.rmtree(d, ignore_errors=True)


def main():
    only = sys.argv[1:]
    for mid, fname, old, new, what in MUTANTS:
        if only and mid not in only:
            continue
        if old is None:
            print("MUTANT %s: skipped (defined separately)" % mid)
            continue
        root = "/tmp/c01cov_mut_%s" % mid
        tag = "cm" + mid.replace("_", "")
        shutil.rmtree(root, ignore_errors=True)
        shutil.copytree(BASE, os.path.join(root, "src"))
        p = os.path.join(root, "src", fname)
        s = open(p).read()
        if s.count(old) < 1:
            print("MUTANT %s: pattern not found" % mid)
            shutil.rmtree(root)
            continue
        open(p, "w").write(s.replace(old, new, 1))
        env = dict(os.environ, VERIF_REPO=root, VERIF_SCRATCH_TAG=tag, VERIF_SEED="1")
        t0 = time.time()
        r = subprocess.run([os.path.join(VERIF, "vcheck"), CHECK, "--tier", "quick"], env=env, stdout=subprocess.PIPE,
                           stderr=subprocess.STDOUT, text=True, timeout=3000)
        keys = sorted(set(l.strip().split()[0] for l in r.stdout.splitlines() if l.strip().startswith("key=")))
        fams = sorted(set(":".join(k.split(":")[1:3]) for k in keys if len(k.split(":")) > 2))
        verdict = "FIRED" if r.returncode == 1 and keys else ("MISSED" if r.returncode == 0 else "INCONCLUSIVE")
        print("MUTANT %s (%s): %s exit %d %.0fs families=%s nkeys=%d" % (mid, what, verdict, r.returncode, time.time() - t0, fams, len(keys)))
        for k in keys[:4]:
            print("    " + k)
        if verdict == "INCONCLUSIVE":
            print(r.stdout[-1500:])
        sys.stdout.flush()
        clean(root, tag)


main()
