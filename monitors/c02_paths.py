"""C02 supplement: path variables in atomic Cartesian space (gspath, gzpath, aspath, azpath).

 L1  rigid motion: every reference frame is superimposed on the current coordinates (or on the `fittingAtoms`), so
     the value at R.G+t must equal the value at G.
 L2  independent definition (numpy, SVD superposition) from the manual:
       aspath / azpath   s = 1/(N-1) sum_i i w_i / sum_i w_i,  z = -1/lambda ln sum_i w_i,
                         w_i = exp(-lambda d_i^2), d_i = RMS deviation from frame i after optimal superposition,
                         lambda = given, or the inverse mean square deviation between successive frames;
       gspath / gzpath   s = m/M +- (f-1)/(2M), z = |v1 + (f-1)/2 v4| (or its square),
                         f = (sqrt((v1.v3)^2 - |v3|^2 (|v1|^2 - |v2|^2)) - v1.v3) / |v3|^2,
                         v1 = s_m - z, v2 = z - s_(m-1), v3 = s_(m+1) - s_m, v4 = s_m - s_(m-1) with the current
                         coordinates superimposed on the frame they are compared with and the frames on one another.
Templates: corpus.c_cartpath (shared with C01).
"""
import math
import os

import numpy as np

from vlib import common
from vlib import corpus

fl = common.fl

KINDS = ("gspath", "gzpath", "aspath", "azpath")


def superpose(X, Y):
    """rotation R and centres (cx, cy) minimising sum |R (x - cx) - (y - cy)|^2"""
    X = np.asarray(X, float)
    Y = np.asarray(Y, float)
    cx, cy = X.mean(axis=0), Y.mean(axis=0)
    A, B = X - cx, Y - cy
    U, S, Vt = np.linalg.svd(A.T @ B)
    d = np.sign(np.linalg.det(Vt.T @ U.T))
    R = Vt.T @ np.diag([1.0, 1.0, d]) @ U.T
    return R, cx, cy


class PathModel:
    def __init__(self, comp):
        self.g = [a - 1 for a in comp["group"]]
        self.fg = [a - 1 for a in comp["fitgroup"]] if comp["fitgroup"] else None
        self.frames = [np.array(P) for P in comp["frames"]]
        self.ref = [P[self.g] for P in self.frames]                       # frame coordinates of the path atoms
        self.fref = [P[self.fg] for P in self.frames] if self.fg else self.ref
        self.lam = comp["lam"]
        self.flags = comp["flags"]
        self.N = len(self.frames)

    def aligned(self, X, i):
        """current path atoms in the frame of reference i (superposition of the fitting atoms)"""
        X = np.asarray(X, float)
        F = X[self.fg] if self.fg else X[self.g]
        R, cx, cy = superpose(F, self.fref[i])
        return (R @ (X[self.g] - cx).T).T + cy

    def frame_rot(self, i, j):
        """rotation superimposing (centred) frame i on frame j, from the fitting atoms"""
        R, _, _ = superpose(self.fref[i], self.fref[j])
        return R

    def centred(self, i):
        return self.ref[i] - self.ref[i].mean(axis=0)

    def dists(self, X):
        return [math.sqrt(np.sum((self.aligned(X, i) - self.ref[i]) ** 2) / len(self.g)) for i in range(self.N)]

    def default_lambda(self):
        msd = []
        for i in range(self.N - 1):
            R, cx, cy = superpose(self.ref[i], self.ref[i + 1])
            d = (R @ (self.ref[i] - cx).T).T - (self.ref[i + 1] - cy)
            msd.append(np.sum(d * d) / len(self.g))
        return 1.0 / (sum(msd) / (self.N - 1))

    def arithmetic(self, X):
        lam = self.lam if self.lam is not None else self.default_lambda()
        d = self.dists(X)
        ex = [-lam * x * x for x in d]
        mx = max(ex)
        w = [math.exp(e - mx) for e in ex]
        s = sum(i * wi for i, wi in enumerate(w)) / sum(w) / (self.N - 1)
        z = -(mx + math.log(sum(w))) / lam
        return s, z, None

    def geometric(self, X):
        """returns (s, z, margin) where margin is the smallest gap between the frame distances that decide the ordering
        (a tie is a documented discontinuity)"""
        d = self.dists(X)
        order = sorted(range(self.N), key=lambda i: d[i])
        M = self.N - 1
        m = order[0]
        sign = order[0] - order[1]
        sign = 1 if sign > 1 else (-1 if sign < -1 else sign)
        m2 = order[1] if self.flags.get("second", True) else m - sign
        m3 = order[2] if self.flags.get("third", False) else m + sign
        sd = sorted(d)
        margin = min(sd[k + 1] - sd[k] for k in range(min(3, self.N) - 1))
        if m2 < 0 or m2 > M:
            return None, None, 0.0
        v1 = self.ref[m] - self.aligned(X, m)
        v2 = self.aligned(X, m2) - self.ref[m2]
        cm, cm2 = self.centred(m), self.centred(m2)
        v4 = (self.frame_rot(m, m2) @ cm.T).T - cm2
        if m3 < 0 or m3 > M:
            v3 = v4
        else:
            v3 = self.centred(m3) - (self.frame_rot(m, m3) @ cm.T).T
        v1v1, v2v2, v3v3, v1v3 = np.sum(v1 * v1), np.sum(v2 * v2), np.sum(v3 * v3), np.sum(v1 * v3)
        f = (math.sqrt(v1v3 * v1v3 - v3v3 * (v1v1 - v2v2)) - v1v3) / v3v3
        s = m / M + sign * (f - 1.0) / (2.0 * M)
        dx = 0.5 * (f - 1.0)
        zz = v1v1 + 2.0 * dx * np.sum(v1 * v4) + dx * dx * np.sum(v4 * v4)
        z = zz if self.flags.get("zsquare") else math.sqrt(abs(zz))
        return s, z, margin


def gen_case(rng, idx, kind):
    sysm = corpus.make_system(rng, natoms=26, cell=False)
    pool = list(range(1, 25))
    comp = corpus.c_cartpath(kind)(rng, sysm, pool, {})
    text = corpus.colvar_block("cv1", [(comp, None, None)], ())
    G0 = sysm["pos"]
    G1 = [[x + rng.uniform(-0.2, 0.2) for x in p] for p in G0]
    geoms = []
    for G in (G0, G1):
        geoms.append(G)
        geoms.append(corpus.rigid_motion(rng, G, tamp=3.0))
    scn = corpus.scenario_header(sysm) + "emit atoms off\nmodule\nconfig <<EOC\n" + text + "\nEOC\ninit\n"
    for G in geoms:
        scn += corpus.pos_line(G) + "\nstep\n"
    return dict(idx=idx, kind=kind, comp=comp, text=text, scn=scn, geoms=geoms, files=comp["files"])


def run_paths(c, tier):
    n = 6 if tier == "quick" else 60
    rng = c.rng.__class__(c.seed * 7919 + 11)
    cases = [gen_case(rng, i, kind) for kind in KINDS for i in range(n)]
    for i, case in enumerate(cases):
        case["idx"] = i

    def runner(case):
        wd = os.path.join(c.work, "paths%d" % case["idx"])
        os.makedirs(wd, exist_ok=True)
        for fn, content in case["files"].items():
            with open(os.path.join(wd, fn), "w") as fh:
                fh.write(content)
        return common.run_esim("plain", case["scn"], wd, "c02_paths", timeout=120)

    for case, (r, ev, sp) in zip(cases, common.pmap(runner, cases)):
        kind, var = case["kind"], case["comp"]["variant"]
        cfgev = [e for e in ev if e.get("ev") == "config"]
        steps = [e for e in ev if e.get("ev") == "step"]
        wd = os.path.dirname(sp)
        files = [sp] + [os.path.join(wd, fn) for fn in case["files"]]
        if not r["complete"] or (cfgev and cfgev[0].get("rc") != 0) or len(steps) != len(case["geoms"]):
            c.inconc("path case did not run (%s/%s): %s" % (kind, var, str(cfgev[0].get("errs"))[:200] if cfgev else r["err"][-200:]))
            continue
        vals = [fl(e["cv"]["cv1"]["x"][0]) for e in steps]
        model = PathModel(case["comp"])
        bad = False
        for k in (0, 2):
            # L2 at the base geometry / the perturbed geometry
            c.count()
            if kind in ("aspath", "azpath"):
                s, z, margin = model.arithmetic(case["geoms"][k])
            else:
                s, z, margin = model.geometric(case["geoms"][k])
            ref = s if kind in ("gspath", "aspath") else z
            if ref is None or (margin is not None and margin < 1e-6):
                c.inconc("path variable at a frame switch (%s/%s)" % (kind, var))
                continue
            scale = max(1.0, abs(ref))
            if abs(vals[k] - ref) > 1e-8 * scale:
                c.violation("path_definition:%s:%s" % (kind, var),
                            "value %.15g, independent definition %.15g (geometry %d)" % (vals[k], ref, k), files,
                            payload=case["text"])
                bad = True
            else:
                c.nontrivial("path|L2|%s|%s" % (kind, var))
                c.note_set("types_L2", kind)
            # L1 rigid motion (decided independently of L2)
            c.count()
            if abs(vals[k + 1] - vals[k]) > 1e-9 * scale:
                c.violation("path_rigid_motion:%s:%s" % (kind, var),
                            "value %.15g at G, %.15g at R.G+t" % (vals[k], vals[k + 1]), files, payload=case["text"])
                bad = True
            else:
                c.nontrivial("path|rigid|%s|%s" % (kind, var))
                c.note_set("types_L1", kind)
            c.bump("path_comparisons")
            if bad:
                break
        if not bad and c.extra.get("path_samples", 0) < 2:
            c.bump("path_samples")
            c.sample({"part": "Cartesian path variables", "component": kind, "variant": var, "value": vals[0]}, cap=10 ** 6)
