"""C16 - PMF integration solves the stated discrete problem; incremental equals batch.

The library side is driven by harness/h_poisson.cpp (grids built the way colvarbias_abf builds them;
divergence read through the guarded friend accessor).  Everything that decides is numpy code here:

  law "1d"    written / integrated 1-D surface == cumulative sum of bin means x width (mean removed
              for a periodic variable; the surface closes), for integrate_potential::integrate() and
              for colvar_grid_gradient::write_1D_integral() (the .ti.pmf writer)
  law "resid" 2-D/3-D: after integrate(itmax, tol) the true residual |L.A - div| / |div| is within the
              solver tolerance: with the library's operator (all periodicity patterns), and for fully
              periodic grids with an independent 5/7-point numpy Laplacian and a dense least-squares
              solve (small grids, up to an additive constant)
  law "conv"  gradients sampled at bin centres from smooth analytic surfaces at h, h/2, h/4: the error
              (constant removed) shrinks by a factor in [3.2, 4.8] per halving and is small at h/4
  law "incr"  divergence kept up to date by acc_force + update_div_neighbors (ABF's order of calls)
              == set_div() on the final gradients, to 1e-12 |div|_inf; also inside a real ABF run
              stepped by the engine simulator (law "incr", order class "abf_run")
"""
import json
import math
import os

# the dense reference solves are tiny; a threaded BLAS only hurts on a loaded machine
for _k in ("OMP_NUM_THREADS", "OPENBLAS_NUM_THREADS", "MKL_NUM_THREADS"):
    os.environ.setdefault(_k, "1")

import numpy as np

import common
from common import fnum, vbuild

PID = "C16"
LAWS = ("1d", "resid", "conv", "incr")


def pat(per):
    return "".join("P" if p else "N" for p in per)


# ---------------------------------------------------------------------------------------------
# case-file text
# ---------------------------------------------------------------------------------------------

def head_text(name, dims, smoothed=0, full=1, mins=0, use_counts=1, build=True):
    out = ["case %s" % name, "grid %d" % len(dims)]
    for lo, w, n, p in dims:
        out.append("%s %s %d %d" % (fnum(lo), fnum(w), n, int(p)))
    out.append("params %d %d %d %d" % (int(smoothed), int(full), int(mins), int(use_counts)))
    if build:
        out.append("build")
    return out


def load_text(dims, counts, sums):
    """counts: int array shape gnx; sums: float array shape gnx+(nd,)"""
    nd = len(dims)
    cnt = np.asarray(counts).reshape(-1)
    sm = np.asarray(sums, dtype=float).reshape(-1, nd)
    gnx = [d[2] for d in dims]
    idx = np.array(np.unravel_index(np.arange(cnt.size), gnx)).T
    sel = [k for k in range(cnt.size) if cnt[k] != 0 or np.any(sm[k] != 0.0)]
    lines = ["load %d" % len(sel)]
    for k in sel:
        lines.append(" ".join(str(int(i)) for i in idx[k]) + " %d " % int(cnt[k]) +
                     " ".join(fnum(v) for v in sm[k]))
    return lines


# ---------------------------------------------------------------------------------------------
# independent reference code
# ---------------------------------------------------------------------------------------------

def ramp_factor(c, full, mins):
    """ABF ramp (manual: no force below minSamples, linear up to fullSamples)"""
    c = np.asarray(c, dtype=float)
    out = np.ones_like(c)
    out[c <= mins] = 0.0
    mid = (c > mins) & (c < full)
    out[mid] = (c[mid] - mins) / float(full - mins)
    return out


def bin_values(counts, sums, use_counts, smoothed, full, mins):
    """bin-averaged gradient (0 in an empty bin), times the ramp if smoothed.  sums shape (..., nd)"""
    c = np.asarray(counts, dtype=float)
    s = np.asarray(sums, dtype=float)
    if use_counts:
        cc = c[..., None] if s.ndim > c.ndim else c
        with np.errstate(divide="ignore", invalid="ignore"):
            m = np.where(cc > 0, s / np.where(cc > 0, cc, 1.0), 0.0)
        if smoothed:
            r = ramp_factor(c, full, mins)
            m = m * (r[..., None] if s.ndim > c.ndim else r)
        return m
    return s


def cumsum_surface(val, w, corr, mask=None):
    inc = (val - corr) * w
    if mask is not None:
        inc = np.where(mask, inc, 0.0)
    return np.concatenate([[0.0], np.cumsum(inc)])


def np_laplacian_periodic(a, widths):
    out = np.zeros_like(a)
    for d, w in enumerate(widths):
        out += (np.roll(a, 1, axis=d) + np.roll(a, -1, axis=d) - 2.0 * a) / (w * w)
    return out


def np_divergence(g, widths, per):
    """independent evaluation of the documented divergence of a gradient field given per bin (shape n_0 x ... x nd): at the
    vertex idx, for each direction d, the difference between the bins above and below the vertex along d, averaged over the
    2^(nd-1) bins that share the vertex in the other directions, divided by the width; bins beyond a non-periodic edge count
    as zero, periodic directions wrap"""
    import itertools
    nd = g.ndim - 1
    n = g.shape[:nd]
    pn = [n[d] + (0 if per[d] else 1) for d in range(nd)]
    div = np.zeros(pn)

    def cellval(cell, d):
        c = list(cell)
        for k in range(nd):
            if per[k]:
                c[k] %= n[k]
            elif c[k] < 0 or c[k] >= n[k]:
                return 0.0
        return float(g[tuple(c) + (d,)])
    for idx in itertools.product(*[range(p_) for p_ in pn]):
        tot = 0.0
        for d in range(nd):
            others = [o for o in range(nd) if o != d]
            acc = 0.0
            for offs in itertools.product((-1, 0), repeat=len(others)):
                hi, lo = list(idx), list(idx)
                lo[d] = idx[d] - 1
                for o, of in zip(others, offs):
                    hi[o] = lo[o] = idx[o] + of
                acc += cellval(hi, d) - cellval(lo, d)
            tot += acc / (2 ** (nd - 1)) / widths[d]
        div[idx] = tot
    return div


def parse_multicol(text, nd):
    rows = []
    for line in text.splitlines():
        line = line.strip()
        if not line or line.startswith("#"):
            continue
        rows.append([float(x) for x in line.split()])
    a = np.array(rows, dtype=float)
    if a.size == 0:
        return np.zeros((0, nd)), np.zeros((0,))
    return a[:, :nd], a[:, nd]


# analytic surfaces -----------------------------------------------------------------------------

def f1d(desc, x, lo, length):
    """value and derivative of a 1-D factor"""
    kind = desc[0]
    if kind == "cos":       # periodic: cos(2 pi k (x-lo)/L + ph)
        k, ph = desc[1], desc[2]
        a = 2.0 * math.pi * k / length
        return np.cos(a * (x - lo) + ph), -a * np.sin(a * (x - lo) + ph)
    if kind == "pcs":       # periodic: 1 + q cos(...)
        k, ph, q = desc[1], desc[2], desc[3]
        a = 2.0 * math.pi * k / length
        return 1.0 + q * np.cos(a * (x - lo) + ph), -q * a * np.sin(a * (x - lo) + ph)
    if kind == "gauss":     # exp(-(x-c)^2/(2 s^2)), c and s in units of L
        cpos = lo + desc[1] * length
        s = desc[2] * length
        e = np.exp(-(x - cpos) ** 2 / (2.0 * s * s))
        return e, -(x - cpos) / (s * s) * e
    if kind == "poly":      # ((x-c)/L)^p
        cpos = lo + desc[1] * length
        p = desc[2]
        u = (x - cpos) / length
        return u ** p, p * u ** (p - 1) / length
    if kind == "sin":       # sin(a (x-lo)/L + b), not periodic over L
        a = desc[1] / length
        return np.sin(a * (x - lo) + desc[2]), a * np.cos(a * (x - lo) + desc[2])
    if kind == "one":
        return np.ones_like(x), np.zeros_like(x)
    raise ValueError(kind)


def surface_eval(surf, coords, los, lengths):
    """coords: list of 1-D arrays (one per dimension).  Returns A on the tensor grid and its gradient."""
    nd = len(coords)
    shape = tuple(len(c) for c in coords)
    A = np.zeros(shape)
    G = np.zeros(shape + (nd,))
    for amp, facs in surf:
        vals, ders = [], []
        for d in range(nd):
            v, dv = f1d(facs[d], coords[d], los[d], lengths[d])
            sh = [1] * nd
            sh[d] = -1
            vals.append(v.reshape(sh))
            ders.append(dv.reshape(sh))
        prod = amp
        for d in range(nd):
            prod = prod * vals[d]
        A += prod
        for d in range(nd):
            g = amp
            for e in range(nd):
                g = g * (ders[e] if e == d else vals[e])
            G[..., d] += g
    return A, G


def make_surface(rng, per, kmax=2):
    nd = len(per)
    ks = [1, 1, 2] if kmax >= 2 else [1]
    terms = []
    nterm = rng.choice([1, 2, 2, 3])
    for _ in range(nterm):
        facs = []
        for d in range(nd):
            if per[d]:
                if rng.random() < 0.5:
                    facs.append(["cos", rng.choice(ks), rng.uniform(0, 2 * math.pi)])
                else:
                    facs.append(["pcs", rng.choice(ks), rng.uniform(0, 2 * math.pi), rng.uniform(0.3, 0.8)])
            else:
                k = rng.choice(["gauss", "gauss", "poly", "sin"])
                if k == "gauss":
                    facs.append(["gauss", rng.uniform(-0.1, 1.1), rng.uniform(0.3, 0.7)])
                elif k == "poly":
                    facs.append(["poly", rng.uniform(-0.2, 1.2), rng.choice([1, 2, 3])])
                else:
                    facs.append(["sin", rng.uniform(1.5, 5.0), rng.uniform(0, 2 * math.pi)])
        terms.append([rng.uniform(0.5, 2.0) * rng.choice([-1, 1]), facs])
    return terms


# ---------------------------------------------------------------------------------------------
# job generators (a job is a JSON-serialisable dict with its case-file text)
# ---------------------------------------------------------------------------------------------

DYW = [0.125, 0.25, 0.375, 0.5, 0.75, 1.0, 1.5, 2.0, 3.0]


def rand_dims(rng, nd, per, nmin, nmax):
    dims = []
    for d in range(nd):
        w = rng.choice(DYW)
        n = rng.randint(nmin, nmax)
        lo = rng.randint(-40, 40) * 0.25
        dims.append([lo, w, n, bool(per[d])])
    return dims


def dy(rng, amp=8.0):
    """dyadic number, multiple of 2^-10"""
    return rng.randint(-int(amp * 1024), int(amp * 1024)) / 1024.0


def job_1d(rng, name):
    per = rng.random() < 0.5
    n = rng.choice([1, 2, 3, 4, 5, 8, 13, 24, 40, 75])
    if per and n < 2:
        n = 2
    dims = rand_dims(rng, 1, [per], n, n)
    mode = rng.choice(["full", "full", "empties", "empties", "sparse", "nocount"])
    smoothed = 0
    full, mins = 1, 0
    use_counts = 1
    if mode == "nocount":
        use_counts = 0
        counts = [1] * n
    elif mode == "full":
        counts = [rng.randint(1, 9) for _ in range(n)]
    elif mode == "empties":
        counts = [rng.choice([0, 1, 2, 5, 30]) for _ in range(n)]
    else:
        counts = [rng.choice([0, 0, 0, 3]) for _ in range(n)]
    if use_counts and rng.random() < 0.3:
        smoothed = 1
        full = rng.choice([4, 8, 20])
        mins = rng.choice([0, 1, full // 2])
    if rng.random() < 0.5:
        sums = [dy(rng) * (counts[i] if use_counts else 1) if (counts[i] or not use_counts) else 0.0 for i in range(n)]
    else:
        sums = [rng.uniform(-30, 30) if (counts[i] or not use_counts) else 0.0 for i in range(n)]
    if use_counts and rng.random() < 0.15:
        # a constant offset makes the periodic correction matter even more
        off = dy(rng)
        sums = [sums[i] + off * counts[i] for i in range(n)]
    lines = head_text(name, dims, smoothed, full, mins, use_counts)
    lines += load_text(dims, counts if use_counts else [0] * n, [[s] for s in sums])
    lines += ["integrate 10 1e-6 s", "pmf raw", "minzero", "multicol m", "ti1d t", "end"]
    return dict(law="1d", name=name, dims=dims, counts=counts, sums=sums, smoothed=smoothed, full=full,
                mins=mins, use_counts=use_counts, mode=mode, text="\n".join(lines) + "\n")


def rand_fill(rng, dims, density, maxcount, dyadic):
    gnx = [d[2] for d in dims]
    nd = len(dims)
    nb = int(np.prod(gnx))
    counts = np.zeros(nb, dtype=int)
    sums = np.zeros((nb, nd))
    for k in range(nb):
        if rng.random() < density:
            counts[k] = rng.randint(1, maxcount)
            for d in range(nd):
                sums[k, d] = (dy(rng) * counts[k]) if dyadic else rng.uniform(-10, 10) * counts[k]
    return counts.reshape(gnx), sums.reshape(gnx + [nd])


def job_resid(rng, name, nd, per, small):
    if nd == 2:
        dims = rand_dims(rng, 2, per, 3, 9) if small else rand_dims(rng, 2, per, 8, 40)
    else:
        dims = rand_dims(rng, 3, per, 3, 5) if small else rand_dims(rng, 3, per, 5, 16)
    density = rng.choice([1.0, 0.8, 0.3])
    smoothed = 1 if rng.random() < 0.3 else 0
    full = rng.choice([3, 6])
    mins = rng.choice([0, 1])
    counts, sums = rand_fill(rng, dims, density, 8, False)
    tol = rng.choice([1e-4, 1e-6, 1e-6, 1e-8])
    itmax = 10000
    lines = head_text(name, dims, smoothed, full, mins, 1)
    warm = rng.random() < 0.4
    if warm:
        # the same object integrates other data first (same cells, other values) and keeps that surface as the starting
        # point of the second solution, as when new data arrive between two integrations: the second solution must
        # satisfy the equation for the NEW data to the same tolerance
        fac = np.array([[rng.uniform(0.2, 1.8) for _ in range(sums.shape[-1])] for _ in range(counts.size)]).reshape(sums.shape)
        lines += load_text(dims, counts, sums * fac)
        lines += ["setdiv", "integrate %d %s w" % (itmax, fnum(tol))] + (["minzero"] if rng.random() < 0.3 else [])
    lines += load_text(dims, counts, sums)
    lines += ["setdiv", "div d"] + ([] if warm else ["zero"]) + ["integrate %d %s s" % (itmax, fnum(tol)), "atimes s"]
    if small:
        lines += ["multicol m"]
    lines += ["end"]
    return dict(law="resid", name=name, dims=dims, tol=tol, itmax=itmax, smoothed=smoothed, full=full, mins=mins,
                small=bool(small), density=density, warm=warm, text="\n".join(lines) + "\n", counts=counts.tolist(), sums=sums.tolist())


def jobs_conv(rng, fam, nd, per, thorough):
    """three jobs (levels 0,1,2) of one family"""
    # resolutions fine enough for the asymptotic regime: >= 12 points per shortest wavelength at level 0
    surf = make_surface(rng, per, 2 if nd == 2 else 1)
    base, los, lengths = [], [], []
    for d in range(nd):
        if nd == 2:
            base.append(rng.randint(24, 36) if not thorough else rng.randint(24, 48))
        else:
            base.append(rng.randint(12, 15) if not thorough else rng.randint(12, 20))
        los.append(rng.randint(-8, 8) * 0.5)
        lengths.append(rng.choice([1.0, 1.5, 2.0, 3.0, 5.0]))
    with_counts = rng.random() < 0.5
    jobs = []
    for lev in range(3):
        dims = []
        for d in range(nd):
            n = base[d] * (2 ** lev)
            dims.append([los[d], lengths[d] / n, n, bool(per[d])])
        centres = [dims[d][0] + dims[d][1] * (np.arange(dims[d][2]) + 0.5) for d in range(nd)]
        _, G = surface_eval(surf, centres, los, lengths)
        gnx = [d[2] for d in dims]
        if with_counts:
            r = np.random.RandomState(rng.randint(0, 2 ** 31 - 1))
            counts = r.randint(1, 5, size=gnx)
            sums = G * counts[..., None]
        else:
            counts = np.ones(gnx, dtype=int)
            sums = G
        name = "%s_l%d" % (fam, lev)
        lines = head_text(name, dims, 0, 1, 0, 1)
        lines += ["loadbin @BIN@", "setdiv", "zero", "integrate 40000 1e-11 s", "end"]
        blob = np.ascontiguousarray(counts, dtype="<i8").tobytes() + np.ascontiguousarray(sums, dtype="<f8").tobytes()
        jobs.append(dict(law="conv", name=name, fam=fam, level=lev, dims=dims, surf=surf, los=los, lengths=lengths,
                         with_counts=with_counts, text="\n".join(lines) + "\n", blob=blob))
    return jobs


ORDERS = ["random", "sorted", "reversed", "bursts", "hotspot", "preloaded"]


def job_incr(rng, name, nd, per, order, thorough):
    if nd == 2:
        dims = rand_dims(rng, 2, per, 2, 12 if not thorough else 30)
    else:
        dims = rand_dims(rng, 3, per, 2, 6 if not thorough else 10)
    gnx = [d[2] for d in dims]
    nb = int(np.prod(gnx))
    smoothed = 1 if rng.random() < 0.4 else 0
    full = rng.choice([2, 4, 8])
    mins = rng.choice([0, 1, full // 2])
    # which bins are visited and how often: some never, some many times
    hit = [k for k in range(nb) if rng.random() < rng.choice([0.3, 0.6, 0.9])]
    if not hit:
        hit = [rng.randrange(nb)]
    mult = {k: rng.choice([1, 1, 2, 3, 7, 20]) for k in hit}
    if order == "hotspot":
        k0 = rng.choice(hit)
        mult[k0] = 60
    stream = []
    for k in hit:
        for _ in range(mult[k]):
            stream.append((k, [dy(rng) for _ in range(nd)]))
    if order in ("random", "hotspot", "preloaded"):
        rng.shuffle(stream)
    elif order == "sorted":
        stream.sort(key=lambda s: s[0])
    elif order == "reversed":
        stream.sort(key=lambda s: -s[0])
    elif order == "bursts":
        ks = list(hit)
        rng.shuffle(ks)
        pos = {k: i for i, k in enumerate(ks)}
        stream.sort(key=lambda s: pos[s[0]])
    lines = head_text(name, dims, smoothed, full, mins, 1)
    pre_counts = pre_sums = None
    if order == "preloaded":
        pre_counts, pre_sums = rand_fill(rng, dims, 0.5, 6, True)
        lines += load_text(dims, pre_counts, pre_sums)
        lines += ["setdiv"]
    lines.append("acc %d" % len(stream))
    for k, f in stream:
        ix = np.unravel_index(k, gnx)
        lines.append(" ".join(str(int(i)) for i in ix) + " " + " ".join(fnum(v) for v in f))
    lines += ["div incr", "grad g", "setdiv", "div batch", "end"]
    return dict(law="incr", name=name, dims=dims, order=order, smoothed=smoothed, full=full, mins=mins,
                stream=[[int(k), f] for k, f in stream],
                pre_counts=None if pre_counts is None else pre_counts.reshape(-1).tolist(),
                pre_sums=None if pre_sums is None else pre_sums.reshape(-1).tolist(),
                text="\n".join(lines) + "\n")


def job_e2e(rng, name, nd, per):
    dims = rand_dims(rng, nd, per, 3, 7 if nd == 2 else 4)
    nsteps = rng.choice([120, 200]) if nd == 2 else 160
    fs = rng.choice([1, 4, 10])
    tfmode = rng.choice(["same", "same", "prev"])
    lines = head_text(name, dims, 0, 1, 0, 1, build=False)
    lines.append("e2e %d %s %d" % (fs, tfmode, nsteps))
    # a random walk over bins with revisits; a few steps leave the grid in a non-periodic direction
    cur = [rng.randrange(d[2]) for d in dims]
    for _ in range(nsteps):
        xs = []
        for d in range(nd):
            if not dims[d][3] and cur[d] < 0:
                cur[d] = 0              # back inside after one step off the grid
            elif not dims[d][3] and cur[d] >= dims[d][2]:
                cur[d] = dims[d][2] - 1
            elif rng.random() < 0.5:
                cur[d] += rng.choice([-1, 1])
            if dims[d][3]:
                cur[d] %= dims[d][2]
            else:
                cur[d] = max(-1, min(dims[d][2], cur[d]))
            xs.append(dims[d][0] + dims[d][1] * (cur[d] + rng.choice([0.25, 0.5, 0.75])))
        fsx = [dy(rng) for _ in range(nd)]
        lines.append(" ".join(fnum(v) for v in xs) + " " + " ".join(fnum(v) for v in fsx))
    lines.append("end")
    return dict(law="incr", e2e=True, name=name, dims=dims, order="abf_run", nsteps=nsteps, fs=fs, tfmode=tfmode,
                text="\n".join(lines) + "\n")


# ---------------------------------------------------------------------------------------------
# evaluation: each returns a list of (status, key, text, nontrivial_key)
#   status: "ok" | "viol" | "inconc" | "trivial"
# ---------------------------------------------------------------------------------------------

def ev_by(events, kind, tag=None):
    for e in events:
        if e.get("ev") == kind and (tag is None or e.get("tag") == tag):
            return e
    return None


def arr(x):
    return np.array([common.fl(v) for v in x], dtype=float)


def check_built(job, events):
    b = ev_by(events, "built")
    if b is None or ev_by(events, "end") is None or any(e.get("err") for e in events):
        fails = [e for e in events if e.get("ev") == "fail" or e.get("errs")]
        return None, "harness did not complete the case (%s)" % (json.dumps(fails[:2])[:300])
    return b, None


def eval_1d(job, events):
    res = []
    b, why = check_built(job, events)
    if b is None:
        return [("inconc", "", why, None)]
    lo, w, n, per = job["dims"][0]
    P = pat([per])
    counts = np.array(job["counts"], dtype=float)
    sums = np.array(job["sums"], dtype=float)
    uc, sm, full, mins = job["use_counts"], job["smoothed"], job["full"], job["mins"]
    empties = bool(uc and np.any(counts == 0))
    cls = ("smoothed" if sm else "plain") + ":" + ("empty_bins" if empties else "all_bins_sampled")
    pn = b["pnx"][0]
    if bool(b["periodic"][0]) != bool(per) or b["gnx"][0] != n:
        return [("inconc", "", "grid not built as requested: %s" % json.dumps(b)[:200], None)]
    if pn != (n if per else n + 1):
        res.append(("viol", "1d:%s:integrate:grid_size" % P,
                    "PMF grid has %d points for %d gradient bins (periodic=%s)" % (pn, n, per), None))
        return res

    def expected(smoothed):
        val = bin_values(counts, sums, uc, smoothed, full, mins)
        alts = []
        corr = float(np.mean(val)) if per else 0.0
        alts.append(cumsum_surface(val, w, corr))
        if per and uc and np.any(counts == 0) and np.any(counts > 0):
            # second reading: empty bins carry no information: mean over sampled bins, flat across empty ones
            mask = counts > 0
            corr_b = float(np.sum(val[mask]) / np.sum(mask))
            alts.append(cumsum_surface(val, w, corr_b, mask))
        scale = float(np.sum(np.abs(val)) * w + abs(corr) * w * n)
        return val, alts, scale

    raw = ev_by(events, "pmf", "raw")
    mc = ev_by(events, "multicol", "m")
    ti = ev_by(events, "ti1d", "t")
    if raw is None or mc is None or ti is None:
        return [("inconc", "", "missing events", None)]
    data = arr(raw["data"])

    # --- integrate_potential::integrate, nd == 1
    val, alts, scale = expected(sm)
    tol = 1e-12 * scale + 1e-300
    okany = any(np.max(np.abs(data - a[:pn])) <= tol for a in alts)
    ntk = ("1d", P, "integrate:" + cls, "-")
    if scale == 0.0:
        res.append(("trivial", "", "", None))
    elif okany:
        res.append(("ok", "", "", ntk))
    else:
        key = "1d:%s:integrate:%s:cumsum" % (P, cls)
        dev = float(np.max(np.abs(data - alts[0][:pn])))
        text = "integrate(): surface differs from cumulative sum of bin means x width by %.3g (scale %.3g)" % (dev, scale)
        if per and pn >= 2:
            corr_imp = val[0] - (data[1] - data[0]) / w
            closing = data[pn - 1] + (val[n - 1] - corr_imp) * w - data[0]
            if abs(closing) > 1e-12 * (scale + abs(corr_imp) * w * n):
                key = "1d:%s:integrate:%s:closure" % (P, cls)
                text = ("integrate(): periodic surface does not close: continuing the sum over the last bin gives "
                        "A_n - A_0 = %.6g (scale %.3g); correction used %.6g, mean of the integrated values %.6g"
                        % (closing, scale, corr_imp, float(np.mean(val))))
        res.append(("viol", key, text, None))

    # --- what is written: multicol after set_zero_minimum
    xs, vs = parse_multicol(mc["text"], 1)
    if len(vs) != pn:
        res.append(("viol", "1d:%s:written:rows" % P, "%d rows written for %d grid points" % (len(vs), pn), None))
    else:
        xexp = lo + w * np.arange(pn)
        xtol = 1e-13 * (abs(lo) + w * n) + 1e-14
        if np.max(np.abs(xs[:, 0] - xexp)) > 10 * xtol:
            res.append(("viol", "1d:%s:written:coords" % P,
                        "written abscissae differ from bin edges lower + i*width by %.3g" % float(np.max(np.abs(xs[:, 0] - xexp))),
                        None))
        wexp = data - np.min(data)
        wtol = 1e-13 * (np.max(np.abs(data)) + np.max(np.abs(wexp))) + 1e-300
        if np.max(np.abs(vs - wexp)) > wtol:
            res.append(("viol", "1d:%s:written:values" % P,
                        "written values differ from the integrated data minus its minimum by %.3g" % float(np.max(np.abs(vs - wexp))),
                        None))
        elif scale > 0:
            res.append(("ok", "", "", ("1d", P, "written:" + cls, "-")))

    # --- colvar_grid_gradient::write_1D_integral (the .ti.pmf writer; no smoothing there)
    val, alts, scale = expected(0)
    cls_ti = "plain:" + ("empty_bins" if empties else "all_bins_sampled")
    rows = [l.split() for l in ti["text"].splitlines() if l.strip() and not l.startswith("#")]
    tv = np.array([float(r[1]) for r in rows]) if rows else np.zeros(0)
    if len(tv) != n + 1:
        res.append(("viol", "1d:%s:ti_writer:rows" % P, "%d rows written, expected %d" % (len(tv), n + 1), None))
    elif scale == 0.0:
        res.append(("trivial", "", "", None))
    else:
        ttol = 1e-12 * scale + 2e-13 * float(np.max(np.abs(tv)) + max(np.max(np.abs(a)) for a in alts))
        ok = any(np.max(np.abs(tv - (a - np.min(a)))) <= ttol for a in alts)
        if ok:
            res.append(("ok", "", "", ("1d", P, "ti_writer:" + cls_ti, "-")))
        else:
            dev = float(np.max(np.abs(tv - (alts[0] - np.min(alts[0])))))
            key = "1d:%s:ti_writer:%s:cumsum" % (P, cls_ti)
            text = "write_1D_integral(): surface differs from cumulative sum of bin means x width by %.3g (scale %.3g)" % (dev, scale)
            if per and abs(tv[n] - tv[0]) > ttol:
                key = "1d:%s:ti_writer:%s:closure" % (P, cls_ti)
                text = ("write_1D_integral(): periodic surface does not close: A_n - A_0 = %.6g (scale %.3g), "
                        "%d of %d bins empty" % (tv[n] - tv[0], scale, int(np.sum(counts == 0)) if uc else 0, n))
            res.append(("viol", key, text, None))
    return res


def eval_resid(job, events):
    b, why = check_built(job, events)
    if b is None:
        return [("inconc", "", why, None)]
    dims = job["dims"]
    nd = len(dims)
    per = [d[3] for d in dims]
    P = pat(per)
    D = "%dd" % nd
    pnx = b["pnx"]
    widths = [d[1] for d in dims]
    dv = ev_by(events, "div", "d")
    it = ev_by(events, "integrate", "s")
    at = ev_by(events, "atimes", "s")
    if dv is None or it is None or at is None:
        return [("inconc", "", "missing events", None)]
    for d in range(nd):
        if pnx[d] != dims[d][2] + (0 if per[d] else 1):
            return [("viol", "resid:%s:%s:grid_size" % (D, P),
                     "PMF grid %s for gradient grid %s periodic %s" % (pnx, b["gnx"], per), None)]
    div = arr(dv["div"])
    A = arr(it["data"])
    la = arr(at["la"])
    bn = float(np.linalg.norm(div))
    if bn < 1e-12:
        return [("trivial", "", "", None)]
    tol = job["tol"]
    iters, itmax = it["iter"], it["itmax"]
    errv = common.fl(it["errv"])
    res = []
    cls = "smoothed" if job["smoothed"] else "plain"
    if not np.all(np.isfinite(A)):
        return [("viol", "resid:%s:%s:nonfinite" % (D, P), "solution contains non-finite values", None)]
    bound = 2.0 * tol + 1e-9
    r_code = float(np.linalg.norm(la - div)) / bn
    if iters >= itmax and not (errv <= tol):
        nt = int(np.prod(pnx))
        # conjugate gradients on a consistent symmetric system of nt unknowns ends within nt steps in exact
        # arithmetic; 10000 >= 2 nt here
        if itmax >= 2 * nt:
            res.append(("viol", "resid:%s:%s:%s:not_converged" % (D, P, cls),
                        "solver stopped at itmax=%d (>= 2 x %d unknowns) with residual %.3g > tol %.3g; "
                        "sum(div)/|div| = %.3g" % (itmax, nt, errv, tol, float(np.sum(div)) / bn), None))
        else:
            res.append(("inconc", "", "iteration budget exhausted (%d unknowns)" % nt, None))
        return res
    if job.get("counts") is not None and int(np.prod(pnx)) <= 4000:
        # the right-hand side itself, against the documented formula evaluated from the loaded data (several grids of different
        # widths are processed by one process)
        g = bin_values(np.array(job["counts"]), np.array(job["sums"]), 1, job["smoothed"], job["full"], job["mins"])
        dref = np_divergence(g, widths, per).reshape(-1)
        dn = float(np.linalg.norm(dref))
        dev = float(np.linalg.norm(dref - div))
        if dev > 1e-10 * max(dn, 1e-300) + 1e-12:
            res.append(("viol", "resid:%s:%s:%s:divergence_formula" % (D, P, cls),
                        "divergence computed by the library differs from the documented formula evaluated on the same data: |diff| = %.3g, "
                        "|div| = %.3g (grid %s, widths %s)" % (dev, dn, list(b["gnx"]), widths), None))
            return res
        res.append(("ok", "", "", ("resid", D, P, "divergence_formula:" + cls)))
    if r_code > bound:
        res.append(("viol", "resid:%s:%s:%s:own_operator%s" % (D, P, cls, ":second_integration_of_one_object" if job.get("warm") else ""),
                    "|L.A - div|/|div| = %.3g with the library's operator, solver tolerance %.3g (reported %.3g after %d iterations)"
                    % (r_code, tol, errv, iters), None))
    else:
        res.append(("ok", "", "", ("resid", D, P, "own_operator:" + cls + (":second_integration" if job.get("warm") else ""))))
    mc = ev_by(events, "multicol", "m")
    if mc is not None:
        # what is written: values of the solution at the bin edges lower + i*width, 14 significant digits
        xs, vs = parse_multicol(mc["text"], nd)
        grids = np.meshgrid(*[dims[d][0] + dims[d][1] * np.arange(pnx[d]) for d in range(nd)], indexing="ij")
        xexp = np.stack([g.reshape(-1) for g in grids], axis=1)
        if len(vs) != A.size:
            res.append(("viol", "resid:%s:%s:written:rows" % (D, P), "%d rows written for %d grid points" % (len(vs), A.size), None))
        else:
            span = max(abs(dims[d][0]) + dims[d][1] * pnx[d] for d in range(nd))
            if np.max(np.abs(xs - xexp)) > 1e-12 * span:
                res.append(("viol", "resid:%s:%s:written:coords" % (D, P),
                            "written coordinates differ from the bin edges lower + i*width by %.3g"
                            % float(np.max(np.abs(xs - xexp))), None))
            elif np.max(np.abs(vs - A)) > 1e-13 * float(np.max(np.abs(A))) + 1e-300:
                res.append(("viol", "resid:%s:%s:written:values" % (D, P),
                            "written values differ from the solution by %.3g" % float(np.max(np.abs(vs - A))), None))
            else:
                res.append(("ok", "", "", ("resid", D, P, "written")))
    if all(per):
        A_ = A.reshape(pnx)
        r_np = float(np.linalg.norm(np_laplacian_periodic(A_, widths).reshape(-1) - div)) / bn
        if r_np > bound:
            res.append(("viol", "resid:%s:%s:%s:numpy_operator" % (D, P, cls),
                        "|L.A - div|/|div| = %.3g with an independent %d-point periodic Laplacian, tolerance %.3g"
                        % (r_np, 2 * nd + 1, tol), None))
        else:
            res.append(("ok", "", "", ("resid", D, P, "numpy_operator:" + cls)))
        nt = int(np.prod(pnx))
        if nt <= 600:
            eye = np.eye(nt).reshape([nt] + list(pnx))
            Lm = np.stack([np_laplacian_periodic(eye[k], widths).reshape(-1) for k in range(nt)], axis=1)
            ev = np.linalg.eigvalsh(-0.5 * (Lm + Lm.T))
            pos = ev[ev > 1e-9 * ev[-1]]
            sol = np.linalg.lstsq(Lm, div, rcond=None)[0]
            dA = (A - np.mean(A)) - (sol - np.mean(sol))
            # |dA|_2 <= |residual|_2 / lambda_min(nonzero); the rhs itself may have a tiny inconsistent part
            incons = abs(float(np.sum(div))) / math.sqrt(nt)
            lim = (bound * bn + 10 * incons) / float(pos[0]) + 1e-12 * float(np.linalg.norm(sol))
            if float(np.linalg.norm(dA)) > lim:
                res.append(("viol", "resid:%s:%s:%s:dense_solve" % (D, P, cls),
                            "solution differs from the dense least-squares solution of the periodic problem by %.3g "
                            "(2-norm, constant removed), bound %.3g" % (float(np.linalg.norm(dA)), lim), None))
            else:
                res.append(("ok", "", "", ("resid", D, P, "dense_solve:" + cls)))
    return res


def eval_conv_level(job, events):
    """returns (status, text, (max error, rms error), range)"""
    b, why = check_built(job, events)
    if b is None:
        return ("inconc", why, None, None)
    dims = job["dims"]
    nd = len(dims)
    per = [d[3] for d in dims]
    pnx = b["pnx"]
    it = ev_by(events, "integrate", "s")
    if it is None:
        return ("inconc", "missing events", None, None)
    for d in range(nd):
        if pnx[d] != dims[d][2] + (0 if per[d] else 1):
            return ("inconc", "unexpected PMF grid size %s" % pnx, None, None)
    errv = common.fl(it["errv"])
    if it["iter"] >= it["itmax"] and not (errv <= 1e-9):
        return ("notconv", "solver did not converge: residual %.3g after %d iterations" % (errv, it["iter"]), None, None)
    A = arr(it["data"]).reshape(pnx)
    if not np.all(np.isfinite(A)):
        return ("notconv", "non-finite solution", None, None)
    # the PMF lives on the bin edges: lower + i*width
    verts = [dims[d][0] + dims[d][1] * np.arange(pnx[d]) for d in range(nd)]
    Aex, _ = surface_eval(job["surf"], verts, job["los"], job["lengths"])
    e = (A - np.mean(A)) - (Aex - np.mean(Aex))
    return ("ok", "", (float(np.max(np.abs(e))), float(np.sqrt(np.mean(e * e)))), float(np.max(Aex) - np.min(Aex)))


RATIO_LO, RATIO_HI = 3.2, 4.8          # second order: 4 per halving
PRE_LO, PRE_HI = 2.8, 5.6              # maximum norm, coarser halving only (pre-asymptotic allowance)
# Where two or more non-periodic directions meet (corners in 2-D, edges and corners in 3-D) the scheme's
# pointwise error is O(h^2 log 1/h): the maximum sits there and its ratio per halving creeps up to 4 only
# logarithmically (measured 2.45-3.9 for 12-300 bins), while the RMS error (all patterns) and the maximum
# error of patterns with at most one non-periodic direction are cleanly second order.  This is treated as a
# boundary effect, not as a violation of the statement: it is recorded under its own key in the evidence
# ("observations").  A first-order maximum error (ratio 2) is still a violation.
CORNER_MAXNORM_IS_VIOLATION = False
CORNER_FLOOR = (2.0, 2.4)              # coarser, finer halving


def eval_conv_family(levels):
    """levels: list of three (job, level result).  Returns result tuples."""
    job0 = levels[0][0]
    nd = len(job0["dims"])
    per = [d[3] for d in job0["dims"]]
    P, D = pat(per), "%dd" % nd
    emax, erms = [], []
    for job, r in levels:
        if r[0] == "inconc":
            return [("inconc", "", r[1], None)]
        if r[0] == "notconv":
            return [("viol", "conv:%s:%s:not_converged" % (D, P), "level %d: %s" % (job["level"], r[1]), None)]
        emax.append(r[2][0])
        erms.append(r[2][1])
    rng_ = levels[2][1][3]
    if rng_ <= 0:
        return [("trivial", "", "", None)]
    desc = "max errors %.3e %.3e %.3e, rms errors %.3e %.3e %.3e (surface range %.3g), bins %s" % (
        emax[0], emax[1], emax[2], erms[0], erms[1], erms[2], rng_, [d[2] for d in job0["dims"]])
    if emax[2] < 1e-9 * rng_:
        # reproduced to solver precision at every level (a surface the scheme integrates exactly)
        return [("ok", "", desc, ("conv", D, P, "exact"))]

    def ratios(e):
        return [e[i] / e[i + 1] if e[i + 1] > 0 else float("inf") for i in range(2)]

    rr, rm = ratios(erms), ratios(emax)
    desc += "; ratios per halving rms %.2f %.2f, max %.2f %.2f" % (rr[0], rr[1], rm[0], rm[1])
    res = []
    if emax[2] > 0.05 * rng_ or erms[2] > 0.02 * rng_:
        res.append(("viol", "conv:%s:%s:large_error" % (D, P),
                    "error at the finest level is %.3g (max) / %.3g (rms) of the surface's range; %s"
                    % (emax[2] / rng_, erms[2] / rng_, desc), None))
    if not all(RATIO_LO <= r <= RATIO_HI for r in rr):
        res.append(("viol", "conv:%s:%s:order" % (D, P),
                    "rms error not second order (observed order %.2f); %s" % (math.log(max(rr[1], 1e-300), 2), desc), None))
    elif RATIO_LO <= rm[1] <= RATIO_HI and not (PRE_LO <= rm[0] <= PRE_HI) and 1.5 <= rm[0] <= 8.0:
        # second order between the two finer levels; the coarsest level (errors of several percent of the surface's range)
        # is not yet in the asymptotic regime: an observation, not a verdict (the order is decided by the finer halving
        # and by the RMS error at both halvings)
        res.append(("observe", "conv:%s:%s:max_norm_preasymptotic_at_coarsest_level" % (D, P), desc, ("conv", D, P, "second_order")))
    elif not (PRE_LO <= rm[0] <= PRE_HI and RATIO_LO <= rm[1] <= RATIO_HI):
        corner = sum(1 for p in per if not p) >= 2
        if corner and not CORNER_MAXNORM_IS_VIOLATION and all(CORNER_FLOOR[i] <= rm[i] <= PRE_HI for i in range(2)):
            res.append(("observe", "conv:%s:%s:max_norm_at_corners" % (D, P), desc, ("conv", D, P, "second_order_rms")))
        else:
            res.append(("viol", "conv:%s:%s:%s" % (D, P, "max_norm_at_corners" if corner else "order_max_norm"),
                        "maximum error not second order (observed order %.2f); %s"
                        % (math.log(max(rm[1], 1e-300), 2), desc), None))
    if not res:
        res.append(("ok", "", desc, ("conv", D, P, "second_order")))
    return res


def eval_incr(job, events):
    b, why = check_built(job, events)
    if b is None:
        return [("inconc", "", why, None)]
    dims = job["dims"]
    nd = len(dims)
    per = [d[3] for d in dims]
    P, D = pat(per), "%dd" % nd
    order = job["order"]
    di = ev_by(events, "div", "incr")
    db = ev_by(events, "div", "batch")
    g = ev_by(events, "grad")
    if di is None or db is None or g is None:
        return [("inconc", "", "missing events", None)]
    d_i, d_b = arr(di["div"]), arr(db["div"])
    counts = arr(g["counts"])
    sums = arr(g["sums"]).reshape(-1, nd)
    cls = "plain"
    if job.get("e2e"):
        if b.get("step_errors"):
            return [("inconc", "", "errors during the ABF run", None)]
        if b.get("b_smoothed"):
            cls = "smoothed"
        if counts.sum() < 0.3 * job["nsteps"]:
            return [("inconc", "", "ABF accumulated only %d samples in %d steps" % (counts.sum(), job["nsteps"]), None)]
    else:
        cls = "smoothed" if job["smoothed"] else "plain"
        # the harness did what the stream says (exact: dyadic inputs)
        nb = counts.size
        c0 = np.zeros(nb)
        s0 = np.zeros((nb, nd))
        if job.get("pre_counts") is not None:
            c0 += np.array(job["pre_counts"], dtype=float)
            s0 += np.array(job["pre_sums"], dtype=float).reshape(-1, nd)
        for k, f in job["stream"]:
            c0[k] += 1
            s0[k] -= np.array(f)
        if not (np.array_equal(c0, counts) and np.array_equal(s0, sums)):
            return [("inconc", "", "accumulated gradients differ from the replayed stream", None)]
    many = bool(np.any(counts >= 2))
    never = bool(np.any(counts == 0))
    sc = float(np.max(np.abs(d_b)))
    if sc == 0.0 and float(np.max(np.abs(d_i))) == 0.0:
        return [("trivial", "", "", None)]
    dev = float(np.max(np.abs(d_i - d_b)))
    if dev > 1e-12 * max(sc, float(np.max(np.abs(d_i)))):
        pnx = b["pnx"]
        bad = np.argwhere(np.abs(d_i - d_b).reshape(pnx) > 1e-12 * max(sc, 1e-300))
        return [("viol", "incr:%s:%s:%s:%s" % (D, P, cls, "abf_run" if job.get("e2e") else "stream"),
                 "incrementally maintained divergence differs from set_div() on the final gradients by %.6g "
                 "(|div|_inf %.6g) at %d of %d grid points, first %s; arrival order '%s'"
                 % (dev, sc, len(bad), d_b.size, bad[0].tolist() if len(bad) else "?", order), None)]
    return [("ok", "", "", ("incr", D, P, cls + ":" + order + (":many" if many else "") + (":never" if never else "")))]


EVAL = {"1d": eval_1d, "resid": eval_resid, "incr": eval_incr}


# ---------------------------------------------------------------------------------------------
# running
# ---------------------------------------------------------------------------------------------

def run_chunk(c, flavour, chunk, idx, timeout):
    """run several jobs in one harness process; returns {name: events} and a failure description"""
    exe = vbuild.tool(flavour, "h_poisson")
    path = os.path.join(c.work, "%s_%04d.case" % (flavour, idx))
    with open(path, "w") as f:
        for j in chunk:
            text = j["text"]
            if j.get("blob") is not None:       # big arrays travel in binary next to the case file
                bp = os.path.join(c.work, "%s_%s.bin" % (flavour, j["name"]))
                with open(bp, "wb") as bf:
                    bf.write(j["blob"])
                text = text.replace("@BIN@", bp)
            f.write(text)
    r = common.run_proc([exe, path], timeout=timeout, cwd=c.work)
    ev = common.parse_events(r["out"])
    by = {}
    for e in ev:
        if "case" in e:
            by.setdefault(e["case"], []).append(e)
    done = bool(ev) and ev[-1].get("ev") == "done"
    fail = None
    if not done or r["rc"] != 0:
        san = common.sanitizer_report(r["err"])
        fail = dict(timeout=r["timeout"], rc=r["rc"], sig=r["sig"], san=san,
                    frame=common.colvars_frame(r["err"]) if san or r["sig"] else "", err=r["err"][-1500:])
    return by, fail, path


def process(c, flavour, jobs, group, timeout, results):
    """run jobs (grouped), evaluate, store raw events for the convergence law in results"""
    chunks = [jobs[i:i + group] for i in range(0, len(jobs), group)]

    def one(args):
        i, chunk = args
        by, fail, path = run_chunk(c, flavour, chunk, i, timeout)
        out = []
        if fail and len(chunk) > 1:
            # attribute the failure: one process per job
            for k, j in enumerate(chunk):
                by1, fail1, path1 = run_chunk(c, flavour, [j], 100000 + i * 1000 + k, timeout)
                out.append((j, by1.get(j["name"], []), fail1, path1))
        else:
            for j in chunk:
                out.append((j, by.get(j["name"], []), fail, path))
        return out

    for batch in common.pmap(one, list(enumerate(chunks))):
        for j, events, fail, path in batch:
            results.append((flavour, j, events, fail, path))


def record(c, flavour, job, tuples, path):
    law = job["law"]
    for status, key, text, ntk in tuples:
        if status == "ok":
            c.bump("conclusive_" + law)
            if ntk is not None:
                c.nontrivial("|".join(str(x) for x in ntk))
        elif status == "observe":
            # a conclusive case with a documented boundary effect (kept visible, keyed, not a violation)
            c.bump("conclusive_" + law)
            if ntk is not None:
                c.nontrivial("|".join(str(x) for x in ntk))
            obs = c.extra.setdefault("observations", {})
            obs[key] = obs.get(key, 0) + 1
        elif status == "trivial":
            c.bump("trivial_cases")
        elif status == "inconc":
            c.inconc("%s [%s %s]: %s" % (job["name"], law, flavour, text))
        elif status == "viol":
            c.bump("conclusive_" + law)
            seen = c.extra.setdefault("violations_by_key", {})
            seen[key] = seen.get(key, 0) + 1
            if seen[key] > 2:       # two witnesses per class are kept, the rest only counted
                continue
            jf = os.path.join(c.work, "job_%s.json" % job["name"])
            with open(jf, "w") as f:
                json.dump(dict(job={k: v for k, v in job.items() if k != "blob"}, flavour=flavour), f)
            cf = os.path.join(c.work, "job_%s.case" % job["name"])
            with open(cf, "w") as f:
                f.write(job["text"])
            slim = {k: v for k, v in job.items() if k not in ("text", "stream", "surf", "pre_counts", "pre_sums", "blob")}
            new = c.violation(key, text, files=[jf, cf], payload=slim)
            c.sample(dict(verdict="violation" if new else "known-finding", key=key, case=job["name"],
                          text=text[:200]), cap=40)


def crash_tuple(job, fail):
    if fail["timeout"]:
        return [("inconc", "", "harness timed out", None)]
    if fail["san"] or fail["sig"]:
        return [("viol", "crash:%s:%s" % (job["law"], fail["frame"] or "?"),
                 "harness died (signal %s): %s" % (fail["sig"], fail["san"] or fail["err"][-300:]), None)]
    return [("inconc", "", "harness exit code %s: %s" % (fail["rc"], fail["err"][-300:]), None)]


def evaluate_all(c, results):
    fams = {}
    nsamp = {}
    for flavour, job, events, fail, path in results:
        c.count()
        c.bump("cases_" + job["law"])
        if fail and (fail["san"] or fail["sig"] or not any(e.get("ev") == "end" for e in events)):
            record(c, flavour, job, crash_tuple(job, fail), path)
            continue
        if job["law"] == "conv":
            fams.setdefault((flavour, job["fam"]), []).append((job, eval_conv_level(job, events)))
            continue
        try:
            tuples = EVAL[job["law"]](job, events)
        except Exception as ex:      # evaluation must never turn into a verdict
            tuples = [("inconc", "", "evaluation failed: %r" % (ex,), None)]
        record(c, flavour, job, tuples, path)
        if tuples and tuples[0][0] == "ok":
            d = job["dims"]
            lawkey = job["law"] + (":abf_run" if job.get("e2e") else "")
            nsamp[lawkey] = nsamp.get(lawkey, 0) + 1
            if nsamp[lawkey] <= 2:
                c.sample(dict(law=lawkey, case=job["name"], flavour=flavour, bins=[x[2] for x in d],
                              widths=[x[1] for x in d], periodic=pat([x[3] for x in d]), verdict="held",
                              what=[list(t[3]) for t in tuples if t[0] == "ok" and t[3]]), cap=40)
    for (flavour, fam), levels in sorted(fams.items()):
        levels.sort(key=lambda x: x[0]["level"])
        if len(levels) != 3:
            c.inconc("%s: only %d levels ran" % (fam, len(levels)))
            continue
        tuples = eval_conv_family(levels)
        record(c, flavour, levels[2][0], tuples, None)
        if tuples[0][0] in ("ok", "observe"):
            nsamp["conv"] = nsamp.get("conv", 0) + 1
            if nsamp["conv"] <= 3 or tuples[0][0] == "observe":
                c.sample(dict(law="conv", case=fam, periodic=pat([x[3] for x in levels[0][0]["dims"]]),
                              verdict="held" if tuples[0][0] == "ok" else "held (rms); " + tuples[0][1],
                              what=tuples[0][2]), cap=40)


PATS2 = [(1, 1), (0, 0), (1, 0), (0, 1)]
PATS3 = [(1, 1, 1), (0, 0, 0), (1, 0, 0), (0, 1, 0), (0, 0, 1), (1, 1, 0), (1, 0, 1), (0, 1, 1)]


def plan(c, tier):
    rng = c.rng
    th = tier == "thorough"
    n1d = 5000 if th else 200
    jobs = {"1d": [job_1d(rng, "d1_%d" % i) for i in range(n1d)], "resid": [], "conv": [], "incr": [], "e2e": []}
    # residual
    n2, n3 = (240, 60) if th else (48, 12)
    for i in range(n2):
        per = PATS2[i % 4] if i % 8 < 4 else (1, 1)     # half of them fully periodic (independent operator)
        jobs["resid"].append(job_resid(rng, "r2_%d" % i, 2, per, small=(i % 3 == 0)))
    for i in range(n3):
        per = PATS3[i % 8] if i % 16 < 8 else (1, 1, 1)
        jobs["resid"].append(job_resid(rng, "r3_%d" % i, 3, per, small=(i % 2 == 0)))
    # convergence families
    f2, f3 = (40, 16) if th else (12, 8)
    for i in range(f2):
        jobs["conv"] += jobs_conv(rng, "c2_%d" % i, 2, PATS2[i % 4], th)
    for i in range(f3):
        jobs["conv"] += jobs_conv(rng, "c3_%d" % i, 3, PATS3[i % 8], th)
    # incremental
    m2, m3 = (600, 160) if th else (60, 24)
    for i in range(m2):
        jobs["incr"].append(job_incr(rng, "i2_%d" % i, 2, PATS2[i % 4], ORDERS[(i // 4) % len(ORDERS)], th))
    for i in range(m3):
        jobs["incr"].append(job_incr(rng, "i3_%d" % i, 3, PATS3[i % 8], ORDERS[(i // 8) % len(ORDERS)], th))
    e2, e3 = (24, 8) if th else (6, 2)
    for i in range(e2):
        jobs["e2e"].append(job_e2e(rng, "e2_%d" % i, 2, PATS2[i % 4]))
    for i in range(e3):
        jobs["e2e"].append(job_e2e(rng, "e3_%d" % i, 3, PATS3[(3 * i + 1) % 8]))
    return jobs


def do_replay(c, replay):
    jf = [f for f in os.listdir(replay) if f.startswith("job_") and f.endswith(".json")]
    if not jf:
        print("no job_*.json in %s" % replay)
        return c.finish(False, "nothing to replay")
    results = []
    for f in jf:
        d = json.load(open(os.path.join(replay, f)))
        job, flavour = d["job"], d.get("flavour", "plain")
        c.use_flavour(flavour)
        if job["law"] == "conv":
            print("convergence families are replayed by re-running the seed (three levels are needed)")
            continue
        process(c, flavour, [job], 1, 600, results)
    evaluate_all(c, results)
    return c.finish(True, "")


def run_ti_pmf(c, tier):
    """End to end: the 1-D free-energy file written by the thermodynamic-integration estimator of a restraint (writeTIPMF),
    for periodic and non-periodic variables, equals the cumulative sum of minus the bin-averaged forces in the .ti.force file
    written next to it (mean removed for a periodic grid), shifted to a zero minimum."""
    import ctl
    rng = c.rng.__class__(c.seed * 4099 + 3)
    ncases = 6 if tier == "quick" else 40
    cases = []
    for i in range(ncases):
        periodic = (i % 3 != 2)
        w = rng.choice([0.5, 1.0])
        T = 90
        # values on a dyadic grid over the whole range, some bins left empty; force with a non-zero mean
        skip = set(rng.sample(range(int(8 / w)), 2)) if rng.random() < 0.6 else set()
        xs = []
        while len(xs) < T:
            x = ctl.dy(rng, -3.9375, 3.9375, 4)
            if int((x + 4.0) // w) in skip:
                continue
            xs.append(x)
        fs = [ctl.dy(rng, -2.0, 6.0, 4) for _ in range(T)]
        cfg = ctl.cv_d2(-4.0, 4.0, w, cvc_extra=("    period 8.0\n" if periodic else "")) + (
            "harmonic {\n  name h\n  colvars d2\n  centers 0.5\n  forceConstant 0.25\n  writeTIPMF on\n  writeTISamples on\n}\n")
        scn = ctl.header("same", extra="dt 1.0\ntemp 300.0") + "emit atoms off\nmodule\nprefix out\nconfig <<EOC\n" + cfg + "EOC\ninit\n"
        for x, f in zip(xs, fs):
            fe = [[0.0, 0.0, 0.0] for _ in range(ctl.NATOMS)]
            fe[2][2] += f
            fe[3][2] -= f
            scn += ctl.pos_line(d2=x) + "\nfext " + " ".join(fnum(v) for q in fe for v in q) + "\nstep\n"
        scn += "endrun\n"
        cases.append(dict(idx=i, periodic=periodic, w=w, scn=scn, n=int(round(8 / w))))

    def runner(case):
        wd = os.path.join(c.work, "tipmf%d" % case["idx"])
        os.makedirs(wd, exist_ok=True)
        return common.run_esim("plain", case["scn"], wd, "tipmf", timeout=120)

    def col(path, k=1):
        return [float(l.split()[k]) for l in open(path) if l.strip() and not l.startswith("#")]

    for case, (r, ev, sp) in zip(cases, common.pmap(runner, cases)):
        wd = os.path.dirname(sp)
        fp, ff, fc = [os.path.join(wd, "out.h.ti." + e) for e in ("pmf", "force", "count")]
        c.count()
        P = "P" if case["periodic"] else "N"
        if not r["complete"] or not all(os.path.exists(x) for x in (fp, ff, fc)):
            c.inconc("TI free-energy files not written (%s): %s" % (P, r["err"][-200:]))
            continue
        A = col(fp)
        f = col(ff)
        cnt = col(fc)
        n, w = case["n"], case["w"]
        if len(f) != n or len(cnt) != n or len(A) != n + 1 or sum(cnt) < 20:
            c.inconc("TI files have unexpected sizes: %d forces, %d counts, %d surface points for %d bins" % (len(f), len(cnt), len(A), n))
            continue
        g = [-(f[i]) if cnt[i] > 0 else 0.0 for i in range(n)]
        alts = []
        for empty_mode in (0, 1):
            # an empty bin read as a zero mean gradient (0), or left out of the mean of a periodic grid (1)
            if case["periodic"]:
                nz = n if empty_mode == 0 else max(1, sum(1 for x in cnt if x > 0))
                corr = sum(g) / nz
            else:
                corr = 0.0
            a = [0.0]
            for i in range(n):
                a.append(a[-1] + ((g[i] - corr) if (cnt[i] > 0 or empty_mode == 0) else 0.0) * w)
            m = min(a)
            alts.append([x - m for x in a])
        scale = max(1.0, max(abs(x) for x in A))
        dev = min(max(abs(x - y) for x, y in zip(A, a)) for a in alts)
        # the files carry 14 significant digits of the forces and of the surface
        if dev > 1e-10 * scale * n:
            key = "1d:%s:ti_pmf_file:%s" % (P, "closure" if (case["periodic"] and abs(A[-1] - A[0]) > 1e-9 * scale * n) else "cumsum")
            c.violation(key, "%s grid of %d bins: the written .ti.pmf differs from the cumulative sum of minus the bin-averaged forces of "
                        ".ti.force by %.6g; A_n - A_0 = %.6g; %d empty bins" % ("periodic" if case["periodic"] else "non-periodic", n, dev,
                                                                                 A[-1] - A[0], sum(1 for x in cnt if x == 0)), [sp, fp, ff, fc])
            continue
        c.nontrivial("1d|%s|ti_pmf_file|%s" % (P, "empty_bins" if any(x == 0 for x in cnt) else "all_bins_sampled"))
        c.bump("ti_pmf_files_checked")


def run_abf_merge(c, tier):
    """End to end: a two-dimensional ABF / eABF bias is given gradient data through inputPrefix (one stratum of an earlier run:
    .count/.grad, and .zcount/.zgrad/.czar.grad for eABF) and writes its output after a zero-step run (the documented way of
    merging strata) or after a few steps.  For every free-energy file written next to a gradient file (.pmf/.grad and
    .czar.pmf/.czar.grad) the discrete Laplacian of the surface equals the divergence of the gradients of that file (the
    documented Poisson problem with its modified Neumann boundaries, independent implementation below) to the solver's
    tolerance; the surface is not flat when the gradients are not; with the same data in both estimators the two surfaces agree."""
    import ctl
    rng = c.rng.__class__(c.seed * 7919 + 11)
    ncases = 8 if tier == "quick" else 60
    cases = []
    for i in range(ncases):
        nx, ny = rng.randint(5, 14), rng.randint(5, 12)
        wx, wy = rng.choice([0.25, 0.5]), rng.choice([0.25, 0.5, 1.0])
        x0, y0 = rng.choice([1.0, 2.0]), rng.choice([2.0, 3.0])
        a1, a2, a3 = rng.uniform(1.0, 4.0), rng.uniform(0.4, 1.2), rng.uniform(0.3, 0.9)
        cases.append(dict(idx=i, nx=nx, ny=ny, wx=wx, wy=wy, x0=x0, y0=y0, a=(a1, a2, a3), ext=(i % 4 != 3), nsteps=(0 if i % 2 == 0 else 3)))

    def dA(case, x, y):
        a1, a2, a3 = case["a"]
        return (-a1 * a2 * math.sin(a2 * (x - 2.3)) * math.sin(a3 * (y - 1.0)) + 0.3 * (x - 4.0),
                a1 * a3 * math.cos(a2 * (x - 2.3)) * math.cos(a3 * (y - 1.0)))

    def write_in(case, wd):
        def put(name, fn):
            with open(os.path.join(wd, name), "w") as f:
                f.write("# 2\n# %.14e %.14e %d 0\n# %.14e %.14e %d 0\n" % (case["x0"], case["wx"], case["nx"], case["y0"], case["wy"], case["ny"]))
                for i in range(case["nx"]):
                    f.write("\n")
                    for j in range(case["ny"]):
                        x = case["x0"] + (i + 0.5) * case["wx"]
                        y = case["y0"] + (j + 0.5) * case["wy"]
                        f.write(" %.14e %.14e  %s\n" % (x, y, fn(x, y)))
        put("in.count", lambda x, y: "120")
        put("in.grad", lambda x, y: "%.14e %.14e" % dA(case, x, y))
        if case["ext"]:
            put("in.zcount", lambda x, y: "120")
            put("in.zgrad", lambda x, y: "%.14e %.14e" % dA(case, x, y))
            put("in.czar.grad", lambda x, y: "%.14e %.14e" % dA(case, x, y))

    def runner(case):
        wd = os.path.join(c.work, "merge%d" % case["idx"])
        os.makedirs(wd, exist_ok=True)
        write_in(case, wd)
        xl = "  extendedLagrangian on\n  extendedFluctuation 0.1\n  extendedTimeConstant 200\n  extendedTemp 300\n" if case["ext"] else ""

        def cv(name, lo, w, n, a, b):
            return ("colvar {\n  name %s\n  width %s\n  lowerBoundary %s\n  upperBoundary %s\n%s  distance {\n    group1 { atomNumbers %d }\n"
                    "    group2 { atomNumbers %d }\n  }\n}\n" % (name, fnum(w), fnum(lo), fnum(lo + n * w), xl, a, b))
        cfg = (cv("x", case["x0"], case["wx"], case["nx"], 1, 2) + cv("y", case["y0"], case["wy"], case["ny"], 3, 4) +
               "abf {\n  name b\n  colvars x y\n  fullSamples 10\n  inputPrefix in\n  integrateTol 1e-10\n}\n")
        scn = ctl.header("prev", extra="dt 1.0\ntemp 300.0") + "emit atoms off\nmodule\nprefix out\nconfig <<EOC\n" + cfg + "EOC\ninit\n"
        scn += "step\n" * (case["nsteps"] + 1) + "endrun\n"
        case["cfg"] = cfg
        return common.run_esim("plain", scn, wd, "merge", timeout=300)

    def read(path, mult):
        hdr, rows = [], []
        for line in open(path):
            t = line.split()
            if not t:
                continue
            if t[0] == "#":
                hdr.append(t[1:])
            else:
                rows.append([float(v) for v in t])
        sizes = [int(h[2]) for h in hdr[1:3]]
        if len(rows) != sizes[0] * sizes[1]:
            return None, None
        return sizes, [[rows[i * sizes[1] + j][2:2 + mult] for j in range(sizes[1])] for i in range(sizes[0])]

    for case, (r, ev, sp) in zip(cases, common.pmap(runner, cases)):
        wd = os.path.dirname(sp)
        c.count()
        cls = "%s:%s" % ("eabf" if case["ext"] else "abf", "run0" if case["nsteps"] == 0 else "steps")
        cfg_ev = [e for e in ev if e["ev"] in ("config", "init") and (e.get("rc") or e.get("err"))]
        if not r["complete"] or cfg_ev:
            if r["sig"]:
                c.violation("merge:crash:" + cls, "signal %s: %s" % (r["sig"], r["err"][-300:]), [sp], payload={"config": case["cfg"]})
            else:
                c.inconc("merge case %s: %s" % (cls, (cfg_ev[0].get("errs") if cfg_ev else r["err"][-200:])))
            continue
        pairs = [("pmf", "grad")] + ([("czar.pmf", "czar.grad")] if case["ext"] else [])
        surf = {}
        bad = False
        for pn, gn in pairs:
            fp, fg = os.path.join(wd, "out." + pn), os.path.join(wd, "out." + gn)
            if not (os.path.exists(fp) and os.path.exists(fg)):
                c.violation("merge:file_missing:%s:%s" % (pn, cls), "2-D %s with inputPrefix: %s written: %s, %s written: %s" % (
                    cls, "out." + pn, os.path.exists(fp), "out." + gn, os.path.exists(fg)), [sp], payload={"config": case["cfg"]})
                bad = True
                continue
            gs, g = read(fg, 2)
            ps, pm = read(fp, 1)
            NX, NY = case["nx"], case["ny"]
            if gs != [NX, NY] or ps != [NX + 1, NY + 1]:
                c.violation("merge:grid_size:%s:%s" % (pn, cls), "gradient file sizes %s, surface sizes %s for a %dx%d grid" % (gs, ps, NX, NY), [sp, fp, fg])
                bad = True
                continue
            wx, wy = case["wx"], case["wy"]

            def grad(i, j):
                return (0.0, 0.0) if (i < 0 or j < 0 or i >= NX or j >= NY) else g[i][j]
            bn = rn = 0.0
            for i in range(NX + 1):
                for j in range(NY + 1):
                    g11, g01, g00, g10 = grad(i, j), grad(i - 1, j), grad(i - 1, j - 1), grad(i, j - 1)
                    div = 0.5 * ((g10[0] - g00[0] + g11[0] - g01[0]) / wx + (g01[1] - g00[1] + g11[1] - g10[1]) / wy)
                    fx = 0.5 if (j == 0 or j == NY) else 1.0
                    fy = 0.5 if (i == 0 or i == NX) else 1.0
                    a = pm[i][j][0]
                    lap = 0.0
                    if i > 0:
                        lap += fx * (pm[i - 1][j][0] - a) / wx ** 2
                    if i < NX:
                        lap += fx * (pm[i + 1][j][0] - a) / wx ** 2
                    if j > 0:
                        lap += fy * (pm[i][j - 1][0] - a) / wy ** 2
                    if j < NY:
                        lap += fy * (pm[i][j + 1][0] - a) / wy ** 2
                    bn += div * div
                    rn += (lap - div) ** 2
            if bn < 1e-12:
                c.inconc("merge %s: gradients of %s have zero divergence" % (cls, gn))
                bad = True
                continue
            rel = math.sqrt(rn / bn)
            vals = [pm[i][j][0] for i in range(NX + 1) for j in range(NY + 1)]
            surf[pn] = vals
            # the files carry 14 digits; the solver was asked for 1e-10
            if rel > 1e-6:
                c.violation("merge:poisson_residual:%s:%s" % (pn, cls), "2-D %s, %dx%d bins, data from inputPrefix, %d steps: |Lap(out.%s) - div(out.%s)| / |div| = %.3g "
                            "(solver tolerance 1e-10); the surface spans %.4g" % (cls, NX, NY, case["nsteps"], pn, gn, rel, max(vals) - min(vals)),
                            [sp, fp, fg], payload={"config": case["cfg"]})
                bad = True
                continue
            c.bump("merge_surfaces_checked")
        if bad:
            continue
        if case["ext"] and case["nsteps"] == 0 and "pmf" in surf and "czar.pmf" in surf:
            ma = sum(surf["pmf"]) / len(surf["pmf"])
            mb = sum(surf["czar.pmf"]) / len(surf["czar.pmf"])
            dev = max(abs((x - ma) - (y - mb)) for x, y in zip(surf["pmf"], surf["czar.pmf"]))
            if dev > 1e-6 * max(1.0, max(surf["pmf"]) - min(surf["pmf"])):
                c.violation("merge:czar_vs_abf_surface:" + cls, "same gradient data for both estimators, zero-step run: out.czar.pmf differs from out.pmf by %.3g "
                            "(constant removed)" % dev, [sp], payload={"config": case["cfg"]})
                continue
        c.nontrivial("merge|2d|%s" % cls)


def run_czar_customgrid(c, tier):
    """End to end: a one-dimensional eABF bias on a periodic variable (dihedral) whose `grid { ... }` block gives the bias a grid of
    another extent -- and so of another periodicity -- than the variable's own boundaries (a window of the circle, or the whole
    circle for a variable whose boundaries cover a window).  After a short run with imposed values and forces the written
    `.czar.pmf` has one node per bin edge (n+1 nodes) for a non-periodic grid and n for a periodic one, at lower + i*width, and
    equals the cumulative sum of `.czar.grad` times the width (mean gradient removed on a periodic grid), shifted to a zero minimum."""
    import ctl
    rng = c.rng.__class__(c.seed * 6151 + 23)
    ncases = 6 if tier == "quick" else 40
    cases = []
    for i in range(ncases):
        w = rng.choice([10.0, 15.0, 20.0])
        if i % 2 == 0:
            vlo, vhi = -180.0, 180.0
            glo = rng.choice([-90.0, -120.0, -60.0])
            ghi = glo + w * rng.randint(6, 10)
        else:
            vlo, vhi = -60.0, 60.0
            glo, ghi = -180.0, 180.0
        T = 60
        lo_, hi_ = max(glo, -170.0), min(ghi, 170.0)
        xs = [ctl.dy(rng, lo_ + 1.0, hi_ - 1.0, 3) for _ in range(T)]
        fs = [ctl.dy(rng, -3.0, 3.0, 4) for _ in range(T)]
        cases.append(dict(idx=i, w=w, vlo=vlo, vhi=vhi, glo=glo, ghi=ghi, xs=xs, fs=fs, periodic=(ghi - glo == 360.0)))

    def runner(case):
        wd = os.path.join(c.work, "czg%d" % case["idx"])
        os.makedirs(wd, exist_ok=True)
        xl = "  extendedLagrangian on\n  extendedFluctuation 5.0\n  extendedTimeConstant 100\n  extendedTemp 300\n"
        cfg = (ctl.cv_phi(width=case["w"], extra=xl, lower=case["vlo"], upper=case["vhi"]) +
               "abf {\n  name b\n  colvars phi\n  fullSamples 1\n  grid {\n    lowerBoundary %s\n    upperBoundary %s\n    width %s\n  }\n}\n" % (
                   fnum(case["glo"]), fnum(case["ghi"]), fnum(case["w"])))
        scn = ctl.header("prev", extra="dt 1.0\ntemp 300.0") + "emit atoms off\nmodule\nprefix out\nconfig <<EOC\n" + cfg + "EOC\ninit\n"
        for x, f in zip(case["xs"], case["fs"]):
            fe = [[0.0, 0.0, 0.0] for _ in range(ctl.NATOMS)]
            fe[4][2] += f
            fe[7][2] -= f
            scn += ctl.pos_line(phi=x) + "\nfext " + " ".join(fnum(v) for q in fe for v in q) + "\nstep\n"
        scn += "endrun\n"
        case["cfg"] = cfg
        return common.run_esim("plain", scn, wd, "czg", timeout=300)

    def read1(path):
        hdr, rows = [], []
        for line in open(path):
            t = line.split()
            if not t:
                continue
            if t[0] == "#":
                hdr.append(t[1:])
            else:
                rows.append([float(v) for v in t])
        return hdr, rows

    for case, (r, ev, sp) in zip(cases, common.pmap(runner, cases)):
        wd = os.path.dirname(sp)
        c.count()
        cls = "%s_variable:%s_grid" % ("periodic" if case["vhi"] - case["vlo"] == 360.0 else "window", "periodic" if case["periodic"] else "window")
        bad = [e for e in ev if e["ev"] in ("config", "init") and (e.get("rc") or e.get("err"))]
        fp, fg = os.path.join(wd, "out.czar.pmf"), os.path.join(wd, "out.czar.grad")
        if not r["complete"] or bad or not (os.path.exists(fp) and os.path.exists(fg)):
            if r["sig"]:
                c.violation("czar_customgrid:crash:" + cls, "signal %s: %s" % (r["sig"], r["err"][-300:]), [sp], payload={"config": case["cfg"]})
            else:
                c.inconc("eABF custom-grid case %s: %s" % (cls, (bad[0].get("errs") if bad else "files written: %s %s; %s" % (os.path.exists(fp), os.path.exists(fg), r["err"][-200:]))))
            continue
        hg, g = read1(fg)
        hp, pm = read1(fp)
        n = int(round((case["ghi"] - case["glo"]) / case["w"]))
        if len(g) != n:
            c.violation("czar_customgrid:grad_size:" + cls, "out.czar.grad has %d rows; the grid of the bias has %d bins" % (len(g), n), [sp, fg], payload={"config": case["cfg"]})
            continue
        nn = n if case["periodic"] else n + 1
        if len(pm) != nn:
            c.violation("czar_customgrid:pmf_size:" + cls, "out.czar.pmf has %d nodes; a %s grid of %d bins has %d (variable boundaries [%g:%g], grid [%g:%g])" % (
                len(pm), "periodic" if case["periodic"] else "non-periodic", n, nn, case["vlo"], case["vhi"], case["glo"], case["ghi"]), [sp, fp, fg],
                payload={"config": case["cfg"]})
            continue
        gv = [row[1] for row in g]
        if all(v == 0.0 for v in gv):
            c.inconc("eABF custom-grid case %s: no CZAR gradient data" % cls)
            continue
        corr = sum(gv) / n if case["periodic"] else 0.0
        a = [0.0]
        for i in range(n):
            a.append(a[-1] + (gv[i] - corr) * case["w"])
        a = a[:nn]
        m = min(a)
        a = [v - m for v in a]
        A = [row[1] for row in pm]
        scale = max(1.0, max(abs(v) for v in A), max(abs(v) for v in a))
        dev = max(abs(x - y) for x, y in zip(A, a))
        xdev = max(abs(row[0] - (case["glo"] + i * case["w"])) for i, row in enumerate(pm))
        if dev > 1e-9 * scale * n or xdev > 1e-9 * 360.0:
            c.violation("czar_customgrid:surface:" + cls, "out.czar.pmf differs from the cumulative sum of out.czar.grad x width%s by %.4g (abscissae by %.4g); "
                        "grid [%g:%g] width %g, variable boundaries [%g:%g]" % (" (mean removed)" if case["periodic"] else "", dev, xdev, case["glo"], case["ghi"], case["w"],
                                                                            case["vlo"], case["vhi"]), [sp, fp, fg], payload={"config": case["cfg"]})
            continue
        c.nontrivial("czar_customgrid|1d|" + cls)
        c.bump("czar_customgrid_surfaces_checked")


def run(tier, replay):
    c = common.Check(PID, tier)
    c.rule = ("distinct (law, dimension, periodicity pattern, sub-law / smoothing / arrival-order class) with a "
              "conclusive verdict; laws: 1d cumulative sum, resid(ual of the Poisson solve), conv(ergence to an "
              "analytic surface), incr(emental == batch divergence)")
    c.assumptions = [
        "an empty bin of a periodic 1-D grid may be read either as a zero mean gradient or as 'no data' (flat); "
        "either reading is accepted, the surface must close in both",
        "solver-tolerance law: true residual <= 2 tol + 1e-9 (drift of the recursive residual); a consistent "
        "system of nt unknowns not solved within 10000 >= 2 nt iterations counts as not solved",
        "convergence is judged on max-norm error with the mean removed at bin-edge positions lower + i*width",
    ]
    if replay:
        return do_replay(c, replay)
    jobs = plan(c, tier)
    c.use_flavour("plain")
    vbuild.tool("plain", "h_poisson")
    results = []
    process(c, "plain", jobs["conv"], 1, 1200, results)
    process(c, "plain", jobs["1d"], 25, 300, results)
    process(c, "plain", jobs["resid"], 4, 600, results)
    process(c, "plain", jobs["incr"], 6, 600, results)
    process(c, "plain", jobs["e2e"], 1, 600, results)
    run_ti_pmf(c, tier)
    run_abf_merge(c, tier)
    run_czar_customgrid(c, tier)
    # a sample of every workload under ASan+UBSan (fatal reports)
    try:
        vbuild.tool("asan", "h_poisson")
        c.use_flavour("asan")
        th = tier == "thorough"
        small = lambda j: int(np.prod([d[2] + 1 for d in j["dims"]])) <= 3000
        process(c, "asan", jobs["1d"][:100 if th else 25], 25, 600, results)
        process(c, "asan", [j for j in jobs["resid"] if small(j)][:24 if th else 8], 4, 900, results)
        process(c, "asan", [j for j in jobs["incr"] if small(j)][:48 if th else 12], 6, 900, results)
        process(c, "asan", jobs["e2e"][:4 if th else 2], 1, 900, results)
    except RuntimeError as ex:
        c.inconc("asan flavour not available: %s" % ex)
    evaluate_all(c, results)
    missing = [l for l in LAWS if c.extra.get("conclusive_" + l, 0) == 0]
    floor_ok = not missing
    need = {"1d": 20, "resid": 10, "conv": 4, "incr": 10}
    low = [l for l in LAWS if c.extra.get("conclusive_" + l, 0) < need[l]]
    dims_seen = set(k.split("|")[1] for k in c.distinct if k.split("|")[0] in ("resid", "conv", "incr"))
    text = ""
    if missing:
        text = "no conclusive case for law(s) %s" % ",".join(missing)
    elif low:
        floor_ok = False
        text = "too few conclusive cases for law(s) %s" % ",".join(low)
    elif not {"2d", "3d"} <= dims_seen:
        floor_ok = False
        text = "2-D and 3-D not both observed"
    return c.finish(floor_ok, text)


if __name__ == "__main__":
    import sys
    a = common.main_args(sys.argv[1:])
    sys.exit(run(a.tier, a.replay))
