"""C10 - invalid parameter values are reported as errors and are never fatal.

Three parts (DESIGN.md, section C10):

 a. generator   configuration templates (one per component type of corpus.COMPONENTS plus variants, in a colvar with a
                harmonic restraint; every bias family of c03.fam_list() plus ALB / histogramRestraint; colvar-level
                option blocks; module-level keywords).  Every template is parsed into a tree; for every keyword that
                occurs in it, and for every keyword harvested at run time from the sources under test
                (get_keyval / key_lookup in the member functions of the class that parses that block, and of its base
                classes) that is absent, the value is replaced by each class of
                  {0, -1, 1, 2, 2^31-1, 2^31, 2^63-1, 1e30, 1e308, nan, inf, -inf, empty value, keyword removed, list
                   too short / too long, vector with too few / too many components, atom numbers 0 / -1 / beyond the
                   system / duplicated, empty or overlapping groups, non-existent files, boundaries swapped or equal}
                plus seeded pairs of such substitutions.  (Substitutions that are the same in many templates - a
                keyword of a shared base class, the scaffolding of the component templates - are tried in a seeded
                choice of templates; quick runs a stratified sample of about 3800 cases, thorough about 35000.)  Then: init, 0-12 steps on the template's history, savestr,
                `cv printframe`, `cv save`, end of run with an output prefix (output files written).
 b. oracle      one `asan` (ASan+UBSan, reports fatal) esim process per case.  The process must reach the `end` event.
                Death by signal, any sanitizer report (including ASan's allocation-size / rss caps: RLIMIT_AS cannot be
                used with ASan's shadow mapping), an exception escaping the library, or a hang (120 s watchdog, re-run
                once with 10x) is a violation keyed
                     <report kind>:<innermost frame in src/ function@file>:<object type>.<keyword>=<value class>
                An error return / error bits is success.
 c. survivors   S = 2 colvars + 2 biases, steps, then a configuration R that part (a) saw rejected is fed through the
                script interface (`cv config`, preceded by the clear_error() that the Tcl entry point performs), then
                more steps on the same history.  Against a control process that never saw R: step events of S bitwise
                equal (values, energies, colvar and atom forces), number of active atoms equal, object lists equal,
                final state equal, no error bits on the commands after R.
"""
import json
import os
import re
import shutil
import signal

import common
import corpus
import ctl
from common import fnum
from monitors import c03

REPO = common.vbuild.REPO
SRC = os.path.join(REPO, "src")

HANDLES_REPLAY = True   # run(tier, replay) re-runs the saved scenarios under the asan esim and judges them
WATCHDOG = 120
HANG_FACTOR = int(os.environ.get("C10_HANG_FACTOR", "10"))     # second attempt before a hang is reported
NAT = 24          # atoms of every synthetic system (components use 1..22, the controlled system 1..12)
T_HIST = 12       # steps of history available to every template

MYENV = {
    "ASAN_OPTIONS": "abort_on_error=1:detect_leaks=0:allocator_may_return_null=0:max_allocation_size_mb=2000:"
                    "handle_abort=1:hard_rss_limit_mb=3000",
    "UBSAN_OPTIONS": "print_stacktrace=1:halt_on_error=1",
    "OMP_NUM_THREADS": "1",
}

# ---------------------------------------------------------------------------------------------------------------
# configuration text <-> tree
# ---------------------------------------------------------------------------------------------------------------


def parse_cfg(text):
    """nodes: {"k": keyword, "v": value string} or {"k": keyword, "ch": [nodes]}"""
    n = len(text)
    pos = [0]

    def block():
        nodes = []
        while pos[0] < n:
            while pos[0] < n and text[pos[0]] in " \t\r\n":
                pos[0] += 1
            if pos[0] >= n:
                break
            ch = text[pos[0]]
            if ch == "}":
                pos[0] += 1
                return nodes
            if ch == "#":
                while pos[0] < n and text[pos[0]] != "\n":
                    pos[0] += 1
                continue
            s = pos[0]
            while pos[0] < n and text[pos[0]] not in " \t\r\n{}":
                pos[0] += 1
            key = text[s:pos[0]]
            while pos[0] < n and text[pos[0]] in " \t":
                pos[0] += 1
            if pos[0] < n and text[pos[0]] == "{":
                pos[0] += 1
                nodes.append({"k": key, "ch": block()})
            else:
                s = pos[0]
                while pos[0] < n and text[pos[0]] not in "\n}":
                    pos[0] += 1
                nodes.append({"k": key, "v": text[s:pos[0]].strip()})
        return nodes

    return block()


def render(nodes, ind=0):
    out = []
    pad = "  " * ind
    for nd in nodes:
        if "ch" in nd:
            out.append("%s%s {" % (pad, nd["k"]))
            if nd["ch"]:
                out.append(render(nd["ch"], ind + 1))
            out.append("%s}" % pad)
        else:
            out.append(("%s%s %s" % (pad, nd["k"], nd["v"])).rstrip())
    return "\n".join(out)


def clone(nodes):
    return json.loads(json.dumps(nodes))


def node_at(nodes, path):
    nd = None
    cur = nodes
    for i in path:
        nd = cur[i]
        cur = nd.get("ch", [])
    return nd


def children_at(nodes, path):
    return nodes if not path else node_at(nodes, path)["ch"]


# ---------------------------------------------------------------------------------------------------------------
# keyword dictionary harvested from the sources under test
# ---------------------------------------------------------------------------------------------------------------

FUNC_RE = re.compile(r"^(?=\S)[^\n;{}()#]*?((?:\w+::)+)(~?\w+)\s*\(", re.M)
KW_RE = re.compile(r'(?:get_keyval(?:_feature)?|key_lookup)\s*\(\s*(?:[^"();]*?,\s*)?"(\w+)"', re.S)
CLASS_RE = re.compile(r"^\s*class\s+([\w:]+)\s*:\s*([^{;]+)\{", re.M)
NOT_CONFIG_FUNC = re.compile(r"state|restart|change_configuration|energy_difference|^read_|^write_", re.I)


def harvest():
    """-> dict(classkw={class: set(kw)}, parents={class: [class]}, comp={config key: class}, bias={config key: class})"""
    classkw, parents = {}, {}
    comp, bias = {}, {}
    for f in sorted(os.listdir(SRC)):
        p = os.path.join(SRC, f)
        if f.endswith(".h"):
            txt = open(p, errors="replace").read()
            for m in CLASS_RE.finditer(txt):
                cl = m.group(1).split("::")[-1]
                ps = [x.split("::")[-1] for x in re.findall(r"(?:public|protected)\s+(?:virtual\s+)?([\w:]+)", m.group(2))]
                parents.setdefault(cl, [])
                for q in ps:
                    if q not in parents[cl] and q != "virtual":
                        parents[cl].append(q)
        if not f.endswith(".cpp"):
            continue
        txt = open(p, errors="replace").read()
        ms = list(FUNC_RE.finditer(txt))
        for i, m in enumerate(ms):
            cl = m.group(1).rstrip(":").split("::")[-1]
            fn = m.group(2)
            if NOT_CONFIG_FUNC.search(fn):
                continue
            body = txt[m.start():(ms[i + 1].start() if i + 1 < len(ms) else len(txt))]
            for k in KW_RE.findall(body):
                classkw.setdefault(cl, set()).add(k)
        if f == "colvar.cpp":
            for cl, key in re.findall(r'add_component_type<(\w+)>\(\s*"[^"]*",\s*"(\w+)"\)', txt):
                comp[key] = cl
        if f == "colvarmodule.cpp":
            for cl, key in re.findall(r'parse_biases_type<(\w+)>\(\s*conf,\s*"(\w+)"\)', txt):
                bias[key] = cl
    return dict(classkw=classkw, parents=parents, comp=comp, bias=bias)


def class_keywords(H, cl):
    """{keyword: class that parses it} for class cl and its ancestors (the nearest class wins)"""
    out = {}
    seen = set()
    queue = [cl]
    while queue:
        c = queue.pop(0)
        if c in seen:
            continue
        seen.add(c)
        for k in H["classkw"].get(c, ()):
            out.setdefault(k, c)
        queue.extend(H["parents"].get(c, ()))
    return out


# ---------------------------------------------------------------------------------------------------------------
# value classes
# ---------------------------------------------------------------------------------------------------------------

SCALARS = [("zero", "0"), ("neg1", "-1"), ("one", "1"), ("two", "2"), ("i32max", "2147483647"),
           ("i32max1", "2147483648"), ("i64max", "9223372036854775807"),
           ("2p61", "2305843009213693952"), ("2p32", "4294967296"), ("1e30", "1e30"), ("1e308", "1e308"), ("1em5", "1e-5"),
           ("nan", "nan"), ("inf", "inf"), ("neginf", "-inf")]
P0_SCALARS = ("zero", "neg1", "i32max", "1e308")
NUM_RE = re.compile(r"(?<![A-Za-z0-9_.])[-+]?(?:\d+\.?\d*|\.\d+)(?:[eE][-+]?\d+)?(?![A-Za-z0-9_.])")
BOOLS = ("on", "off", "yes", "no", "true", "false")
ATOM_KW = ("atomnumbers", "atomnumbersrange", "donor", "acceptor")
GROUP_MARK = ("atomnumbers", "atomnumbersrange", "dummyatom", "indexgroup")
NOFILE = "/nonexistent-c10/nofile.dat"


def is_file_kw(k):
    kl = k.lower()
    return kl.endswith("file") or kl in ("inputprefix",)


def value_variants(key, val):
    """[(class, new value, priority)] for a keyword that occurs in a template with value `val`"""
    kl = key.lower()
    out = []
    if kl in ATOM_KW:
        if kl == "atomnumbersrange":
            out = [("atom0", "0-3", 0), ("atomneg", "-2-3", 0), ("atombeyond", "%d-%d" % (NAT - 1, NAT + 3), 0),
                   ("reversed", "9-4", 0), ("i32max", "1-2147483647", 1), ("i32max1", "2147483648-2147483650", 1),
                   ("empty", "", 0), ("zero", "0", 1)]
        else:
            toks = val.split()
            first = toks[0] if toks else "1"
            rest = " ".join(toks[1:])
            out = [("atom0", ("0 " + rest).strip(), 0), ("atomneg", ("-1 " + rest).strip(), 0),
                   ("atombeyond", (rest + " %d" % (NAT + 1)).strip(), 0), ("i32max", "2147483647", 0),
                   ("i32max1", "2147483648", 1), ("i64max", "9223372036854775807", 1),
                   ("dup", (val + " " + first).strip(), 0), ("empty", "", 0), ("nan", "nan", 1), ("1e30", "1e30", 1)]
        return out
    if val.lower() in BOOLS:
        t = "off" if val.lower() in ("on", "yes", "true") else "on"
        return [("toggle", t, 0), ("zero", "0", 1), ("empty", "", 1), ("two", "2", 1)]
    if is_file_kw(key):
        return [("nofile", NOFILE, 0), ("empty", "", 0), ("zero", "0", 1)]
    nums = NUM_RE.findall(val)
    if not nums:
        # names (colvars, name, corrFuncWithColvar, ...)
        return [("empty", "", 0), ("nosuch", "nosuch_c10", 0), ("zero", "0", 1), ("neg1", "-1", 1), ("dupname", (val + " " + val.split()[0]).strip(), 1)]
    for cl, lit in SCALARS:
        out.append((cl, NUM_RE.sub(lit, val), 0 if cl in P0_SCALARS else 1))
    out.append(("empty", "", 0))
    if "(" in val:
        vecs = re.findall(r"\([^()]*\)", val)
        if len(vecs) > 1:
            out.append(("short", " ".join(vecs[:-1]), 0))
        out.append(("long", val + " " + vecs[-1], 0))
        out.append(("shortvec", re.sub(r",[^,()]*\)", ")", val), 0))
        out.append(("longvec", re.sub(r"\)", ", 1.0)", val), 0))
        out.append(("emptyvec", re.sub(r"\([^()]*\)", "()", val), 1))
    else:
        toks = val.split()
        if len(toks) > 1:
            out.append(("short", " ".join(toks[:-1]), 0))
        out.append(("long", val + " " + toks[-1], 0))
    return out


def absent_variants(key):
    out = [(cl, lit, 0 if cl in ("zero", "neg1") else 1) for cl, lit in SCALARS]
    out.append(("on", "on", 1))
    if is_file_kw(key):
        out.append(("nofile", NOFILE, 0))
    return out


# ---------------------------------------------------------------------------------------------------------------
# templates
# ---------------------------------------------------------------------------------------------------------------

MODULE_PRELUDE = "colvarsTrajFrequency 1\ncolvarsRestartFrequency 4\n"


def header24(sysm, tfmode, extra="dt 1.0\ntemp 300.0"):
    return corpus.scenario_header(sysm, tfmode=tfmode, extra=extra)


def jitter(rng, pos, amp):
    return [[x + rng.uniform(-amp, amp) for x in p] for p in pos]


def centers_for(rng, cv):
    vt = cv["vtype"]
    if vt == "scalar":
        return fnum(round(rng.uniform(0.5, 4.0), 3))
    if vt == "vec3":
        return corpus.vec_str([round(rng.uniform(-3, 3), 3) for _ in range(3)])
    if vt == "unit3":
        return corpus.vec_str(corpus.random_unit(rng))
    if vt == "quat":
        return corpus.vec_str(corpus.random_quaternion(rng))
    return corpus.vec_str([round(rng.uniform(0, 5), 3) for _ in range(cv["dim"])])


COMP_VARIANTS = [
    ("coordNum", {"variant": "aniso"}, "coordNum_aniso"), ("coordNum", {"variant": "g2center"}, "coordNum_g2center"),
    ("coordNum", {"variant": "pairlist"}, "coordNum_pairlist"), ("coordNum", {"variant": "exps"}, "coordNum_exps"),
    ("selfCoordNum", {"variant": "pairlist"}, "selfCoordNum_pairlist"), ("groupCoord", {"variant": "aniso"}, "groupCoord_aniso"),
    ("distanceZ", {"period": 8.0, "wrap": 0.0, "axis": "axis"}, "distanceZ_period"), ("distanceZ", {"axis": "ref2"}, "distanceZ_ref2"),
    ("distance", {"fit": "fitgroup"}, "distance_fitgroup"), ("distance", {"fit": "rotate"}, "distance_rotate"),
    ("distance", {"dummy": True}, "distance_dummy"), ("rmsd", {"fit": "fitgroup"}, "rmsd_fitgroup"),
    ("gyration", {"fit": "center"}, "gyration_center"), ("cartesian", {"fit": "rotate"}, "cartesian_rotate"),
]


def component_templates(seed):
    out = []
    todo = [(ct, ({"variant": "iso"} if ct == "coordNum" else {}), ct) for ct in corpus.COMPONENTS] + COMP_VARIANTS
    for i, (ct, opts, name) in enumerate(todo):
        rng = common.random.Random(seed * 7919 + 17 * i + 3)
        sysm = corpus.make_system(rng, natoms=NAT)
        pool = list(range(1, NAT - 1))
        cv = corpus.make_colvar(rng, sysm, pool, "cv1", ct, dict(opts), ["width 0.5"])
        tf = bool(cv.get("tf")) and not opts
        text = cv["text"]
        if tf:
            text = text.replace("  width 0.5\n", "  width 0.5\n  outputTotalForce on\n  outputAppliedForce on\n", 1)
        cfg = MODULE_PRELUDE + text + "\nharmonic {\n  colvars cv1\n  centers %s\n  forceConstant 2.5\n}\n" % centers_for(rng, cv)
        steps = []
        for t in range(T_HIST + 1):
            s = corpus.pos_line(jitter(rng, sysm["pos"], 0.2)) + "\n"
            if tf:
                s += corpus.fext_line([[rng.uniform(-2, 2) for _ in range(3)] for _ in range(NAT)]) + "\n"
            steps.append(s + "step\n")
        out.append(dict(name="comp:" + name, kind="comp", header=header24(sysm, "same" if tf else "off"), cfg=parse_cfg(cfg),
                        steps=steps, sysm=sysm))
    return out


def ctl_system(rng):
    """the controlled system of ctl.py on atoms 1..12, twelve more atoms at fixed random places"""
    sysm = corpus.make_system(rng, natoms=NAT, unit_masses=True)
    sysm["charges"] = [0.0] * NAT
    return sysm


def ctl_steps(rng, sysm):
    h = c03.history(rng, T_HIST)
    first = "".join("posa %d %s %s %s\n" % (k + 1, fnum(p[0] + 60.0), fnum(p[1] + 60.0), fnum(p[2] + 60.0))
                    for k, p in enumerate(sysm["pos"]) if k >= ctl.NATOMS)
    steps = [c03.step_lines(h, t) for t in range(T_HIST + 1)]
    steps[0] = first + steps[0]
    return steps


EXTRA_FAMILIES = [
    # an atom group given as a range (reversed / degenerate ranges are substitution classes of atomNumbersRange)
    ("range_group", "colvar {\n  name d1\n  width 0.5\n  distance {\n    group1 { atomNumbersRange 13-16 }\n    group2 { atomNumbers 1 2 }\n  }\n}\n"
                    "harmonic {\n colvars d1\n centers 4.0\n forceConstant 1.0\n}\n", "off"),
    # a two-dimensional grid one of whose dimensions is already large: a large value in the other dimension makes the
    # product of the sizes, not each size, impossible to allocate
    ("hist2d_wide", "colvar {\n  name d1\n  width 0.001\n  lowerBoundary 0.0\n  upperBoundary 100.0\n  distance {\n    group1 { atomNumbers 1 }\n    group2 { atomNumbers 2 }\n  }\n}\n"
                    "colvar {\n  name d2\n  width 1.0\n  lowerBoundary 0.0\n  upperBoundary 10.0\n  distance {\n    group1 { atomNumbers 3 }\n    group2 { atomNumbers 4 }\n  }\n}\n"
                    "histogram {\n colvars d1 d2\n}\n", "off"),
    # a two-dimensional metadynamics grid of which only one dimension expands at run time (the variable starts far outside its
    # boundaries): an absurdly small width makes the expanded dimension acceptable on its own but not its product with the fixed one
    ("meta2d_expand", "colvar {\n  name d1\n  width 0.01\n  lowerBoundary 40.0\n  upperBoundary 40.01\n  expandBoundaries on\n  distance {\n    group1 { atomNumbers 1 }\n    group2 { atomNumbers 2 }\n  }\n}\n"
                      "colvar {\n  name d2\n  width 0.05\n  lowerBoundary 0.0\n  upperBoundary 20.0\n  distance {\n    group1 { atomNumbers 3 }\n    group2 { atomNumbers 4 }\n  }\n}\n"
                      "metadynamics {\n colvars d2 d1\n hillWeight 0.5\n newHillFrequency 2\n hillWidth 2.0\n}\n", "off"),
    ("alb", ctl.cv_d1() + "alb {\n colvars d1\n centers 4.0\n updateFrequency 4\n forceRange 1.0\n rateMax 0.5\n}\n", "off"),
    ("histrest", "colvar {\n  name hv\n  distancePairs {\n    group1 { atomNumbers 1 3 }\n    group2 { atomNumbers 2 4 }\n  }\n}\n"
                 "histogramRestraint {\n colvars hv\n lowerBoundary 0.0\n upperBoundary 40.0\n width 5.0\n gaussianSigma 2.0\n"
                 " refHistogram 0.01 0.02 0.03 0.04 0.05 0.03 0.01 0.01\n forceConstant 2.0\n outputEnergy on\n}\n", "off"),
    ("abf_hist", ctl.cv_d1() + "abf {\n colvars d1\n fullSamples 2\n historyFreq 4\n outputFreq 2\n maxForce 10.0\n integrate on\n}\n", "same"),
    ("eabf_misc", ctl.cv_d1(extra="  extendedLagrangian on\n  extendedFluctuation 0.25\n  extendedTimeConstant 50\n  extendedLangevinDamping 0\n")
                  + "abf {\n colvars d1\n fullSamples 2\n CZARestimator on\n writeCZARwindowFile on\n UIestimator on\n outputFreq 2\n}\n", "prev"),
    ("meta_misc", ctl.cv_d1() + "metadynamics {\n colvars d1\n hillWeight 0.5\n newHillFrequency 2\n hillWidth 2.0\n"
                  " writeFreeEnergyFile on\n keepFreeEnergyFiles on\n writeHillsTrajectory on\n keepHills on\n outputFreq 2\n}\n", "off"),
    ("opes_misc", ctl.cv_d1() + "opes_metad {\n colvars d1\n newHillFrequency 2\n barrier 5.0\n gaussianSigma 0.3\n"
                  " adaptiveSigma off\n pmf on\n pmfColvars d1\n pmfHistoryFrequency 4\n outputFreq 2\n printTrajectoryFrequency 1\n}\n", "off"),
]

# (template, substitution label): see select_cases
PINNED = [("bias:meta2d_expand", r"^colvar\.width=1em5$"), ("bias:hist2d_wide", r"^colvar\.upperBoundary=i32max$")]

XL = "  extendedLagrangian on\n  extendedFluctuation 0.25\n  extendedTimeConstant 50\n"
CVOPT_TEMPLATES = [
    ("grid_meta", ctl.cv_d1(extra="  expandBoundaries on\n  hardLowerBoundary on\n") +
     "metadynamics {\n colvars d1\n hillWeight 0.5\n newHillFrequency 2\n hillWidth 2.0\n}\n", "off"),
    ("grid_abf", ctl.cv_d1(extra="  hardLowerBoundary on\n  hardUpperBoundary on\n") + "abf {\n colvars d1\n fullSamples 2\n}\n", "same"),
    ("grid_hist", ctl.cv_d1() + ctl.cv_d2() + "histogram {\n colvars d1 d2\n outputFreq 2\n}\n", "off"),
    ("extlag", ctl.cv_d1(extra=XL + "  extendedLangevinDamping 1.0\n  extendedTemp 300.0\n  outputVelocity on\n  outputEnergy on\n") +
     "harmonic {\n colvars d1\n centers 5.0\n forceConstant 2.0\n}\n", "off"),
    ("extlag_abf", ctl.cv_d1(extra=XL + "  extendedLangevinDamping 0\n") + "abf {\n colvars d1\n fullSamples 2\n}\n", "prev"),
    ("runave", ctl.cv_d1(extra="  runAve on\n  runAveLength 4\n  runAveStride 1\n  runAveOutputFile ra.dat\n") +
     "harmonic {\n colvars d1\n centers 5.0\n forceConstant 2.0\n}\n", "off"),
    ("corrfunc", ctl.cv_d1(extra="  corrFunc on\n  corrFuncType coordinate\n  corrFuncLength 4\n  corrFuncStride 1\n  corrFuncOffset 0\n"
                                 "  corrFuncNormalize on\n  corrFuncOutputFile cf.dat\n") +
     "harmonic {\n colvars d1\n centers 5.0\n forceConstant 2.0\n}\n", "off"),
    ("corrfunc_vel", ctl.cv_d2(extra="  outputVelocity on\n") +
     ctl.cv_d1(extra="  corrFunc on\n  corrFuncType velocity\n  corrFuncWithColvar d2\n  corrFuncLength 3\n  corrFuncStride 2\n") +
     "harmonic {\n colvars d1\n centers 5.0\n forceConstant 2.0\n}\n", "off"),
    ("tsf", ctl.cv_d1(extra="  timeStepFactor 2\n") + "harmonic {\n colvars d1\n centers 5.0\n forceConstant 2.0\n timeStepFactor 2\n}\n", "off"),
    ("period", ctl.cv_d2(cvc_extra="    period 8.0\n    wrapAround 0.0\n") +
     "metadynamics {\n colvars d2\n hillWeight 0.5\n newHillFrequency 2\n hillWidth 2.0\n}\n", "off"),
    ("outputs", ctl.cv_d1(extra="  outputValue on\n  outputVelocity on\n  outputTotalForce on\n  outputAppliedForce on\n"
                                "  subtractAppliedForce on\n") + "harmonic {\n colvars d1\n centers 5.0\n forceConstant 2.0\n outputEnergy on\n}\n", "same"),
    ("legacy_walls", ctl.cv_d1(extra="  lowerWall 3.0\n  upperWall 6.0\n  lowerWallConstant 2.0\n  upperWallConstant 2.0\n"), "off"),
]


def ctl_templates(seed, work):
    out = []
    fams = [("bias:" + n, cfg, tfm) for (n, cfg, tfm) in list(c03.fam_list()) + EXTRA_FAMILIES]
    fams += [("cvopt:" + n, cfg, tfm) for (n, cfg, tfm) in CVOPT_TEMPLATES]
    ndx = os.path.join(work, "c10_index.ndx")
    with open(ndx, "w") as f:
        f.write("[ grpA ]\n1\n[ grpB ]\n2\n")
    # reference histogram read from a two-column file (x, p(x)); the x column lists the lower edges of the bins
    refh = os.path.join(work, "c10_refhist.dat")
    with open(refh, "w") as f:
        f.write("".join("%s %s\n" % (fnum(5.0 * k), p_) for k, p_ in enumerate("0.01 0.02 0.03 0.04 0.05 0.03 0.01 0.01".split())))
    fams.append(("bias:histrest_file", "colvar {\n  name hv\n  distancePairs {\n    group1 { atomNumbers 1 3 }\n    group2 { atomNumbers 2 4 }\n  }\n}\n"
                 "histogramRestraint {\n colvars hv\n lowerBoundary 0.0\n upperBoundary 40.0\n width 5.0\n gaussianSigma 2.0\n"
                 " refHistogramFile %s\n forceConstant 2.0\n outputEnergy on\n}\n" % refh, "off"))
    fams.append(("module:all", "smp off\nunits real\nindexFile %s\n" % ndx +
                 "colvar {\n  name d1\n  width 0.5\n  lowerBoundary 2.0\n  upperBoundary 8.0\n  distance {\n"
                 "    group1 { indexGroup grpA }\n    group2 { indexGroup grpB }\n  }\n}\n"
                 "harmonic {\n colvars d1\n centers 4.0\n forceConstant 10.0\n}\n", "off"))
    for i, (name, cfg, tfm) in enumerate(fams):
        rng = common.random.Random(seed * 104729 + 31 * i + 7)
        sysm = ctl_system(rng)
        out.append(dict(name=name, kind=name.split(":")[0], header=header24(sysm, tfm, extra="dt 1.0\ntemp 300.0" + c03.hdr_extra(cfg)), cfg=parse_cfg(MODULE_PRELUDE + cfg),
                        steps=ctl_steps(rng, sysm), sysm=sysm))
    return out


# ---------------------------------------------------------------------------------------------------------------
# mutations
# ---------------------------------------------------------------------------------------------------------------

def lower_map(d):
    return {k.lower(): v for k, v in d.items()}


def walk_blocks(H, nodes):
    """yield (path to block ([] = root), object type, class) for every block that holds keywords"""
    comp, bias = lower_map(H["comp"]), lower_map(H["bias"])
    yield [], "module", "colvarmodule"
    for i, nd in enumerate(nodes):
        if "ch" not in nd:
            continue
        kl = nd["k"].lower()
        if kl == "colvar":
            yield [i], "colvar", "colvar"
            for j, c in enumerate(nd["ch"]):
                if "ch" in c and c["k"].lower() in comp:
                    yield [i, j], c["k"], comp[c["k"].lower()]
                    for k, g in enumerate(c["ch"]):
                        if "ch" in g:
                            yield [i, j, k], c["k"] + "/" + g["k"], "atom_group"
                            for m, fg in enumerate(g["ch"]):
                                if "ch" in fg:
                                    yield [i, j, k, m], c["k"] + "/" + g["k"] + "/" + fg["k"], "atom_group"
        elif kl in bias:
            yield [i], nd["k"], bias[kl]


def enumerate_mutations(H, T):
    """every single substitution applicable to template T: list of dicts
       {op, path, key, val, obj, kw, cls, pri}"""
    out = []
    nodes = T["cfg"]
    blocknames = set(k.lower() for k in list(H["comp"]) + list(H["bias"]) + ["colvar"])
    for bpath, obj, cl in walk_blocks(H, nodes):
        ch = children_at(nodes, bpath)
        present = set()
        # module prelude, colvar-level lines and the harmonic restraint are the same in all component templates
        scaffold = T["kind"] == "comp" and cl in ("colvarmodule", "colvar", "colvarbias_restraint_harmonic")
        for i, nd in enumerate(ch):
            if "ch" in nd:
                continue
            present.add(nd["k"].lower())
            for vcl, nv, pri in value_variants(nd["k"], nd["v"]):
                if nv == nd["v"]:
                    continue
                out.append(dict(op="set", path=bpath + [i], key=nd["k"], val=nv, obj=obj, kw=nd["k"], cls=vcl, pri=pri,
                                dk=(("scaffold", obj, nd["k"].lower(), vcl) if scaffold else None)))
        for i, nd in enumerate(ch):
            if "ch" not in nd and not (obj == "module" and T["kind"] != "module"):
                out.append(dict(op="del", path=bpath + [i], key=nd["k"], val="", obj=obj, kw=nd["k"], cls="absent", pri=0,
                                dk=(("scaffold", obj, nd["k"].lower(), "absent") if scaffold else None)))
        # keywords of the class that parses this block, absent from the template
        if T["kind"] == "comp" and obj in ("module", "colvar"):
            kws = {}
        elif T["kind"] == "bias" and obj == "module":
            kws = {"colvarsTrajFrequency": "colvarmodule", "colvarsRestartFrequency": "colvarmodule"}
        else:
            kws = class_keywords(H, cl)
        for k, defcl in sorted(kws.items()):
            if k.lower() in present or k.lower() in blocknames:
                continue
            if any("ch" in nd and nd["k"].lower() == k.lower() for nd in ch):
                continue
            for vcl, nv, pri in absent_variants(k):
                out.append(dict(op="add", path=bpath, key=k, val=nv, obj=obj, kw=k, cls=vcl, pri=pri, absent=True,
                                dk=("add", cl if defcl == cl else "<" + defcl, k.lower(), vcl)))
        # structural: atom groups
        if cl == "atom_group" and any(nd["k"].lower() in GROUP_MARK for nd in ch):
            out.append(dict(op="clear", path=bpath, key="", val="", obj=obj, kw="(group)", cls="emptygroup", pri=0))
            if len(bpath) == 3:
                sibs = children_at(nodes, bpath[:-1])
                for j, s in enumerate(sibs):
                    if j != bpath[-1] and "ch" in s and any(x["k"].lower() == "atomnumbers" for x in s["ch"]):
                        src = [x for x in s["ch"] if x["k"].lower() == "atomnumbers"][0]["v"]
                        out.append(dict(op="setblock", path=bpath, key="", val=[{"k": "atomNumbers", "v": src}], obj=obj,
                                        kw="(group)", cls="overlap", pri=0))
                        break
        # structural: lowerX / upperX pairs
        for i, nd in enumerate(ch):
            if "ch" in nd or not nd["k"].lower().startswith("lower"):
                continue
            rest = nd["k"][5:]
            for j, nu in enumerate(ch):
                if "ch" not in nu and nu["k"].lower() == "upper" + rest.lower():
                    out.append(dict(op="swap", path=bpath + [i], path2=bpath + [j], key="", val="", obj=obj,
                                    kw="lower%s>upper%s" % (rest, rest), cls="swapped", pri=0))
                    out.append(dict(op="set", path=bpath + [i], key=nd["k"], val=nu["v"], obj=obj,
                                    kw="lower%s=upper%s" % (rest, rest), cls="equal", pri=0))
    return out


def apply_mutations(nodes, muts):
    t = clone(nodes)
    adds = []
    for m in muts:
        if m["op"] == "set":
            node_at(t, m["path"])["v"] = m["val"]
        elif m["op"] == "swap":
            a, b = node_at(t, m["path"]), node_at(t, m["path2"])
            a["v"], b["v"] = b["v"], a["v"]
        elif m["op"] == "clear":
            node_at(t, m["path"])["ch"] = []
        elif m["op"] == "setblock":
            node_at(t, m["path"])["ch"] = clone(m["val"])
        elif m["op"] == "add":
            adds.append(m)
        elif m["op"] == "del":
            node_at(t, m["path"])["k"] = "#"      # turned into a comment line: indices of the siblings stay valid
    adds.sort(key=lambda m: 0 if m["path"] else 1)
    for m in adds:     # additions last (module-level ones at the very end): they shift no index used by the others
        ch = children_at(t, m["path"])
        nd = {"k": m["key"], "v": m["val"]}
        if m["path"]:
            ch.append(nd)
        else:
            # module level: before the first block
            first = next((i for i, x in enumerate(ch) if "ch" in x), len(ch))
            ch.insert(first, nd)
    return t


def conflicting(m1, m2):
    p1, p2 = m1["path"], m2["path"]
    if m1["op"] in ("clear", "setblock") and p2[:len(p1)] == p1:
        return True
    if m2["op"] in ("clear", "setblock") and p1[:len(p2)] == p2:
        return True
    if m1["op"] == "add" and m2["op"] == "add" and p1 == p2 and m1["key"].lower() == m2["key"].lower():
        return True
    if m1["op"] != "add" and m2["op"] != "add":
        ps1 = [tuple(p1)] + ([tuple(m1["path2"])] if "path2" in m1 else [])
        ps2 = [tuple(p2)] + ([tuple(m2["path2"])] if "path2" in m2 else [])
        return bool(set(ps1) & set(ps2))
    return False


def mut_label(m):
    return "%s.%s=%s" % (m["obj"], m["kw"], m["cls"])


# ---------------------------------------------------------------------------------------------------------------
# scenarios and the oracle of part (b)
# ---------------------------------------------------------------------------------------------------------------

def pick_nsteps(rng):
    r = rng.random()
    # most failure modes of an accepted value show only after some history has built up (running averages, correlation
    # functions, hill and grid updates): mostly the whole history
    if r < 0.05:
        return 0
    if r < 0.12:
        return rng.choice([1, 2])
    return rng.choice([5, 8, 10, 12, 12, 12, 12])


def scenario(T, cfgtext, nsteps, vmdlike, wd):
    ce = "clearerr\n" if vmdlike else ""
    s = T["header"] + "module\nprefix %s\n" % os.path.join(wd, "out")
    s += "config <<EOC\n" + cfgtext + "\nEOC\nflush\n" + ce + "init\nflush\n"
    for t in range(nsteps):
        s += ce + T["steps"][t] + "flush\n"
    s += ce + "savestr\nflush\n" + ce + 'script ["cv","printframe"]\nflush\n'
    s += ce + 'script ["cv","save","%s"]\nflush\n' % os.path.join(wd, "sv")
    s += ce + "endrun\nflush\n"
    return s


def run_scn(exe, text, wd, name, timeout):
    os.makedirs(wd, exist_ok=True)
    sp = os.path.join(wd, name + ".scn")
    with open(sp, "w") as f:
        f.write(text)
    r = common.run_proc([exe, sp], timeout=timeout, env=MYENV, cwd=wd)
    ev = common.parse_events(r["out"])
    r["complete"] = bool(ev) and ev[-1].get("ev") == "end"
    r["out"] = ""     # events are parsed; do not keep megabytes of state strings alive
    return r, ev, sp


def run_scn_watch(exe, sp, wd, timeout):
    """second attempt at a case that hit the watchdog: on expiry, ask gdb where the process is before killing it"""
    import subprocess
    e = dict(os.environ)
    e.update(common.SAN_ENV)
    e.update(MYENV)
    p = subprocess.Popen([exe, sp], stdout=subprocess.PIPE, stderr=subprocess.PIPE, stdin=subprocess.DEVNULL, env=e, cwd=wd)
    try:
        out, err = p.communicate(timeout=timeout)
        rc = p.returncode
        r = dict(rc=rc, sig=(-rc if rc < 0 else 0), out=out.decode("utf-8", "replace"), err=err.decode("utf-8", "replace"), timeout=False)
        where = ""
    except subprocess.TimeoutExpired:
        g = common.run_proc(["gdb", "-batch", "-p", str(p.pid), "-ex", "bt 30"], timeout=120)
        where = g["out"] + "\n" + g["err"]
        p.kill()
        out, err = p.communicate()
        r = dict(rc=None, sig=0, out=out.decode("utf-8", "replace"), err=err.decode("utf-8", "replace"), timeout=True)
    ev = common.parse_events(r["out"])
    r["complete"] = bool(ev) and ev[-1].get("ev") == "end"
    r["out"] = ""
    return r, ev, where


SIGNAMES = {int(getattr(signal, n)): n for n in dir(signal) if n.startswith("SIG") and not n.startswith("SIG_")}


def report_kind(err):
    """kind of the first sanitizer / runtime report in stderr, or None"""
    m_ub = re.search(r"runtime error: (.*)", err)
    m_as = re.search(r"ERROR: AddressSanitizer:? ([^\n]*)", err)
    if m_ub and (not m_as or m_ub.start() < m_as.start()):
        msg = m_ub.group(1)
        for pat, k in (("division by zero", "division-by-zero"), ("outside the range of representable", "float-cast-overflow"),
                       ("signed integer overflow", "signed-integer-overflow"), ("out of bounds", "index-out-of-bounds"),
                       ("null pointer", "null-pointer"), ("shift", "invalid-shift"), ("not a valid value for type", "invalid-value-load"),
                       ("negation of", "negation-overflow"), ("misaligned", "misaligned"), ("unsigned offset", "pointer-overflow"),
                       ("pointer index expression", "pointer-overflow"), ("vptr", "bad-vptr"), ("unreachable", "unreachable"),
                       ("variable length array", "vla-bound"), ("non-void function", "missing-return")):
            if pat in msg:
                return "ubsan-" + k
        return "ubsan-" + "-".join(re.findall(r"[A-Za-z]+", msg)[:4])
    if m_as:
        msg = m_as.group(1)
        if msg.startswith("requested allocation size"):
            return "asan-allocation-size-too-big"
        if "out of memory" in msg or "failed to allocate" in msg:
            return "asan-out-of-memory"
        if msg.startswith("ABRT"):
            m = re.search(r"terminate called after throwing an instance of '([^']+)'", err)
            return "SIGABRT" + ("-uncaught-" + m.group(1) if m else "")
        return "asan-" + re.findall(r"[\w-]+", msg)[0]
    if re.search(r"rss limit exhausted", err, re.I):
        return "rss-limit"
    if "AddressSanitizer" in err and "out of memory" in err:
        return "asan-out-of-memory"
    return None


def clean_fn(fn):
    """'void colvarparse::mark_key_set_user<bool>(std::string const&, ...)' -> 'colvarparse::mark_key_set_user'"""
    fn = re.sub(r"^\(anonymous namespace\)::", "", fn.strip())
    prev = None
    while prev != fn:                     # drop template arguments, innermost first
        prev = fn
        fn = re.sub(r"<[^<>]*>", "", fn)
    fn = fn.split("(")[0].strip()
    fn = fn.split()[-1] if fn.split() else fn
    return fn[:70]


UTILITY_FILES = ("colvartypes.h", "colvarvalue.h", "colvarvalue.cpp")     # vector / value helpers: the caller is the site


def frame_of(err):
    """innermost frame that lies in the sources under test (helpers of the value types skipped):  function@file"""
    first = None
    for line in err.splitlines():
        ls = line.strip()
        if not re.match(r"#\d+ ", ls):
            if first and re.match(r"(==\d+==|SUMMARY|\S+ runtime error)", ls):
                break                      # end of the first stack of the report
            continue
        m = re.search(r"(\S*/src/(colvar\w*\.(?:cpp|h|cc)))(?=[:,\s]|$)", ls)
        if not m or not m.group(1).startswith(SRC):
            continue
        body = re.sub(r"^#\d+\s+(?:0x[0-9a-fA-F]+\s+in\s+)?", "", ls)
        body = body[:body.index(m.group(1))]
        body = re.sub(r"\s+at\s*$", "", body)      # gdb: "name (args) at file:line"
        fr = "%s@%s" % (clean_fn(body), m.group(2))
        if m.group(2) not in UTILITY_FILES:
            return fr
        first = first or fr
    return first or "?"


def gdb_frame(exe, sp, wd, throw=False):
    """backtrace of the fatal signal, or (throw=True) of the LAST exception thrown before the process ended"""
    env = dict(MYENV)
    env["ASAN_OPTIONS"] = "abort_on_error=1:detect_leaks=0:handle_segv=0:handle_sigfpe=0:handle_abort=0:handle_sigbus=0:" \
                          "allocator_may_return_null=0:max_allocation_size_mb=2000"
    cmd = ["gdb", "-batch"] + (["-ex", "catch throw"] if throw else []) + ["-ex", "run", "-ex", "bt 40"]
    if throw:
        for _ in range(8):     # exceptions caught inside the library come first: keep the last stop
            cmd += ["-ex", "continue", "-ex", "bt 40"]
    cmd += ["--args", exe, sp]
    r = common.run_proc(cmd, timeout=600, env=env, cwd=wd)
    txt = r["out"] + "\n" + r["err"]
    if throw:
        blocks = [b for b in re.split(r"\nCatchpoint \d+ \(exception thrown\)", txt) if re.search(r"^#\d+ ", b, re.M)]
        if blocks:
            txt = blocks[-1]
    return frame_of(txt), txt[-3000:]


PARSER_PAT = re.compile(r'in parsing "|multiple values are not allowed|boolean values only|improper or missing value|'
                        r'is not supported, or not recognized|more than one instance of|unmatched curly|'
                        r'without any configuration|found without configuration|closing brace|reached the end while', re.I)


def judge(exe, r, ev, sp, wd):
    """-> dict(status=ok|violation|timeout|harness, kind, frame, text)"""
    if r["timeout"]:
        return dict(status="timeout")
    kind = report_kind(r["err"])
    exc = [e for e in ev if e.get("ev") == "exception"]
    if kind:
        fr = frame_of(r["err"])
        return dict(status="violation", kind=kind, frame=fr, text=(r["err"][:1500]))
    if exc:
        what = str(exc[0].get("what", ""))
        fr, bt = gdb_frame(exe, sp, wd, throw=True)
        slug = "-".join(re.findall(r"[A-Za-z_:]+", what)[:4])[:50]
        return dict(status="violation", kind="exception-" + slug, frame=fr, text="exception escaped the library: %s\n%s" % (what, bt[-1200:]))
    if r["sig"]:
        fr, bt = gdb_frame(exe, sp, wd)
        return dict(status="violation", kind=SIGNAMES.get(r["sig"], "SIG%d" % r["sig"]), frame=fr,
                    text="killed by signal %d\n%s\n%s" % (r["sig"], r["err"][-600:], bt[-1200:]))
    if r["complete"]:
        return dict(status="ok")
    if r["rc"] == 2 or "esim:" in r["err"]:
        return dict(status="harness", text="esim rejected the scenario: " + r["err"][-300:])
    return dict(status="violation", kind="exit-%s" % r["rc"], frame=frame_of(r["err"]), text="process ended with status %s without "
                "finishing the scenario: %s" % (r["rc"], r["err"][-600:]))


def config_outcome(ev):
    """accepted | rejected_init | rejected_parser | none"""
    cfg = [e for e in ev if e.get("ev") == "config"]
    if not cfg:
        return "none", ""
    e = cfg[0]
    if e.get("rc") == 0 and not e.get("err"):
        return "accepted", ""
    errs = e.get("errs") or []
    first = errs[0] if errs else ""
    if first and PARSER_PAT.search(first):
        return "rejected_parser", first
    return "rejected_init", first


# ---------------------------------------------------------------------------------------------------------------
# part (c): survivors
# ---------------------------------------------------------------------------------------------------------------

S_VARIANTS = [
    ("harm+meta2d", ctl.cv_d1() + ctl.cv_d2() + "harmonic {\n colvars d1\n centers 4.0\n forceConstant 3.0\n}\n"
     "metadynamics {\n colvars d1 d2\n hillWeight 0.5\n newHillFrequency 3\n hillWidth 2.0\n}\n", "off"),
    ("abf+walls", ctl.cv_d1() + ctl.cv_d2() + "abf {\n colvars d1\n fullSamples 2\n}\n"
     "harmonicWalls {\n colvars d2\n lowerWalls -1.0\n upperWalls 1.0\n forceConstant 5.0\n}\n", "same"),
    ("harm_move+hist", ctl.cv_d1() + ctl.cv_d2() + "harmonic {\n colvars d1\n centers 3.0\n targetCenters 7.0\n targetNumSteps 16\n"
     " forceConstant 4.0\n outputAccumulatedWork on\n}\nhistogram {\n colvars d1 d2\n}\n", "off"),
]
S_VARIANTS.append(
    ("indexed", "indexFile idx_a.ndx\ncolvar {\n  name d1\n  width 0.5\n  distance {\n    group1 { indexGroup ga }\n    group2 { indexGroup gb }\n  }\n}\n"
                + ctl.cv_d2() + "harmonic {\n colvars d1\n centers 4.0\n forceConstant 3.0\n}\n"
                "harmonicWalls {\n colvars d2\n lowerWalls -1.0\n upperWalls 1.0\n forceConstant 5.0\n}\n", "off"))
INDEX_FILES = {"idx_a.ndx": "[ ga ]\n1\n[ gb ]\n2\n[ gc ]\n13 14 15\n", "idx_b.ndx": "[ gc ]\n13 14 16\n[ gd ]\n17 18\n"}
V_LATER_INDEXED = ("colvar {\n  name v9\n  distance {\n    group1 { indexGroup gc }\n    group2 { atomNumbers 15 16 }\n  }\n}\n"
                   "harmonic {\n  name hv9\n  colvars v9\n  centers 1.0\n  forceConstant 0.5\n}\n")
S_N1, S_N2 = 4, 10
V_LATER = ("colvar {\n  name v9\n  distance {\n    group1 { atomNumbers 13 14 }\n    group2 { atomNumbers 15 16 }\n  }\n}\n"
           "harmonic {\n  name hv9\n  colvars v9\n  centers 1.0\n  forceConstant 0.5\n}\n")
# rejected configurations that read the deprecated wall keywords of a colvar (which queue an automatically generated
# harmonicWalls block inside the module) before failing
LEGACY_RS = [
    # an index file that gives an already defined group other atoms: rejected, and the groups defined so far stay usable
    ("index_group.redefined", "indexFile idx_b.ndx\n"),
    ("legacy_walls.misspelt_keyword", "colvar {\n  name rj1\n  lowerWall 1.0\n  upperWall 5.0\n  lowerWallConstant 2.0\n  upperWallConstant 2.0\n  noSuchKeyword 1\n"
     "  distance {\n    group1 { atomNumbers 17 }\n    group2 { atomNumbers 18 }\n  }\n}\n"),
    ("legacy_walls.no_component", "colvar {\n  name rj1\n  lowerWall 1.0\n  upperWall 5.0\n  lowerWallConstant 2.0\n  upperWallConstant 2.0\n}\n"),
    ("legacy_walls.bad_atoms", "colvar {\n  name rj1\n  upperWall 5.0\n  upperWallConstant 2.0\n"
     "  distance {\n    group1 { atomNumbers 0 }\n    group2 { atomNumbers 18 }\n  }\n}\n"),
    ("legacy_walls.zero_stride", "colvar {\n  name rj1\n  lowerWall 1.0\n  lowerWallConstant 2.0\n  runAve on\n  runAveStride 0\n"
     "  distance {\n    group1 { atomNumbers 17 }\n    group2 { atomNumbers 18 }\n  }\n}\n"),
    ("legacy_walls.duplicate_name", "colvar {\n  name d1\n  lowerWall 1.0\n  upperWall 5.0\n  lowerWallConstant 2.0\n  upperWallConstant 2.0\n"
     "  distance {\n    group1 { atomNumbers 17 }\n    group2 { atomNumbers 18 }\n  }\n}\n"),
    ("legacy_walls.then_bad_bias", "colvar {\n  name d1\n  lowerWall 1.0\n  lowerWallConstant 2.0\n"
     "  distance {\n    group1 { atomNumbers 17 }\n    group2 { atomNumbers 18 }\n  }\n}\nharmonic {\n  colvars d1\n  centers 1.0\n  forceConstant -1e308\n  targetNumSteps -1\n}\n"),
]
LEGACY_WALLS = ("lowerwall", "upperwall", "lowerwallconstant", "upperwallconstant")
S_FIELDS = ("rc", "err", "en", "af", "nact")


def extract_R(H, T, m):
    """text of the rejected block alone, or None.  Colvar blocks are renamed so that they do not collide with S."""
    if m["op"] == "add" and not m["path"]:
        return "%s %s\n" % (m["key"], m["val"])
    if not m["path"]:
        return None
    t = apply_mutations(T["cfg"], [m])
    top = t[m["path"][0]]
    if "ch" not in top:
        return render([top]) + "\n"
    if top["k"].lower() == "colvar":
        if any(nd["k"].lower() in LEGACY_WALLS for nd in top["ch"]):
            return None      # such a colvar block defines two objects (the colvar and an auto-generated harmonicWalls bias)
        for nd in top["ch"]:
            if "ch" not in nd and nd["k"].lower() == "name":
                nd["v"] = "rj1"
        return render([top]) + "\n"
    if T["kind"] == "comp":
        return None          # the harmonic restraint of a component template refers to a colvar S does not have
    names = [nd["v"].split() for nd in top["ch"] if "ch" not in nd and nd["k"].lower() == "colvars"]
    if names and not set(names[0]) <= {"d1", "d2"}:
        return None
    return render([top]) + "\n"


def interleave_legacy(Rs):
    """every legacy-walls R is tried with every surviving set (the jobs are dealt round-robin over S_VARIANTS)"""
    gen = [r for r in Rs if not r[0].startswith("legacy_walls.")]
    out = []
    for lab, R in LEGACY_RS:
        for vi in range(len(S_VARIANTS)):
            out.append(("%s@%d" % (lab, vi), R, "rejected_init"))
    # len(out) is a multiple of len(S_VARIANTS): job i runs with S_VARIANTS[i % len(S_VARIANTS)]
    return out + gen


def survivor_scn(variant, sysm, steps, R, wd):
    name, cfg, tfm = variant
    os.makedirs(wd, exist_ok=True)
    for fn, txt in INDEX_FILES.items():
        with open(os.path.join(wd, fn), "w") as fh:
            fh.write(txt)
    s = header24(sysm, tfm) + "module\nprefix %s\nconfig <<EOC\n%sEOC\ninit\nflush\n" % (os.path.join(wd, "out"), cfg)
    for t in range(S_N1 + 1):
        s += steps[t]
    s += "flush\nmark before\nclearerr\n"
    if R is not None:
        s += "script %s\nflush\n" % json.dumps(["cv", "config", R])
    s += 'mark after\nclearerr\nscript ["cv","getnumactiveatoms"]\nflush\n'
    for t in range(S_N1 + 1, S_N2 + 1):
        s += steps[t] + "flush\n"
        if t == S_N1 + 2:
            # "the module stays usable": a later, valid configuration (in the control too) is accepted and works
            s += "clearerr\nscript %s\nflush\n" % json.dumps(["cv", "config", V_LATER_INDEXED if name == "indexed" else V_LATER])
    s += 'clearerr\nscript ["cv","list"]\nscript ["cv","list","biases"]\nsavestr\nflush\n'
    return s


def split_events(ev):
    """(events before 'before', events between marks, events after 'after')"""
    ib = next((i for i, e in enumerate(ev) if e.get("ev") == "mark" and e.get("tag") == "before"), None)
    ia = next((i for i, e in enumerate(ev) if e.get("ev") == "mark" and e.get("tag") == "after"), None)
    if ib is None or ia is None:
        return None
    return ev[:ib], ev[ib + 1:ia], ev[ia + 1:]


def compare_survivor(ctrl, test):
    """None, or (class of the difference, text)"""
    if len(ctrl) != len(test):
        return "event_count", "%d events after R vs %d in the control" % (len(test), len(ctrl))
    for a, b in zip(ctrl, test):
        if a.get("ev") != b.get("ev"):
            return "event_kind", "%s vs %s" % (b.get("ev"), a.get("ev"))
        k = a["ev"]
        if k == "step":
            for f in S_FIELDS:
                if a.get(f) != b.get(f):
                    what = {"nact": "active_atoms", "err": "error_bits", "rc": "error_bits", "en": "energy", "af": "atom_forces"}[f]
                    return what, "step %s: %s = %s, control %s" % (a.get("it"), f, str(b.get(f))[:200], str(a.get(f))[:200])
            if set(a.get("cv", {})) != set(b.get("cv", {})) or set(a.get("bias", {})) != set(b.get("bias", {})):
                return "objects_left", "step %s: colvars %s biases %s, control %s %s" % (
                    a.get("it"), sorted(b.get("cv", {})), sorted(b.get("bias", {})), sorted(a.get("cv", {})), sorted(a.get("bias", {})))
            for n, ca in a.get("cv", {}).items():
                cb = b["cv"][n]
                for f in ("x", "xa", "fa", "on"):
                    if ca.get(f) != cb.get(f):
                        return "colvar_" + f, "step %s colvar %s: %s = %s, control %s" % (a.get("it"), n, f, cb.get(f), ca.get(f))
            for n, ba in a.get("bias", {}).items():
                bb = b["bias"][n]
                for f in ("e", "f", "on"):
                    if ba.get(f) != bb.get(f):
                        return "bias_" + f, "step %s bias %s: %s = %s, control %s" % (a.get("it"), n, f, bb.get(f), ba.get(f))
        elif k == "script":
            if a.get("rc") != b.get("rc") or a.get("err") != b.get("err"):
                return "error_bits", "script command after R: rc=%s err=%s errs=%s, control rc=%s err=%s" % (
                    b.get("rc"), b.get("err"), str(b.get("errs"))[:300], a.get("rc"), a.get("err"))
            if a.get("res") != b.get("res"):
                return "objects_left", "script result %r, control %r" % (str(b.get("res"))[:200], str(a.get("res"))[:200])
            if a.get("nact") != b.get("nact"):
                return "active_atoms", "active atoms %s, control %s" % (b.get("nact"), a.get("nact"))
        elif k == "savestr":
            if a.get("state") != b.get("state"):
                return "state", "final state differs from the control's"
    return None


# ---------------------------------------------------------------------------------------------------------------
# driver
# ---------------------------------------------------------------------------------------------------------------

def select_cases(c, H, templates, tier):
    rng = c.rng
    budget = 3800 if tier == "quick" else 40000
    npairs = 300 if tier == "quick" else 6000
    p0, p1 = [], []
    per_t = []
    groups = {}
    for ti, T in enumerate(templates):
        ms = enumerate_mutations(H, T)
        per_t.append(ms)
        for m in ms:
            if m.get("dk"):
                groups.setdefault(m["dk"], []).append((ti, m))
            else:
                (p0 if m["pri"] == 0 else p1).append((ti, m))
    # substitutions that are the same in many templates (a keyword of a shared base class, the common scaffolding of the
    # component templates): a seeded choice of K templates each
    K = 1 if tier == "quick" else 8
    for dk in sorted(groups):
        g = groups[dk]
        for ti, m in (g if len(g) <= K else rng.sample(g, K)):
            (p0 if m["pri"] == 0 else p1).append((ti, m))
    c.extra["candidate_substitutions"] = len(p0) + len(p1)
    c.extra["candidate_substitutions_priority"] = len(p0)
    if os.environ.get("C10_ONLY"):
        pat = re.compile(os.environ["C10_ONLY"])
        p0 = [(ti, m) for ti, m in p0 + p1 if pat.search(templates[ti]["name"] + "|" + mut_label(m))]
        p1 = []
    room = budget - npairs
    # substitutions a template was written for: always part of the sample, in both tiers
    pinned = [(ti, m) for ti, m in p0 + p1 if any(templates[ti]["name"] == n and re.search(pat_, mut_label(m)) and m["op"] != "add"
                                                   for n, pat_ in PINNED)]
    c.extra["pinned_substitutions"] = len(pinned)
    room -= len(pinned)
    if len(p0) > room:
        # stratified: every (object type, keyword, class) once, then random fill
        rng.shuffle(p0)
        # a keyword that occurs in a template is in its working context there (e.g. corrFuncOffset next to corrFunc on):
        # substitutions of existing keywords come before additions of the same (object, keyword, class) elsewhere
        p0.sort(key=lambda tm: 1 if tm[1]["op"] == "add" else 0)
        seen, first, rest = set(), [], []
        for ti, m in p0:
            k = mut_label(m)
            (rest if k in seen else first).append((ti, m))
            seen.add(k)
        sel = (first + rest)[:room] if len(first) <= room else rng.sample(first, room)
    else:
        sel = list(p0)
        k = min(len(p1), room - len(sel))
        sel += rng.sample(p1, k)
    cases = []
    for ti, m in pinned + [tm for tm in sel if not any(tm[0] == p[0] and tm[1] is p[1] for p in pinned)]:
        cases.append(dict(t=ti, muts=[m]))
    if not os.environ.get("C10_ONLY"):
        for _ in range(npairs):
            ti = rng.randrange(len(templates))
            ms = per_t[ti]
            if len(ms) < 2:
                continue
            for _try in range(20):
                a, b = rng.sample(ms, 2)
                if not conflicting(a, b):
                    cases.append(dict(t=ti, muts=[a, b]))
                    break
    for i, cs in enumerate(cases):
        cs["idx"] = i
        cs["nsteps"] = pick_nsteps(rng)
        cs["vmd"] = rng.random() < 0.75
    return cases


def run(tier, replay):
    c = common.Check("C10", tier)
    c.use_flavour("asan")
    c.rule = ("one asan esim process per (template, keyword substitution[s], number of steps, error-clearing mode); distinct = "
              "(object type, keyword, value class) of single substitutions whose configuration was accepted or was rejected by "
              "the object's own init (first error message is not one of the parser's)")
    c.assumptions = ["ASan cannot run under RLIMIT_AS; unbounded allocation is observed through max_allocation_size_mb=2000 "
                     "and hard_rss_limit_mb=3000 instead",
                     "the Tcl entry point of the script interface clears the error state at entry of every command; the "
                     "simulator reproduces that with its `clearerr` command in 3 of 4 cases (and before/after R in part c)",
                     "an exception that leaves the library is counted as fatal (engines do not catch it)",
                     "C10_HANG_FACTOR (default 10) and C10_ONLY (regular expression on 'template|object.keyword=class') are "
                     "debugging aids only; a run with C10_ONLY does not reach the observation floor",
                     "part c feeds configurations that define exactly one object; colvar blocks with the legacy wall keywords "
                     "(which generate a second object, a harmonicWalls bias) are not used as R"]
    exe0 = common.vbuild.tool("asan", "esim")
    exe = os.path.join(c.work, "esim_asan")
    shutil.copy(exe0, exe)          # the cache entry is evicted when /repo changes under a running check

    if replay:
        sps = [os.path.join(replay, f) for f in sorted(os.listdir(replay)) if f.endswith(".scn")] if os.path.isdir(replay) else [replay]
        for sp in sps:
            wd = os.path.join(c.work, "replay")
            r, ev, sp2 = run_scn(exe, open(sp).read(), wd, "replay", WATCHDOG * 10)
            j = judge(exe, r, ev, sp2, wd)
            print("replay %s: %s %s %s" % (sp, j["status"], j.get("kind", ""), j.get("frame", "")))
            if j["status"] == "violation":
                c.violation("replay:%s:%s" % (j["kind"], j["frame"]), j["text"], [sp])
            c.count()
        return c.finish(True, "")

    H = harvest()
    c.extra["harvested_keywords"] = sum(len(v) for v in H["classkw"].values())
    templates = component_templates(c.seed) + ctl_templates(c.seed, c.work)

    # ---- baseline: every template unmodified must be accepted and run to the end
    def base(ti):
        T = templates[ti]
        wd = os.path.join(c.work, "b%d" % ti)
        r, ev, sp = run_scn(exe, scenario(T, render(T["cfg"]), T_HIST, True, wd), wd, "base", WATCHDOG * 3)
        return r, ev, sp, wd

    good = []
    for ti, (r, ev, sp, wd) in enumerate(common.pmap(base, range(len(templates)))):
        T = templates[ti]
        c.count()
        oc, msg = config_outcome(ev)
        j = judge(exe, r, ev, sp, wd)
        if j["status"] == "violation":
            c.violation("%s:%s:template.%s=unmodified" % (j["kind"], j["frame"], T["name"]), j["text"], [sp],
                        payload=render(T["cfg"]))
            continue
        if j["status"] != "ok" or oc != "accepted":
            c.note_set("templates_rejected", "%s: %s" % (T["name"], (msg or j.get("text", j["status"]))[:160]))
            continue
        good.append(ti)
        c.note_set("templates", T["name"])
        shutil.rmtree(wd, ignore_errors=True)
    templates = [templates[i] for i in good]

    cases = select_cases(c, H, templates, tier)

    def do(cs, timeout=WATCHDOG, tag=""):
        T = templates[cs["t"]]
        wd = os.path.join(c.work, "k%d%s" % (cs["idx"], tag))
        cfgtext = render(apply_mutations(T["cfg"], cs["muts"]))
        r, ev, sp = run_scn(exe, scenario(T, cfgtext, cs["nsteps"], cs["vmd"], wd), wd, "case", timeout)
        j = judge(exe, r, ev, sp, wd)
        if j["status"] == "timeout":
            r, ev, where = run_scn_watch(exe, sp, wd, timeout * HANG_FACTOR)
            j = judge(exe, r, ev, sp, wd)
            if j["status"] == "timeout":
                last = [e.get("ev") for e in ev][-1:] or ["start"]
                fr = frame_of(where)
                j = dict(status="violation", kind="hang", frame=(fr if fr != "?" else "after-" + str(last[0])),
                         text="no termination within %d s (first attempt %d s); last event: %s; gdb says:\n%s"
                         % (timeout * HANG_FACTOR, timeout, json.dumps(ev[-1:])[:300], "\n".join(l for l in where.splitlines() if l.startswith("#"))[:1500]))
        oc = config_outcome(ev)
        errs_later = any(e.get("err") or e.get("rc") for e in ev if e.get("ev") in ("init", "step", "endrun", "script"))
        res = dict(j=j, oc=oc[0], msg=oc[1], sp=sp, wd=wd, cfg=cfgtext, errs_later=errs_later, last=(ev[-1].get("ev") if ev else None))
        if j["status"] == "ok":
            shutil.rmtree(wd, ignore_errors=True)
        return res

    results = common.pmap(do, cases)

    seen_keys = {}
    rejected_single = []
    reached = 0

    pending = []

    def record(cs, res, muts):
        pending.append((cs, res, muts))

    def record_now(cs, res, muts):
        j = res["j"]
        key = "%s:%s:%s" % (j["kind"], j["frame"], "+".join(sorted(mut_label(m) for m in muts)))
        c.bump("violating_cases")
        if key in seen_keys:
            seen_keys[key] += 1
            return
        seen_keys[key] = 1
        T = templates[cs["t"]]
        c.note_set("violation_keys", key)
        c.violation(key, "template %s, %d steps: %s" % (T["name"], cs["nsteps"], j["text"]), [res["sp"]],
                    payload={"config": res["cfg"], "substitutions": [mut_label(m) + " -> " + repr(m["val"]) for m in muts],
                             "template": T["name"], "steps": cs["nsteps"], "clear_error_between_commands": cs["vmd"]})

    for cs, res in zip(cases, results):
        c.count()
        j = res["j"]
        T = templates[cs["t"]]
        single = len(cs["muts"]) == 1
        if j["status"] == "harness":
            c.inconc("case %d (%s): %s" % (cs["idx"], "+".join(mut_label(m) for m in cs["muts"]), j.get("text", "")[:200]))
            continue
        if j["status"] == "violation":
            c.bump("outcome_violation")
            if single:
                record(cs, res, cs["muts"])
            else:
                # attribute a pair to one of its members when that member alone reproduces the same failure site
                hit = False
                for k, m in enumerate(cs["muts"]):
                    one = dict(cs, muts=[m])
                    r1 = do(one, tag="_m%d" % k)
                    c.count()
                    if r1["j"]["status"] == "violation" and r1["j"].get("frame") == j.get("frame") and r1["j"].get("kind") == j.get("kind"):
                        record(one, r1, [m])
                        hit = True
                if not hit:
                    record(cs, res, cs["muts"])
            continue
        c.bump("outcome_" + res["oc"])
        if res["oc"] == "accepted" and res["errs_later"]:
            c.bump("accepted_then_error_at_run_time")
        if res["oc"] in ("accepted", "rejected_init"):
            reached += 1
            if single:
                c.nontrivial(mut_label(cs["muts"][0]))
                c.note_set("object_types_reaching_init", cs["muts"][0]["obj"])
        if single and res["oc"] in ("rejected_init", "rejected_parser"):
            rejected_single.append((cs, res))
        if single and cs["idx"] % 97 == 0:
            c.sample({"template": T["name"], "substitution": mut_label(cs["muts"][0]), "value": cs["muts"][0]["val"][:60],
                      "steps": cs["nsteps"], "outcome": res["oc"], "first_error": res["msg"][:120]}, cap=10)
    c.extra["cases_reaching_init"] = reached
    # one witness per failure site first (the number of replays written is capped), then the other keys
    sites = {}
    for item in pending:
        sites.setdefault((item[1]["j"]["kind"], item[1]["j"]["frame"]), []).append(item)
    c.extra["violation_sites"] = ["%s:%s (%d cases)" % (k[0], k[1], len(v)) for k, v in sites.items()]
    for k in list(sites):
        record_now(*sites[k].pop(0))

    def record_rest():
        while any(sites.values()):
            for k in list(sites):
                if sites[k]:
                    record_now(*sites[k].pop(0))

    # ---- part (c)
    nsurv = 150 if tier == "quick" else 900
    c.rng.shuffle(rejected_single)
    rejected_single.sort(key=lambda x: 0 if x[1]["oc"] == "rejected_init" else 1)
    Rs, seenR = [], set()
    for cs, res in rejected_single:
        m = cs["muts"][0]
        lab = mut_label(m)
        if lab in seenR:
            continue
        R = extract_R(H, templates[cs["t"]], m)
        if R is None:
            continue
        seenR.add(lab)
        Rs.append((lab, R, res["oc"]))
        if len(Rs) >= nsurv:
            break
    Rs = interleave_legacy(Rs)
    srng = common.random.Random(c.seed * 31337 + 5)
    ssys = ctl_system(srng)
    ssteps = ctl_steps(srng, ssys)
    controls = {}
    for vi, v in enumerate(S_VARIANTS):
        wd = os.path.join(c.work, "sc%d" % vi)
        r, ev, sp = run_scn(exe, survivor_scn(v, ssys, ssteps, None, wd), wd, "control", WATCHDOG * 3)
        j = judge(exe, r, ev, sp, wd)
        c.count()
        parts = split_events(ev)
        cfg_ok = [e for e in ev if e.get("ev") == "config"]
        if j["status"] == "violation":
            c.violation("%s:%s:survivor-control.%s" % (j["kind"], j["frame"], v[0]), j["text"], [sp])
        elif j["status"] != "ok" or parts is None or not cfg_ok or cfg_ok[0].get("rc") != 0 or any(e.get("err") for e in parts[2] if e.get("ev") == "step"):
            c.inconc("survivor control %s did not run cleanly: %s" % (v[0], (r["err"][-200:] or str([e.get("errs") for e in ev if e.get("errs")])[:300])))
        else:
            controls[vi] = (parts, sp)

    sjobs = [(i, i % len(S_VARIANTS), lab, R, oc) for i, (lab, R, oc) in enumerate(Rs) if (i % len(S_VARIANTS)) in controls]

    def dos(job):
        i, vi, lab, R, oc = job
        wd = os.path.join(c.work, "sv%d" % i)
        r, ev, sp = run_scn(exe, survivor_scn(S_VARIANTS[vi], ssys, ssteps, R, wd), wd, "surv", WATCHDOG)
        if r["timeout"]:
            r, ev, sp = run_scn(exe, survivor_scn(S_VARIANTS[vi], ssys, ssteps, R, wd), wd, "surv", WATCHDOG * HANG_FACTOR)
        j = judge(exe, r, ev, sp, wd) if not r["timeout"] else dict(status="violation", kind="hang", frame="survivor", text="no termination")
        return j, ev, sp, wd

    ncompared = 0
    for job, (j, ev, sp, wd) in zip(sjobs, common.pmap(dos, sjobs)):
        i, vi, lab, R, oc = job
        c.count()
        sname = S_VARIANTS[vi][0]
        if j["status"] == "harness":
            c.inconc("survivor %s: %s" % (lab, j.get("text", "")[:200]))
            continue
        if j["status"] == "violation":
            key = "survivor:%s:%s:%s" % (j["kind"], j["frame"], lab)
            if key not in seen_keys:
                seen_keys[key] = 1
                c.note_set("violation_keys", key)
                c.violation(key, "S=%s, R fed through `cv config`: %s" % (sname, j["text"]), [sp], payload={"R": R})
            continue
        parts = split_events(ev)
        if parts is None:
            c.inconc("survivor %s: marks missing" % lab)
            continue
        mid = [e for e in parts[1] if e.get("ev") == "script"]
        if not mid or (mid[0].get("rc") == 0 and not mid[0].get("err")):
            c.bump("survivor_R_accepted_in_S_context")
            shutil.rmtree(wd, ignore_errors=True)
            continue
        (cb, cm, ca), csp = controls[vi]
        if parts[0] != cb:
            c.inconc("survivor %s: history before R differs from the control (non-deterministic harness?)" % lab)
            continue
        d = compare_survivor(ca, parts[2])
        ncompared += 1
        c.bump("survivor_comparisons")
        c.note_set("survivor_R_kinds", lab.split("=")[0].split(".")[0])
        if d:
            key = "survivor:%s:%s" % (d[0], lab)
            if key not in seen_keys:
                seen_keys[key] = 1
                c.note_set("violation_keys", key)
                c.violation(key, "S=%s; after the rejected configuration R (%s; its error: %s) the surviving objects differ from a "
                            "control that never saw R: %s" % (sname, lab, str(mid[0].get("errs"))[:200], d[1]), [sp, csp],
                            payload={"R": R, "difference": d[1]})
        else:
            shutil.rmtree(wd, ignore_errors=True)
            if ncompared % 40 == 1:
                c.sample({"survivor": sname, "R": lab, "R_error": str(mid[0].get("errs"))[:120], "steps_compared": S_N2 - S_N1}, cap=14)
    record_rest()
    c.extra["distinct_violation_keys"] = len(seen_keys)
    need = 1500 if tier == "quick" else 12000
    return c.finish(reached >= need and ncompared >= 100,
                    "%d cases reached an object's init (need %d), %d survivor comparisons (need 100)" % (reached, need, ncompared))
