"""C11 - State files are crash-consistent and damaged state never crashes the host.

Four parts (DESIGN.md, section C11):

 a. typed round trip through cvm::memory_stream (harness/h_memstream.cpp, plain + asan);
 b. damaged input: every truncation offset (up to a recorded cap, then a stride) and seeded bit flips
    of valid text and binary states of six configurations, loaded by fresh `asan` esim modules.
    Oracle: no signal / sanitizer report / hang; a cut strictly inside an object's block must set
    error bits.  "Inside an object's block" is taken from the structure of the valid state:
      text   - the truncated text contains the opening brace of a top-level block other than the
               leading `configuration {...}` header and does not contain its closing brace;
      binary - at least one byte and not all bytes of the object's serialised record are present
               (records located by the length-prefixed top-level keywords, in the text's order).
    Cuts in the header, between blocks or in trailing white space carry no error requirement.
 c. crash consistency: a `plain` esim child that rewrites its state file periodically is killed at
    every file-system call of the k-th (k >= 2) state write (strace signal injection) and inside
    every write() (LD_PRELOAD shim, shim/partial_write.c); afterwards a fresh process must load
    `<file>` or `<file>.old` without error and the loaded file must be byte-identical to one of the
    states of the uninjected run;
 d. libFuzzer target fuzz/fz_state.cpp (ASan+UBSan) seeded with valid states generated here.

A crash that happens in the step *after* a load that reported an error is outside the statement
(the engine has been told to stop); it is counted in the evidence but is not a violation.
"""
import glob
import hashlib
import json
import os
import re
import shutil
import struct
import subprocess
import time

import common
from common import vbuild

PID = "C11"
TRACE_SET = "openat,write,writev,rename,renameat,renameat2,close,unlink,unlinkat"


# ---------------------------------------------------------------------------------------------
# helpers: crash classification
# ---------------------------------------------------------------------------------------------

def _simplify_sig(sig):
    s = sig.replace("operator<<", "operator_shl").replace("operator>>", "operator_shr")
    s = s.replace("operator<", "operator_lt").replace("operator>", "operator_gt")
    s = s.replace("(anonymous namespace)", "anon")
    for _ in range(30):
        s2 = re.sub(r"<[^<>]*>", "", s)
        if s2 == s:
            break
        s = s2
    s = s.split("(")[0].strip()
    s = s.split(" ")[-1] if s else s
    return s[:70] or "?"


def repo_frame(err):
    """innermost stack frame located in <repo>/src: '<function>@<file>' (no line numbers: stable)"""
    src = os.path.join(vbuild.REPO, "src") + "/"
    for line in err.splitlines():
        m = re.match(r"\s*#\d+ 0x[0-9a-f]+ in (.*) (/\S+?):(\d+)(?::\d+)?\s*$", line)
        if m and m.group(2).startswith(src):
            # '.' instead of '::' because known_findings.txt uses '::' as its field separator
            return "%s@%s" % (_simplify_sig(m.group(1)).replace("::", "."), os.path.basename(m.group(2)))
    return common.colvars_frame(err).replace("::", ".")


UBSAN_CHECKS = [
    ("is outside the range of representable values", "float-cast-overflow"),
    ("signed integer overflow", "signed-integer-overflow"),
    ("negation of", "signed-integer-overflow"),
    ("null pointer passed as argument", "nonnull-attribute"),
    ("division by zero", "division-by-zero"),
    ("out of bounds", "out-of-bounds"),
    ("shift exponent", "shift"),
    ("left shift of", "shift"),
    ("is not a valid value for type", "invalid-value"),
    ("misaligned address", "alignment"),
    ("null pointer", "null"),
    ("overflowed to", "pointer-overflow"),
    ("does not point to an object of type", "vptr"),
]


def ubsan_check(msg):
    """name of the UBSan check from its message (the message itself contains the offending value)"""
    for pat, name in UBSAN_CHECKS:
        if pat in msg:
            return name
    words = re.sub(r"[^a-z ]", "", re.sub(r"[-+]?(inf|nan|\d[\d.e+-]*)", "", msg.lower())).split()
    return "-".join(words[:4]) or "?"


def crash_summary(err):
    ls = [l.strip() for l in err.splitlines()
          if "ERROR:" in l or "runtime error:" in l or "SUMMARY:" in l or "terminate called" in l or "what():" in l]
    return " | ".join(ls)[:700] if ls else err[-500:]


def crash_kind(r):
    """sanitizer / signal kind of a dead process (None if nothing indicates a crash)"""
    err = r.get("err") or ""
    if "libFuzzer: timeout" in err:
        return "timeout"
    if "libFuzzer: out-of-memory" in err:
        return "out-of-memory"
    m = re.search(r"terminate called after throwing an instance of '([^']+)'", err)
    if m:
        return "uncaught-" + m.group(1).replace("std::", "").replace("::", ".")
    m = re.search(r"ERROR: AddressSanitizer: (\S+)", err)
    if m:
        k = m.group(1)
        if k == "requested":
            k = "allocation-size-too-big"
        return "asan-" + k.strip(":")
    m = re.search(r"runtime error: ([^\n]*)", err)
    if m:
        return "ubsan-" + ubsan_check(m.group(1))
    m = re.search(r"terminate called after throwing an instance of '([^']+)'", err)
    if m:
        return "uncaught-" + m.group(1).replace("std::", "").replace("::", ".")
    if "terminate called" in err:
        return "uncaught-exception"
    if "libFuzzer: deadly signal" in err:
        return "deadly-signal"
    if r.get("sig"):
        return "signal%d" % r["sig"]
    return None


# ---------------------------------------------------------------------------------------------
# configurations (single source: the fuzz target) and scenario text
# ---------------------------------------------------------------------------------------------

def load_configs():
    exe = vbuild.tool("fuzz", "fz_state")
    r = common.run_proc([exe], timeout=60, env={"FZ_STATE_DUMP": "1"})
    cfgs = []
    for line in r["out"].splitlines():
        if line.startswith("{"):
            cfgs.append(json.loads(line))
    return cfgs


def scn_head(cfg, binary_env=False, config_text=None):
    ls = ["natoms %d" % cfg["natoms"], "tfmode same", "temp 300", "dt 1.0", "emit atoms off"]
    if binary_env:
        ls.append("env COLVARS_BINARY_RESTART 1")
    ls += ["module", "clearerr", "config <<CFGEND", (config_text or cfg["config"]).rstrip("\n"), "CFGEND",
           "pos " + " ".join(common.fnum(x) for x in cfg["pos"])]
    return ls


def traj_x(rng, n):
    """x coordinate of atom 3 per step: the distance then visits several bins"""
    return [round(rng.uniform(0.5, 4.5) * 1024) / 1024.0 for _ in range(n)]


def gen_states(chk, cfgs):
    """valid text + binary states of every configuration after two different run lengths"""
    wd = os.path.join(chk.work, "gen")
    states = []   # dict(cfg, name, nsteps, text(bytes), bin(bytes))
    jobs = []
    for ci, cfg in enumerate(cfgs):
        for nsteps in (5, 9):
            xs = traj_x(chk.rng, nsteps)
            jobs.append((ci, cfg, nsteps, xs))

    def one(j):
        ci, cfg, nsteps, xs = j
        ls = scn_head(cfg) + ["init"]
        for x in xs:
            ls += ["posa 3 %s 0.25 0" % common.fnum(x), "posa 2 %s 0 0" % common.fnum(0.5 + (x - 2.5) / 16.0), "step"]
        ls += ["savestr", "savebuf"]
        r, ev, sp = common.run_esim("plain", "\n".join(ls) + "\n", wd, "gen_c%d_n%d" % (ci, nsteps), timeout=60)
        txt = binb = None
        bad = None
        for e in ev:
            if e.get("ev") == "config" and (e.get("rc") or e.get("err")):
                bad = "configuration rejected: %s" % e.get("errs")
            if e.get("ev") == "savestr" and e.get("rc") == 0:
                txt = e["state"].encode("latin-1", "replace")
            if e.get("ev") == "savebuf" and e.get("rc") == 0:
                binb = bytes.fromhex(e["hex"])
        if not r["complete"] or txt is None or binb is None or bad:
            return dict(cfg=ci, name=cfg["name"], nsteps=nsteps, error=bad or ("esim rc=%s %s" % (r["rc"], r["err"][-300:])))
        return dict(cfg=ci, name=cfg["name"], nsteps=nsteps, text=txt, bin=binb)

    for s in common.pmap(one, jobs):
        if "error" in s:
            chk.inconc("state generation failed for %s: %s" % (s["name"], s["error"]))
        else:
            states.append(s)
    return states


# ---------------------------------------------------------------------------------------------
# structure of a valid state
# ---------------------------------------------------------------------------------------------

def text_blocks(txt):
    """top-level blocks of a text state: list of (keyword, index of '{', index of matching '}')"""
    s = txt.decode("latin-1")
    blocks = []
    depth = 0
    open_i = None
    for i, ch in enumerate(s):
        if ch == "{":
            if depth == 0:
                open_i = i
            depth += 1
        elif ch == "}":
            depth -= 1
            if depth == 0 and open_i is not None:
                kw = s[:open_i].split()[-1] if s[:open_i].split() else "?"
                blocks.append((kw, open_i, i))
                open_i = None
            if depth < 0:
                return None
    if depth != 0:
        return None
    return blocks


def binary_blocks(binb, keywords):
    """records of the objects in a binary state: list of (keyword, start, end)"""
    pos = 4
    starts = []
    for kw in keywords:
        pat = struct.pack("<Q", len(kw)) + kw.encode()
        i = binb.find(pat, pos)
        if i < 0:
            return None
        starts.append(i)
        pos = i + len(pat)
    out = []
    for k, kw in enumerate(keywords):
        out.append((kw, starts[k], starts[k + 1] if k + 1 < len(starts) else len(binb)))
    return out


def inside_object(fmt, blocks, t):
    """keyword of the object whose block a cut after t bytes falls strictly inside, else None"""
    if fmt == "text":
        for kw, o, c in blocks[1:]:          # blocks[0] is the configuration header
            if o + 1 <= t <= c:
                return kw
    else:
        for kw, a, b in blocks:
            if a < t < b:
                return kw
    return None


# ---------------------------------------------------------------------------------------------
# part a: typed round trip
# ---------------------------------------------------------------------------------------------

def rt_class(t, es):
    if t.startswith("vec_"):
        return "vector:elemsize%d" % es
    return t


def part_roundtrip(chk, tier):
    nseq = 6 if tier == "quick" else 40
    failures = {}      # class -> list of text
    seen_ok = {}       # flavour -> set of (type, len)
    n_elems = 0
    for fl in ("plain", "asan"):
        chk.use_flavour(fl)
        exe = vbuild.tool(fl, "h_memstream")
        r = common.run_proc([exe, "list"], timeout=60)
        combos = [json.loads(l) for l in r["out"].splitlines() if l.startswith("{")]
        if len(combos) < 20:
            chk.inconc("h_memstream list failed (%s)" % fl)
            continue
        seen_ok[fl] = set()

        def solo(c):
            ln = 0 if c["len"] is None else c["len"]
            rr = common.run_proc([exe, "solo", str(chk.seed), c["type"], str(ln)], timeout=120)
            return c, rr

        solo_failed = set()
        for c, rr in common.pmap(solo, combos):
            chk.count()
            n_elems += 1
            chk.nontrivial(("roundtrip", c["type"], c["len"]))
            ev = common.parse_events(rr["out"])
            line = ev[0] if ev and ev[0].get("ev") == "solo" else None
            if rr["timeout"]:
                chk.inconc("h_memstream solo %s timed out" % c["type"])
                continue
            if line is None or rr["rc"] != 0:
                # died: the element class is known from the arguments
                es = {"vec_char": 1, "vec_uchar": 1, "vec_int": 4, "vec_float": 4, "vec_double": 8,
                      "vec_size_t": 8, "vec_rvector": 24}.get(c["type"], 0)
                cls = rt_class(c["type"], es)
                kind = crash_kind(rr) or ("rc%s" % rr["rc"])
                if kind == "ubsan-nonnull-attribute" and c["len"] == 0:
                    # one defect whatever the element type: memcpy() from/to the null data() of an
                    # empty vector (undefined behaviour, harmless without the sanitizer)
                    cls = "empty_vector:null_pointer_memcpy"
                failures.setdefault(cls, []).append("%s len=%s [%s]: process died (%s in %s)" % (
                    c["type"], c["len"], fl, kind, repo_frame(rr["err"])))
                solo_failed.add(cls)
                continue
            el = line["elems"][0]
            ok = el["ok"] and line["stream_good"] and line["exhausted"] and line["write_good"]
            if ok:
                seen_ok[fl].add((c["type"], c["len"]))
            else:
                cls = rt_class(el["t"], el["es"])
                why = el.get("why") or ("buffer not exhausted at the end: written %d, read position %d" % (
                    line["written"], line["read_pos"]) if not line["exhausted"] else "stream not good")
                failures.setdefault(cls, []).append("%s len=%s [%s]: %s" % (c["type"], c["len"], fl, why))
                solo_failed.add(cls)

        # interleaved sequences, two per process
        seq_jobs = [(chk.seed * 100 + k, 2) for k in range((nseq + 1) // 2)]

        def seq(j):
            return j, common.run_proc([exe, "seq", str(j[0]), str(j[1])], timeout=300)

        for j, rr in common.pmap(seq, seq_jobs):
            lines = [e for e in common.parse_events(rr["out"]) if e.get("ev") == "seq"]
            for line in lines:
                chk.bump("roundtrip_sequences")
                first_bad = None
                for el in line["elems"]:
                    if el.get("why") != "skipped":
                        chk.count()
                        n_elems += 1
                    if not el["ok"] and first_bad is None:
                        first_bad = el
                if first_bad is not None:
                    cls = rt_class(first_bad["t"], first_bad["es"])
                    if cls in solo_failed:
                        chk.bump("roundtrip_sequence_failures_explained_by_solo")
                    else:
                        failures.setdefault("sequence:" + cls, []).append(
                            "[%s] seed %d: element %d (%s len=%s) after %d good elements: %s" % (
                                fl, j[0], first_bad["p"], first_bad["t"], first_bad["l"], first_bad["p"],
                                first_bad.get("why")))
                elif not (line["stream_good"] and line["exhausted"] and line["write_good"]):
                    failures.setdefault("sequence:not_exhausted", []).append(
                        "[%s] seed %d: all %d elements equal but written=%d read_pos=%d good=%s" % (
                            fl, j[0], line["n"], line["written"], line["read_pos"], line["stream_good"]))
                if len(chk.samples) < 1 and first_bad is None:
                    chk.sample({"part": "roundtrip", "flavour": fl, "sequence_length": line["n"],
                                "bytes": line["written"],
                                "first_elements": [(e["t"], e["l"]) for e in line["elems"][:12]]})
            if rr["timeout"]:
                chk.inconc("h_memstream seq timed out (%s)" % fl)
            elif rr["rc"] != 0 or len(lines) < j[1]:
                if solo_failed:
                    chk.bump("roundtrip_sequence_failures_explained_by_solo")
                else:
                    failures.setdefault("sequence:crash:%s:%s" % (crash_kind(rr) or "rc%s" % rr["rc"],
                                                                  repo_frame(rr["err"])), []).append(
                        "[%s] seq seed %d died: %s" % (fl, j[0], rr["err"][-400:]))

    for cls, texts in sorted(failures.items()):
        chk.violation("roundtrip:" + cls,
                      "memory_stream round trip fails for %s: %s" % (cls, "; ".join(texts[:8])),
                      payload={"replay": "h_memstream solo %d <type> <len>" % chk.seed, "cases": texts[:40]})
    return dict(n_elems=n_elems, seen_ok=seen_ok, n_failed_classes=len(failures))


# ---------------------------------------------------------------------------------------------
# part b: truncation + bit flips
# ---------------------------------------------------------------------------------------------

def item_scenario(cfg, it):
    ls = scn_head(cfg) + ["init", "mark %s" % it["id"]]
    if it["channel"] == "buffer":
        ls.append("loadbuffile %s" % it["file"])
    else:
        ls.append("load %s" % it["file"][:-len(".colvars.state")])
    ls += ["flush", "clearerr", "step", "flush", "delete"]
    return ls


def eval_batch_output(items, ev):
    """split the events of a (complete or not) run into per-item (load event, step event)"""
    res = {}
    cur = None
    for e in ev:
        if e.get("ev") == "mark":
            cur = e.get("tag")
            res[cur] = {}
        elif cur is not None and e.get("ev") in ("load", "step", "deleted") and e["ev"] not in res[cur]:
            res[cur][e["ev"]] = e
    return res


def part_damaged(chk, tier, cfgs, states):
    chk.use_flavour("asan")
    wd = os.path.join(chk.work, "dmg")
    os.makedirs(wd, exist_ok=True)
    cap = 1500 if tier == "quick" else 10 ** 9
    stride = 7
    nflip = 50 if tier == "quick" else 400
    items = []
    info = {"states": [], "cap": cap, "stride_beyond_cap": stride}
    all_offsets_covered = True
    # the 5-step state of every configuration is truncated; the 9-step one only bit-flipped
    for st in states:
        cfg = cfgs[st["cfg"]]
        tb = text_blocks(st["text"])
        if not tb or tb[0][0] != "configuration":
            chk.inconc("cannot find the blocks of the text state of %s" % st["name"])
            continue
        kws = [b[0] for b in tb[1:]]
        bb = binary_blocks(st["bin"], kws)
        if not bb:
            chk.inconc("cannot find the object records of the binary state of %s" % st["name"])
            continue
        for fmt, data, blocks in (("text", st["text"], tb), ("binary", st["bin"], bb)):
            L = len(data)
            sid = "c%d_n%d_%s" % (st["cfg"], st["nsteps"], fmt)
            offs = []
            if st["nsteps"] == 5:
                offs = list(range(0, min(L, cap))) + list(range(min(L, cap), L, stride))
                if L > cap:
                    all_offsets_covered = False
                info["states"].append({"state": sid, "config": st["name"], "length": L,
                                       "offsets": len(offs), "every_offset": L <= cap,
                                       "objects": [b[0] for b in (blocks[1:] if fmt == "text" else blocks)]})
            channels = ["file"] if fmt == "text" else ["buffer", "file"]
            for t in offs + ([L] if st["nsteps"] == 5 else []):
                for ch in channels:
                    if ch == "file" and fmt == "binary" and t % 3 and t != L:
                        continue      # binary through the file channel: every third offset
                    fn = "%s_t%d.colvars.state" % (sid, t)
                    items.append(dict(id="%s_t%d_%s" % (sid, t, ch), kind="trunc", fmt=fmt, channel=ch, cfg=st["cfg"],
                                      off=t, full=(t == L), file=fn, data=data[:t], name=st["name"],
                                      obj=inside_object(fmt, blocks, t) if t < L else None))
            # bit flips (1-3 bits)
            for k in range(nflip):
                b = bytearray(data)
                nb = chk.rng.choice((1, 1, 1, 2, 3))
                where = []
                for _ in range(nb):
                    p = chk.rng.randrange(L * 8)
                    b[p // 8] ^= 1 << (p % 8)
                    where.append(p)
                fn = "%s_f%d.colvars.state" % (sid, k)
                ch = "file" if fmt == "text" else chk.rng.choice(("buffer", "buffer", "file"))
                items.append(dict(id="%s_f%d_%s" % (sid, k, ch), kind="flip", fmt=fmt, channel=ch, cfg=st["cfg"],
                                  off=where[0] // 8, bits=where, full=False, file=fn, data=bytes(b),
                                  name=st["name"], obj=None))
    # corrupted 8-byte length prefixes of the binary format
    nother = 60 if tier == "quick" else 400
    n_prefix_positions = 0
    for st in states:
        if st["nsteps"] != 5:
            continue
        data = st["bin"]
        L = len(data)
        strs, other = [], []
        for p in range(4, L - 8):
            v = struct.unpack_from("<Q", data, p)[0]
            if 1 <= v <= 4096 and p + 8 + v <= L:
                body = data[p + 8:p + 8 + v]
                if all(32 <= c < 127 or c in (9, 10) for c in body):
                    strs.append(p)
                else:
                    other.append(p)
        if len(other) > nother:
            other = sorted(chk.rng.sample(other, nother))
        sid = "c%d_n%d_binary" % (st["cfg"], st["nsteps"])
        for p in strs + other:
            n_prefix_positions += 1
            for vi, val in enumerate(((1 << 61), (1 << 63), (1 << 64) - 1, (1 << 32), L)):
                b = bytearray(data)
                b[p:p + 8] = struct.pack("<Q", val)
                fn = "%s_p%d_%d.colvars.state" % (sid, p, vi)
                ch = "buffer" if (p + vi) % 3 else "file"
                items.append(dict(id="%s_p%d_%d_%s" % (sid, p, vi, ch), kind="prefix", fmt="binary", channel=ch,
                                  cfg=st["cfg"], off=p, full=False, file=fn, data=bytes(b), name=st["name"], obj=None))
    info["length_prefix_positions"] = n_prefix_positions

    written = set()
    for it in items:
        if it["file"] not in written:
            with open(os.path.join(wd, it["file"]), "wb") as f:
                f.write(it["data"])
            written.add(it["file"])
        it.pop("data")

    # batches of items of the same configuration
    bsize = 24
    by_cfg = {}
    for it in items:
        by_cfg.setdefault(it["cfg"], []).append(it)
    batches = []
    for ci, lst in by_cfg.items():
        for i in range(0, len(lst), bsize):
            batches.append(lst[i:i + bsize])

    def run_items(lst, name, timeout):
        ls = []
        for it in lst:
            ls += item_scenario(cfgs[it["cfg"]], it)
        r, ev, sp = common.run_esim("asan", "\n".join(ls) + "\n", wd, name, timeout=timeout)
        return r, ev, sp

    def run_batch(b):
        r, ev, sp = run_items(b[1], "batch%04d" % b[0], 300)
        return b[1], r, ev

    results = {}    # id -> dict(load=..., step=..., dead=None|dict)
    redo = []
    for lst, r, ev in common.pmap(run_batch, list(enumerate(batches))):
        per = eval_batch_output(lst, ev)
        if r["complete"] and r["rc"] == 0 and all(("load" in per.get(it["id"], {})) for it in lst):
            for it in lst:
                results[it["id"]] = dict(per[it["id"]], dead=None)
        else:
            redo += lst
    chk.bump("damaged_items_rerun_one_per_process", len(redo))

    def run_single(it):
        r, ev, sp = run_items([it], "single_" + it["id"], 60)
        if r["timeout"]:
            r, ev, sp = run_items([it], "single_" + it["id"], 600)   # 10x before calling it a hang
        return it, r, ev, sp

    for it, r, ev, sp in common.pmap(run_single, redo):
        per = eval_batch_output([it], ev).get(it["id"], {})
        dead = None
        if not (r["complete"] and r["rc"] == 0):
            exc = [e for e in ev if e.get("ev") == "exception"]
            if r["timeout"]:
                kind, frame, msg = "hang", repo_frame(r["err"]), "no termination within 600 s"
            elif exc:
                # esim catches what the library throws; a real engine would be terminated by it.
                # The same bytes through the fuzz target (no handler) give the throwing frame.
                what = str(exc[0].get("what"))
                kind = "uncaught-exception"
                frame = re.sub(r"[\s\d]", "", re.split(r":\s", what)[0]).replace("::", ".")[:40] or "?"
                msg = "C++ exception escapes the library: " + what
                try:
                    fin = os.path.join(wd, "fz_" + it["id"])
                    with open(fin, "wb") as f:
                        f.write(bytes([it["cfg"], 1 if it["fmt"] == "binary" else 0]) + open(os.path.join(wd, it["file"]), "rb").read())
                    fr = common.run_proc([vbuild.tool("fuzz", "fz_state"), "-timeout=60", fin], timeout=200, env=fuzz_env(), cwd=wd)
                    if fr["rc"] not in (0, None) and crash_kind(fr) and crash_kind(fr).startswith("uncaught-"):
                        kind, frame = crash_kind(fr), repo_frame(fr["err"])
                except OSError:
                    pass
            else:
                kind, frame, msg = (crash_kind(r) or "rc%s" % r["rc"]), repo_frame(r["err"]), crash_summary(r["err"])
            dead = dict(kind=kind, frame=frame, err=msg, scn=sp)
        results[it["id"]] = dict(per, dead=dead)

    # verdicts
    viol = {}       # key -> dict(text list, files)
    n_trunc = n_flip = n_must = n_must_ok = 0
    accepted_outside = 0
    # a valid state that is itself rejected cannot support the error oracle (that is a restart-fidelity
    # defect, not C11's subject): its truncations are then judged by the no-crash oracle only
    vacuous = set()
    for it in items:
        if it["full"]:
            ld = (results.get(it["id"]) or {}).get("load")
            if ld is not None and (ld.get("err") or ld.get("rc")):
                vacuous.add((it["cfg"], it["fmt"]))
                chk.note_set("complete_valid_state_rejected_error_oracle_not_applied",
                             "%s %s via %s: %s" % (it["name"], it["fmt"], it["channel"], str((ld.get("errs") or [""])[-1])[:160]))
    for it in items:
        res = results.get(it["id"])
        if res is None:
            chk.inconc("no result for damaged item %s" % it["id"])
            continue
        chk.count()
        if it["kind"] == "trunc":
            n_trunc += 1
            chk.nontrivial(("trunc", it["off"], it["fmt"], it["name"]))
        elif it["kind"] == "prefix":
            chk.bump("length_prefix_corruptions")
        else:
            n_flip += 1
            chk.bump("bit_flip_cases")
        ld = res.get("load")
        rejected = ld is not None and (ld.get("err") or ld.get("rc"))
        d = res.get("dead")
        label = {"trunc": "truncation", "flip": "bit flip", "prefix": "corrupted 8-byte length prefix"}[it["kind"]]
        if d is not None:
            if ld is not None and rejected:
                chk.bump("crash_after_rejected_load_not_a_violation")
                chk.note_set("crash_after_rejected_load", "%s %s %s" % (it["fmt"], d["kind"], d["frame"]))
                continue
            phase = "during the load" if ld is None else "in the step after the load was accepted"
            key = "damaged:%s:%s:%s" % (d["kind"], d["frame"], it["fmt"])
            v = damaged_table(chk).setdefault(key, dict(texts=[], files=[]))
            if len(v["files"]) < 4:
                v["files"] += [d["scn"], os.path.join(wd, it["file"])]
            v["texts"].append("%s of the %s state of %s at byte %d (channel %s), %s: %s" % (
                label, it["fmt"], it["name"], it["off"], it["channel"], phase, d["err"][-400:].replace("\n", " | ")))
            continue
        if it["full"]:
            if not rejected:
                chk.bump("complete_states_loaded_ok")
            continue
        if it["kind"] == "trunc":
            if it["obj"] and (it["cfg"], it["fmt"]) not in vacuous:
                n_must += 1
                if rejected:
                    n_must_ok += 1
                else:
                    key = "truncation:%s:accepted:%s" % (it["fmt"], it["obj"])
                    if key not in viol:
                        rs = os.path.join(wd, "accepted_%s.scn" % it["id"])
                        with open(rs, "w") as f:
                            f.write("\n".join(item_scenario(cfgs[it["cfg"]], it)) + "\n")
                        viol[key] = dict(texts=[], offs=[], files=[rs, os.path.join(wd, it["file"])],
                                         name=it["name"], channels=set())
                    v = viol[key]
                    v["offs"].append((it["name"], it["off"]))
                    v["channels"].add(it["channel"])
            elif not rejected:
                accepted_outside += 1

    for key, v in sorted(viol.items()):
        if True:
            by = {}
            for n, o in v["offs"]:
                by.setdefault(n, []).append(o)
            txt = "a %s state cut inside the block of object '%s' is accepted without any error (channels: %s); offsets (bytes kept) per configuration: %s" % (
                key.split(":")[1], key.split(":")[-1], ",".join(sorted(v["channels"])),
                "; ".join("%s: %s" % (n, ranges(os_)) for n, os_ in sorted(by.items())))
            # a replayable scenario for the first offset
            files = list(v["files"])
        chk.violation(key, txt, files=files, payload={"how": "esim(asan): config + init + load of the attached state file"})

    chk.extra["truncation"] = dict(info, truncations=n_trunc, bit_flips=n_flip, cuts_inside_object_blocks=n_must,
                                   of_which_reported_as_error=n_must_ok,
                                   cuts_outside_blocks_accepted_silently=accepted_outside,
                                   every_offset_of_every_state=all_offsets_covered)
    if states:
        st = states[0]
        chk.sample({"part": "truncation", "config": st["name"],
                    "text_blocks": [(k, o, c) for k, o, c in (text_blocks(st["text"]) or [])]})
    return dict(n_trunc=n_trunc, n_flip=n_flip, n_must=n_must, fmts=set(i["fmt"] for i in items))


def damaged_table(chk):
    """crashes on damaged input found by parts b and d, keyed by sanitizer kind + innermost library frame"""
    if not hasattr(chk, "_damaged"):
        chk._damaged = {}
    return chk._damaged


def emit_damaged(chk, ncfg):
    for key, v in sorted(damaged_table(chk).items()):
        chk.violation(key, "%d case(s) of damaged state input take the host down (%s); e.g. %s" % (
            len(v["texts"]), key[len("damaged:"):], " || ".join(v["texts"][:3])),
            files=v["files"],
            payload={"replay": "*.scn: esim (asan flavour) in this directory; crash-*/timeout-*: fz_state <file> (fuzz flavour), "
                               "byte0 %% %d = configuration, byte1&1 = binary" % ncfg, "cases": v["texts"][:30]})
    chk._damaged = {}


def ranges(xs):
    xs = sorted(set(xs))
    out = []
    i = 0
    while i < len(xs):
        j = i
        while j + 1 < len(xs) and xs[j + 1] == xs[j] + 1:
            j += 1
        out.append("%d" % xs[i] if i == j else "%d-%d" % (xs[i], xs[j]))
        i = j + 1
    s = ",".join(out[:12])
    return s + (",... (%d offsets)" % len(xs) if len(out) > 12 else "")


# ---------------------------------------------------------------------------------------------
# part c: crash consistency
# ---------------------------------------------------------------------------------------------

CRASH_CFG = """colvarsTrajFrequency 0
colvar {
  name d
  width %(width)s
  lowerBoundary 0.0
  upperBoundary 4.0
  distance {
    group1 { atomNumbers 1 2 }
    group2 { atomNumbers 3 4 }
  }
}
abf {
  name a
  colvars d
  fullSamples 2
  historyFreq 0
}
harmonic {
  name h
  colvars d
  centers 1.0
  targetCenters 3.0
  targetNumSteps 100
  forceConstant 2.0
}
metadynamics {
  name m
  colvars d
  hillWeight 0.1
  hillWidth 1.0
  newHillFrequency 2
  keepHills on
}
"""


def parse_trace(path):
    calls = []
    try:
        lines = open(path, errors="replace").read().splitlines()
    except OSError:
        return None, "no trace"
    for ln in lines:
        m = re.match(r"^(\d+)\s+(\w+)\((.*)\)\s+= (-?\d+|\?)(.*)$", ln)
        if m:
            calls.append(dict(pid=m.group(1), name=m.group(2), args=m.group(3), ret=m.group(4), line=ln))
        elif "unfinished" in ln or "resumed" in ln:
            return None, "interleaved trace"
        elif "+++ killed by" in ln or "+++ exited" in ln or "--- SIG" in ln:
            calls.append(dict(pid=ln.split()[0], name="+++", args=ln, ret="", line=ln))
    return calls, None


def state_calls(calls, fname):
    """calls that touch <fname> (or <fname>.old), annotated with ordinal among same-name calls"""
    fdpath = {}
    counts = {}
    out = []
    for c in calls:
        if c["name"] == "+++":
            continue
        counts[c["name"]] = counts.get(c["name"], 0) + 1
        c["ordinal"] = counts[c["name"]]
        touch = False
        if c["name"] == "openat":
            m = re.search(r'"([^"]*)"', c["args"])
            p = m.group(1) if m else ""
            if c["ret"].lstrip("-").isdigit() and int(c["ret"]) >= 0:
                fdpath[int(c["ret"])] = p
            touch = os.path.basename(p) in (fname, fname + ".old")
        elif c["name"].startswith("rename") or c["name"].startswith("unlink"):
            ps = re.findall(r'"([^"]*)"', c["args"])
            touch = any(os.path.basename(p) in (fname, fname + ".old") for p in ps)
        elif c["name"] in ("write", "writev", "close"):
            m = re.match(r"(\d+)", c["args"])
            fd = int(m.group(1)) if m else -1
            touch = os.path.basename(fdpath.get(fd, "")) in (fname, fname + ".old")
            if c["name"] == "close":
                fdpath.pop(fd, None)
        if touch:
            out.append(c)
    return out


def group_writes(scalls):
    groups = []
    cur = None
    for c in scalls:
        if c["name"].startswith("rename") or c["name"].startswith("unlink"):
            cur = [c]
            groups.append(cur)
        elif c["name"] == "openat":
            if cur is None or any(x["name"] == "openat" for x in cur):
                cur = [c]
                groups.append(cur)
            else:
                cur.append(c)
        elif cur is not None:
            cur.append(c)
    return groups


def short_call(c):
    a = c["args"]
    a = re.sub(r'"((?:[^"\\]|\\.){0,24})(?:[^"\\]|\\.)*"\.\.\.', r'"\1"...', a)
    return "%s(%s) = %s" % (c["name"], a[:90], c["ret"])


def part_crash(chk, tier, cfg0):
    chk.use_flavour("plain")
    wd = os.path.join(chk.work, "crash")
    os.makedirs(wd, exist_ok=True)
    exe = vbuild.tool("plain", "esim")
    strace = shutil.which("strace")
    if not strace:
        chk.inconc("strace not available")
        return dict(points=0)
    # the shim
    so = os.path.join(wd, "partial_write.so")
    r = common.run_proc(["gcc", "-O1", "-shared", "-fPIC", "-o", so,
                         os.path.join(common.VERIF, "shim", "partial_write.c"), "-ldl"], timeout=120)
    have_shim = (r["rc"] == 0 and os.path.exists(so))
    if not have_shim:
        chk.inconc("cannot build shim/partial_write.c: %s" % r["err"][-300:])

    rfreq = 2
    nsteps = 7 if tier == "quick" else 13           # steps 0..6 / 0..12
    width = "0.02" if tier == "quick" else "0.01"   # > 8 KiB of state: several write() calls per file
    cfg = dict(cfg0, config=CRASH_CFG % {"width": width})
    xs = traj_x(chk.rng, nsteps)
    families = [(v, f) for v in ("rst", "out") for f in ("text", "binary")]

    def scenario(variant, fmt, upto=None):
        """upto: number of steps after which the process aborts (None: full run with endrun)"""
        ls = scn_head(cfg, binary_env=(fmt == "binary")) + ["prefix out"]
        if variant == "rst":
            ls.append("rprefix rst")
        ls += ["rfreq %d" % rfreq, "init"]
        for i, x in enumerate(xs):
            if upto is not None and i >= upto:
                break
            ls += ["posa 3 %s 0.25 0" % common.fnum(x), "step"]
        ls.append("abort_here" if upto is not None else "endrun")
        return "\n".join(ls) + "\n"

    def loader_scenario(fmt):
        return "\n".join(scn_head(cfg) + ["init", "load cand", "flush", "savestr"]) + "\n"

    def fresh(d):
        shutil.rmtree(d, ignore_errors=True)
        os.makedirs(d)
        return d

    total_points = 0
    fired_points = 0
    all_covered = True
    fam_summaries = []

    for variant, fmt in families:
        fam = "%s_%s" % (variant, fmt)
        fname = "%s.colvars.state" % variant
        fd = fresh(os.path.join(wd, fam))
        scn = os.path.join(fd, "run.scn")
        with open(scn, "w") as f:
            f.write(scenario(variant, fmt))
        # 1. uninjected, traced
        bd = fresh(os.path.join(fd, "base"))
        tr = os.path.join(bd, "trace.txt")
        r = common.run_proc([strace, "-f", "-e", "trace=" + TRACE_SET, "-o", tr, exe, scn], timeout=120, cwd=bd)
        calls, why = parse_trace(tr)
        if r["rc"] != 0 or calls is None:
            chk.inconc("traced baseline of %s failed: rc=%s %s %s" % (fam, r["rc"], why, r["err"][-200:]))
            all_covered = False
            continue
        scalls = state_calls(calls, fname)
        groups = group_writes(scalls)
        if len(groups) < 2 or any(g[-1]["name"] != "close" for g in groups):
            chk.inconc("unexpected call structure for %s: %s" % (fam, [short_call(c) for c in scalls][:12]))
            all_covered = False
            continue
        # 2. reference states: the file after each completed write
        refs = {}     # sha -> label
        ref_bytes = {}

        def ref_run(k):
            # write k (1-based) of the periodic file happens in the step with it == k*rfreq, i.e. after
            # k*rfreq+1 "step" commands; the final write (variant out) happens at endrun
            rd = fresh(os.path.join(fd, "ref%d" % k))
            rs = os.path.join(rd, "ref.scn")
            with open(rs, "w") as f:
                f.write(scenario(variant, fmt, upto=k * rfreq + 1))
            common.run_proc([exe, rs], timeout=120, cwd=rd)
            p = os.path.join(rd, fname)
            return k, (open(p, "rb").read() if os.path.exists(p) else None)

        nperiodic = (nsteps - 1) // rfreq
        for k, b in common.pmap(ref_run, list(range(1, nperiodic + 1))):
            if b:
                refs[hashlib.sha256(b).hexdigest()] = "write%d(step %d)" % (k, k * rfreq)
                ref_bytes["write%d" % k] = len(b)
        for nm in (fname, fname + ".old"):
            p = os.path.join(bd, nm)
            if os.path.exists(p):
                b = open(p, "rb").read()
                h = hashlib.sha256(b).hexdigest()
                if h not in refs:
                    refs[h] = "final:" + nm
        expected_refs = nperiodic + (1 if variant == "out" else 0)
        # (the final write at endrun repeats the content of the last periodic write)
        if len(groups) != expected_refs or len(refs) < nperiodic:
            chk.inconc("%s: %d state writes traced, %d expected, %d distinct reference states" % (
                fam, len(groups), expected_refs, len(refs)))
            all_covered = False
            continue

        # 3. crash points: every call of every write k >= 2, and inside every write()
        points = []
        write_index = 0     # index among write/writev calls on the state file (for the shim)
        for gi, g in enumerate(groups):
            for ci, c in enumerate(g):
                is_w = c["name"] in ("write", "writev")
                if is_w:
                    write_index += 1
                if gi == 0:
                    continue      # before the first state is complete nothing is promised
                points.append(dict(fam=fam, k=gi + 1, idx=ci, mode="kill", call=c, label="kill@%s#%d" % (c["name"], ci)))
                if is_w and have_shim and c["ret"].isdigit():
                    ln = int(c["ret"])
                    for m in sorted(set([0, 1, ln // 2, ln - 1])):
                        if 0 <= m < ln:
                            points.append(dict(fam=fam, k=gi + 1, idx=ci, mode="partial", call=c, nth=write_index,
                                               keep=m, length=ln, label="partial@%s#%d:%d/%d" % (c["name"], ci, m, ln)))
        total_points += len(points)

        def run_point(pt):
            pd = fresh(os.path.join(fd, "p%d_%d_%s%s" % (pt["k"], pt["idx"], pt["mode"],
                                                         ("_%d" % pt["keep"]) if pt["mode"] == "partial" else "")))
            c = pt["call"]
            fired = False
            why = ""
            if pt["mode"] == "kill":
                tr2 = os.path.join(pd, "trace.txt")
                rr = common.run_proc([strace, "-f", "-e", "trace=" + TRACE_SET, "-e",
                                      "inject=%s:signal=KILL:when=%d" % (c["name"], c["ordinal"]),
                                      "-o", tr2, exe, scn], timeout=120, cwd=pd)
                cl, _ = parse_trace(tr2)
                if cl and len(cl) >= 2 and cl[-1]["name"] == "+++" and "killed by SIGKILL" in cl[-1]["line"]:
                    last = cl[-2]
                    same = [x for x in cl if x["name"] == c["name"]]
                    a0 = re.sub(r"\)?\s*$", "", c["args"])[:40]
                    fired = (last["name"] == c["name"] and len(same) == c["ordinal"] and last["args"][:40] == a0)
                    if not fired:
                        why = "killed at an unexpected call: %s" % last["line"][:120]
                else:
                    why = "process was not killed (rc=%s)" % rr["rc"]
            else:
                mk = os.path.join(pd, "marker.txt")
                rr = common.run_proc([exe, scn], timeout=120, cwd=pd,
                                     env={"LD_PRELOAD": so, "PW_PATTERN": fname, "PW_NTH": str(pt["nth"]),
                                          "PW_BYTES": str(pt["keep"]), "PW_MARKER": mk})
                if os.path.exists(mk) and rr["sig"] == 9:
                    mt = open(mk).read()
                    m = re.search(r"len=(\d+) kept=(\d+)", mt)
                    fired = bool(m) and int(m.group(1)) == pt["length"] and int(m.group(2)) == pt["keep"]
                    if not fired:
                        why = "shim fired on a different write: %s" % mt.strip()[:120]
                else:
                    why = "shim did not fire (rc=%s sig=%s)" % (rr["rc"], rr["sig"])
            if not fired:
                return pt, dict(fired=False, why=why)
            # survivors
            cands = []
            for nm in (fname, fname + ".old"):
                p = os.path.join(pd, nm)
                if not os.path.exists(p):
                    cands.append(dict(name=nm, exists=False))
                    continue
                b = open(p, "rb").read()
                h = hashlib.sha256(b).hexdigest()
                ld = fresh(os.path.join(pd, "load_" + ("old" if nm.endswith(".old") else "cur")))
                shutil.copy(p, os.path.join(ld, "cand.colvars.state"))
                lr, lev, lsp = common.run_esim("plain", loader_scenario(fmt), ld, "loader", timeout=120)
                le = [e for e in lev if e.get("ev") == "load"]
                ok = bool(le) and not le[0].get("err") and not le[0].get("rc") and lr["complete"]
                cands.append(dict(name=nm, exists=True, size=len(b), loads=ok, ref=refs.get(h),
                                  load_errs=(le[0].get("errs") if le else ["loader died: %s" % lr["err"][-200:]])))
                if ok and refs.get(h):
                    break
            good = [x for x in cands if x.get("exists") and x.get("loads") and x.get("ref")]
            return pt, dict(fired=True, cands=cands, survivor=("%s = %s" % (good[0]["name"], good[0]["ref"])) if good else None,
                            dir=pd)

        seq_desc = []
        for gi, g in enumerate(groups):
            seq_desc.append({"write": gi + 1, "calls": [short_call(c) for c in g]})
        surv = []
        bad = {}
        for pt, res in common.pmap(run_point, points):
            if not res["fired"]:
                chk.inconc("%s %s of write %d did not fire: %s" % (fam, pt["label"], pt["k"], res["why"]))
                all_covered = False
                continue
            fired_points += 1
            chk.count()
            chk.nontrivial(("crash", fam, pt["k"], pt["label"]))
            surv.append({"write": pt["k"], "point": pt["label"], "survivor": res["survivor"]})
            if not res["survivor"]:
                cls = "partial_write" if pt["mode"] == "partial" else "before_" + pt["call"]["name"]
                key = "crash:%s:%s:%s" % (fmt, variant, cls)
                b = bad.setdefault(key, dict(texts=[], files=[scn]))
                desc = []
                for x in res["cands"]:
                    if not x["exists"]:
                        desc.append("%s missing" % x["name"])
                    else:
                        desc.append("%s: %d bytes, loads=%s, equals reference=%s%s" % (
                            x["name"], x["size"], x["loads"], x["ref"],
                            "" if x["loads"] else " (%s)" % str((x["load_errs"] or [""])[0])[:120]))
                b["texts"].append("write %d, death %s: %s" % (pt["k"], pt["label"], "; ".join(desc)))
                for x in res["cands"]:
                    if x["exists"] and len(b["files"]) < 4:
                        src = os.path.join(res["dir"], x["name"])
                        dst = os.path.join(res["dir"], "%s_%s" % (pt["label"].replace("/", "_").replace("@", "_").replace("#", "_").replace(":", "_"), x["name"]))
                        shutil.copy(src, dst)
                        b["files"].append(dst)
        for key, b in sorted(bad.items()):
            chk.violation(key, "after the process dies during a state write no complete state of the uninjected run "
                               "can be loaded from %s or %s.old: %s" % (fname, fname, " || ".join(b["texts"][:4])),
                          files=b["files"],
                          payload={"scenario": "run.scn (plain esim)", "inject": "strace -e inject=<call>:signal=KILL:when=<n> "
                                   "or LD_PRELOAD=partial_write.so", "cases": b["texts"][:30]})
        fam_summaries.append({"family": fam, "file": fname, "state_bytes": ref_bytes, "call_sequence": seq_desc,
                              "points": len(points), "survivors": surv if len(fam_summaries) == 0 else surv[:8]})
    if fam_summaries:
        chk.sample({"part": "crash_consistency", **fam_summaries[0]}, cap=8)
    chk.extra["crash_consistency"] = {"families": [dict(f, survivors=len(f["survivors"])) for f in fam_summaries],
                                      "crash_points_planned": total_points, "crash_points_fired": fired_points,
                                      "all_indices_covered": all_covered and fired_points == total_points,
                                      "partial_write_shim": have_shim}
    chk.exhaustive = bool(all_covered and total_points > 0 and fired_points == total_points)
    return dict(points=fired_points, planned=total_points)


def part_crash_after_error(chk, tier, cfg0):
    """Fault sequence: at least two states were written completely; during the next state write the disk is full (one write() on the
    state file fails with ENOSPC after part of the data), the library reports the error and the engine carries on; the disk has
    room again; the process dies (SIGKILL, strace injection) at any file-system call of the following state write.  At the end of
    the run with the write error alone, and after every such death, <file> or <file>.old must be a complete state of the run."""
    wd = os.path.join(chk.work, "crash_err")
    os.makedirs(wd, exist_ok=True)
    exe = vbuild.tool("plain", "esim")
    strace = shutil.which("strace")
    so = os.path.join(wd, "partial_write.so")
    r = common.run_proc(["gcc", "-O1", "-shared", "-fPIC", "-o", so, os.path.join(common.VERIF, "shim", "partial_write.c"), "-ldl"], timeout=120)
    if not strace or r["rc"] != 0:
        chk.inconc("crash after write error: strace or shim not available")
        return dict(points=0)
    rfreq = 2
    nsteps = 11
    cfg = dict(cfg0, config=CRASH_CFG % {"width": "0.02"})
    xs = traj_x(chk.rng.__class__(chk.seed * 31 + 5), nsteps)

    def scenario(fmt, upto=None):
        ls = scn_head(cfg, binary_env=(fmt == "binary")) + ["prefix out", "rprefix rst", "rfreq %d" % rfreq, "init"]
        for i, x in enumerate(xs):
            if upto is not None and i >= upto:
                break
            ls += ["posa 3 %s 0.25 0" % common.fnum(x), "step", "clearerr"]
        ls.append("abort_here" if upto is not None else "endrun")
        return "\n".join(ls) + "\n"

    def fresh(d):
        shutil.rmtree(d, ignore_errors=True)
        os.makedirs(d)
        return d

    fname = "rst.colvars.state"
    total = fired_n = 0
    for fmt in ("text", "binary"):
        fd = fresh(os.path.join(wd, fmt))
        scn = os.path.join(fd, "run.scn")
        with open(scn, "w") as f:
            f.write(scenario(fmt))
        loader = "\n".join(scn_head(cfg) + ["init", "load cand", "flush", "savestr"]) + "\n"
        # reference states: the file after each completed periodic write of the uninjected run
        refs = {}

        def ref_run(k):
            rd = fresh(os.path.join(fd, "ref%d" % k))
            rs = os.path.join(rd, "ref.scn")
            with open(rs, "w") as f:
                f.write(scenario(fmt, upto=k * rfreq + 1))
            common.run_proc([exe, rs], timeout=120, cwd=rd)
            pth = os.path.join(rd, fname)
            return k, (open(pth, "rb").read() if os.path.exists(pth) else None)
        nper = (nsteps - 1) // rfreq
        for k, b in common.pmap(ref_run, list(range(1, nper + 1))):
            if b:
                refs[hashlib.sha256(b).hexdigest()] = "write%d(step %d)" % (k, k * rfreq)
        # baseline trace: which write() calls belong to the third state write
        bd = fresh(os.path.join(fd, "base"))
        tr = os.path.join(bd, "trace.txt")
        common.run_proc([strace, "-f", "-e", "trace=" + TRACE_SET, "-o", tr, exe, scn], timeout=120, cwd=bd)
        calls, why = parse_trace(tr)
        groups = group_writes(state_calls(calls, fname)) if calls else []
        if len(groups) < 4 or len(refs) < nper:
            chk.inconc("crash after write error (%s): %d state writes traced, %d reference states" % (fmt, len(groups), len(refs)))
            continue
        nth = 0
        for g in groups[:2]:
            nth += sum(1 for c in g if c["name"] in ("write", "writev"))
        wcalls = [c for c in groups[2] if c["name"] in ("write", "writev")]
        if not wcalls:
            chk.inconc("crash after write error (%s): no write call in the third state write" % fmt)
            continue
        # the failing write() is the first one of the third state write (issued while the state is being written) or the last one
        # (issued when the file is closed): the error surfaces at different places in the library
        variants = [("mid_write", 0)] + ([("at_close", len(wcalls) - 1)] if len(wcalls) > 1 else [])
        for vname, which in variants:
            ln = int(wcalls[which]["ret"]) if wcalls[which]["ret"].isdigit() else 0
            env = {"LD_PRELOAD": so, "PW_PATTERN": fname, "PW_NTH": str(nth + which + 1), "PW_BYTES": str(ln // 2), "PW_MODE": "error",
                   "PW_UNTIL": str(nth + which + 1)}

            def survivors(pd):
                cands = []
                for nm in (fname, fname + ".old"):
                    pth = os.path.join(pd, nm)
                    if not os.path.exists(pth):
                        cands.append("%s missing" % nm)
                        continue
                    b = open(pth, "rb").read()
                    h = hashlib.sha256(b).hexdigest()
                    ld = fresh(os.path.join(pd, "load_" + ("old" if nm.endswith(".old") else "cur")))
                    shutil.copy(pth, os.path.join(ld, "cand.colvars.state"))
                    lr, lev, lsp = common.run_esim("plain", loader, ld, "loader", timeout=120)
                    le = [e for e in lev if e.get("ev") == "load"]
                    ok = bool(le) and not le[0].get("err") and not le[0].get("rc") and lr["complete"]
                    cands.append("%s: %d bytes, loads=%s, equals reference=%s" % (nm, len(b), ok, refs.get(h)))
                    if ok and refs.get(h):
                        return True, cands
                return False, cands

            # phase 1: the write error alone
            p1 = fresh(os.path.join(fd, "err_" + vname))
            mk = os.path.join(p1, "marker.txt")
            tr1 = os.path.join(p1, "trace.txt")
            rr = common.run_proc([strace, "-f", "-e", "trace=" + TRACE_SET, "-o", tr1, exe, scn], timeout=120, cwd=p1, env=dict(env, PW_MARKER=mk))
            calls1, why = parse_trace(tr1)
            if not os.path.exists(mk) or "error" not in open(mk).read() or not calls1 or rr["sig"]:
                if rr["sig"]:
                    chk.violation("crash:%s:rst:after_write_error:%s:signal" % (fmt, vname), "the run in which one write() on the state file fails with ENOSPC dies with signal %s: %s" % (
                        rr["sig"], rr["err"][-300:]), files=[scn])
                else:
                    chk.inconc("crash after write error (%s): the failing write did not happen (%s)" % (fmt, why))
                continue
            chk.count()
            ok, cands = survivors(p1)
            if not ok:
                chk.violation("crash:%s:rst:after_write_error:%s:end_of_run" % (fmt, vname), "state write 3 fails with ENOSPC after %d of %d bytes of one write(), the run goes on to its end: "
                              "no complete state of the run can be loaded: %s" % (ln // 2, ln, "; ".join(cands)), files=[scn])
                continue
            chk.nontrivial(("crash_after_error", fmt, vname, "end_of_run"))
            # phase 2: death at every later call on the state file
            sc1 = state_calls(calls1, fname)
            idx_err = None
            for i, c in enumerate(sc1):
                if c["name"] in ("write", "writev") and "ENOSPC" in c["line"]:
                    idx_err = i
            later = sc1[idx_err + 1:] if idx_err is not None else []
            if idx_err is None:
                # the shim answers before the kernel sees the call: the failing call is not in the trace; take the calls after the
                # (nth + which)-th successful write on the state file
                seen = 0
                for i, c in enumerate(sc1):
                    if c["name"] in ("write", "writev"):
                        seen += 1
                        if seen == nth + which + (1 if ln // 2 > 0 else 0):
                            later = sc1[i + 1:]
                            break
            later = later[:40]
            total += len(later)

            def run_point(c2):
                pd = fresh(os.path.join(fd, "k_%s_%s_%d" % (vname, c2["name"], c2["ordinal"])))
                tr2 = os.path.join(pd, "trace.txt")
                common.run_proc([strace, "-f", "-e", "trace=" + TRACE_SET, "-e", "inject=%s:signal=KILL:when=%d" % (c2["name"], c2["ordinal"]),
                                 "-o", tr2, exe, scn], timeout=120, cwd=pd, env=dict(env, PW_MARKER=os.path.join(pd, "marker.txt")))
                cl, _ = parse_trace(tr2)
                killed = bool(cl) and cl[-1]["name"] == "+++" and "killed by SIGKILL" in cl[-1]["line"]
                if not killed:
                    return c2, None, None
                return (c2,) + survivors(pd)
            bad = {}
            for c2, ok2, cands2 in common.pmap(run_point, later):
                if ok2 is None:
                    chk.inconc("crash after write error (%s): kill at %s#%d did not fire" % (fmt, c2["name"], c2["ordinal"]))
                    continue
                fired_n += 1
                chk.count()
                chk.nontrivial(("crash_after_error", fmt, vname, c2["name"], c2["ordinal"]))
                if not ok2:
                    bad.setdefault("crash:%s:rst:after_write_error:%s:before_%s" % (fmt, vname, c2["name"]), []).append(
                        "death at %s: %s" % (short_call(c2), "; ".join(cands2)))
            for key, texts in sorted(bad.items()):
                chk.violation(key, "state write 3 failed with ENOSPC (reported, run continued); the process then dies during a later state write: "
                              "no complete state of the run can be loaded from %s or %s.old: %s" % (fname, fname, " || ".join(texts[:3])), files=[scn],
                              payload={"scenario": "run.scn", "inject": "LD_PRELOAD=partial_write.so PW_MODE=error + strace -e inject=<call>:signal=KILL:when=<n>", "cases": texts[:20]})
    chk.extra["crash_after_write_error"] = {"kill_points_planned": total, "kill_points_fired": fired_n}
    return dict(points=fired_n)


REPLICA_CFG = """colvarsTrajFrequency 0
colvar {
  name d
  width %(width)s
  lowerBoundary 0.0
  upperBoundary 4.0
  distance {
    group1 { atomNumbers 1 2 }
    group2 { atomNumbers 3 4 }
  }
}
metadynamics {
  name mtd
  colvars d
  hillWeight 0.1
  hillWidth 3.0
  newHillFrequency 1
  multipleReplicas on
  replicaID r0
  replicasRegistry registry.txt
  replicaUpdateFrequency 2
}
"""


def part_crash_replica(chk, tier, cfg0):
    """The per-replica state file of multiple-walker metadynamics (<prefix>.colvars.<bias>.<replica>.state) is what the other
    walkers read; it is replaced through a temporary file.  A walker killed at any file-system call of a replacement must
    leave, under the published name, a file that is byte-identical to one of the complete versions of the uninjected run."""
    chk.use_flavour("plain")
    wd = os.path.join(chk.work, "crash_replica")
    os.makedirs(wd, exist_ok=True)
    exe = vbuild.tool("plain", "esim")
    strace = shutil.which("strace")
    if not strace:
        chk.inconc("strace not available")
        return dict(points=0, planned=0)
    rfreq = 2
    nsteps = 7 if tier == "quick" else 13
    cfg = dict(cfg0, config=REPLICA_CFG % {"width": "0.02" if tier == "quick" else "0.01"})
    xs = traj_x(chk.rng, nsteps)
    fname = "out.colvars.mtd.r0.state"
    names = (fname, fname + ".tmp")

    def scenario(upto=None):
        ls = scn_head(cfg) + ["prefix out", "rfreq %d" % rfreq, "init"]
        for i, x in enumerate(xs):
            if upto is not None and i >= upto:
                break
            ls += ["posa 3 %s 0.25 0" % common.fnum(x), "step"]
        ls.append("abort_here" if upto is not None else "endrun")
        return "\n".join(ls) + "\n"

    def fresh(d):
        shutil.rmtree(d, ignore_errors=True)
        os.makedirs(d)
        return d

    fd = fresh(os.path.join(wd, "replica"))
    scn = os.path.join(fd, "run.scn")
    with open(scn, "w") as f:
        f.write(scenario())
    bd = fresh(os.path.join(fd, "base"))
    tr = os.path.join(bd, "trace.txt")
    r = common.run_proc([strace, "-f", "-e", "trace=" + TRACE_SET, "-o", tr, exe, scn], timeout=120, cwd=bd)
    calls, why = parse_trace(tr)
    if r["rc"] != 0 or calls is None or not os.path.exists(os.path.join(bd, fname)):
        chk.inconc("traced baseline of the replica state file failed: rc=%s %s %s" % (r["rc"], why, r["err"][-200:]))
        return dict(points=0, planned=0)
    # calls touching the published file or its temporary, with ordinals among same-name calls
    fdpath, counts, scalls = {}, {}, []
    for c in calls:
        if c["name"] == "+++":
            continue
        counts[c["name"]] = counts.get(c["name"], 0) + 1
        c["ordinal"] = counts[c["name"]]
        touch = False
        if c["name"] == "openat":
            m = re.search(r'"([^"]*)"', c["args"])
            pth = m.group(1) if m else ""
            if c["ret"].lstrip("-").isdigit() and int(c["ret"]) >= 0:
                fdpath[int(c["ret"])] = pth
            touch = os.path.basename(pth) in names and "O_RDONLY" not in c["args"]
        elif c["name"].startswith("rename") or c["name"].startswith("unlink"):
            touch = any(os.path.basename(x) in names for x in re.findall(r'"([^"]*)"', c["args"]))
        elif c["name"] in ("write", "writev", "close"):
            m = re.match(r"(\d+)", c["args"])
            fdn = int(m.group(1)) if m else -1
            touch = os.path.basename(fdpath.get(fdn, "")) in names
            if c["name"] == "close":
                fdpath.pop(fdn, None)
        if touch:
            scalls.append(c)
    # replacements: from the opening of the temporary (or of the file itself) to the rename / close that ends it
    groups, cur = [], None
    for c in scalls:
        if c["name"] == "openat":
            cur = [c]
            groups.append(cur)
        elif cur is not None:
            cur.append(c)
    if len(groups) < 2:
        chk.inconc("replica state file: %d replacements traced (%s)" % (len(groups), [short_call(c) for c in scalls][:10]))
        return dict(points=0, planned=0)
    # complete versions of the uninjected run: the file as found when the run is stopped right after each state-writing step
    refs = {}

    def ref_run(k):
        rd = fresh(os.path.join(fd, "ref%d" % k))
        rs = os.path.join(rd, "ref.scn")
        with open(rs, "w") as f:
            f.write(scenario(upto=k))
        common.run_proc([exe, rs], timeout=120, cwd=rd)
        pth = os.path.join(rd, fname)
        return k, (open(pth, "rb").read() if os.path.exists(pth) else None)

    for k, b in common.pmap(ref_run, list(range(1, nsteps + 1))):
        if b:
            refs.setdefault(hashlib.sha256(b).hexdigest(), "as after %d steps" % k)
    refs.setdefault(hashlib.sha256(open(os.path.join(bd, fname), "rb").read()).hexdigest(), "final")
    points = []
    for gi, g in enumerate(groups):
        if gi == 0:
            continue
        for ci, c in enumerate(g):
            points.append(dict(k=gi + 1, idx=ci, call=c, label="kill@%s#%d" % (c["name"], ci)))

    def run_point(pt):
        pd = fresh(os.path.join(fd, "p%d_%d" % (pt["k"], pt["idx"])))
        c = pt["call"]
        tr2 = os.path.join(pd, "trace.txt")
        rr = common.run_proc([strace, "-f", "-e", "trace=" + TRACE_SET, "-e", "inject=%s:signal=KILL:when=%d" % (c["name"], c["ordinal"]),
                              "-o", tr2, exe, scn], timeout=120, cwd=pd)
        cl, _ = parse_trace(tr2)
        if not (cl and len(cl) >= 2 and cl[-1]["name"] == "+++" and "killed by SIGKILL" in cl[-1]["line"] and cl[-2]["name"] == c["name"]):
            return pt, dict(fired=False, why="process was not killed at the planned call (rc=%s)" % rr["rc"])
        pth = os.path.join(pd, fname)
        if not os.path.exists(pth):
            return pt, dict(fired=True, ok=False, desc="%s missing" % fname, dir=pd)
        b = open(pth, "rb").read()
        lab = refs.get(hashlib.sha256(b).hexdigest())
        return pt, dict(fired=True, ok=bool(lab), desc="%s: %d bytes, %s" % (fname, len(b), lab or "not a complete version of the uninjected run "
                                                                         "(tail: %r)" % b[-40:]), dir=pd)

    fired = 0
    bad = []
    for pt, res in common.pmap(run_point, points):
        if not res["fired"]:
            chk.inconc("replica state file, %s of replacement %d did not fire: %s" % (pt["label"], pt["k"], res["why"]))
            continue
        fired += 1
        chk.count()
        chk.nontrivial(("crash", "replica_state", pt["k"], pt["label"]))
        if not res["ok"]:
            bad.append((pt, res))
    if bad:
        pt, res = bad[0]
        chk.violation("crash:replica_state:before_" + pt["call"]["name"],
                      "a walker killed while replacing its replica state file leaves an incomplete file under the published name: " +
                      " || ".join("replacement %d, death %s: %s" % (p_["k"], p_["label"], r_["desc"]) for p_, r_ in bad[:4]),
                      files=[scn, os.path.join(res["dir"], fname)],
                      payload={"call_sequence": [[short_call(c) for c in g] for g in groups[:3]]})
    chk.extra["crash_consistency_replica_state"] = {"file": fname, "replacements_traced": len(groups), "crash_points_planned": len(points),
                                                    "crash_points_fired": fired, "complete_versions": len(refs),
                                                    "call_sequence_of_one_replacement": [short_call(c) for c in groups[1]]}
    return dict(points=fired, planned=len(points))


# ---------------------------------------------------------------------------------------------
# part d: fuzzing
# ---------------------------------------------------------------------------------------------

def fuzz_env():
    return {"ASAN_OPTIONS": common.SAN_ENV["ASAN_OPTIONS"] + ":symbolize=1", "UBSAN_OPTIONS": common.SAN_ENV["UBSAN_OPTIONS"]}


def part_fuzz(chk, tier, cfgs, states):
    chk.use_flavour("fuzz")
    exe = vbuild.tool("fuzz", "fz_state")
    wd = os.path.join(chk.work, "fuzz")
    corpus = os.path.join(wd, "corpus")
    os.makedirs(corpus, exist_ok=True)
    nseed = 0
    for st in states:
        for mode, data in ((0, st["text"]), (1, st["bin"])):
            with open(os.path.join(corpus, "seed_c%d_n%d_%s" % (st["cfg"], st["nsteps"], "bin" if mode else "txt")), "wb") as f:
                f.write(bytes([st["cfg"], mode]) + data)
            nseed += 1
    # dictionary: keywords of the formats and a few length prefixes
    words = set()
    for st in states:
        for w in re.findall(rb"[A-Za-z_]{3,24}", st["text"]):
            words.add(w)
    dct = os.path.join(wd, "state.dict")
    with open(dct, "w") as f:
        for w in sorted(words):
            f.write('"%s"\n' % w.decode())
            if len(w) < 20:
                f.write('"%s"\n' % "".join("\\x%02x" % b for b in struct.pack("<Q", len(w)) + w))
        for tok in ("{", "}", "\\xff\\xff\\xff\\xff\\xff\\xff\\xff\\xff", "\\x00\\x00\\x00\\x00\\x00\\x00\\x00\\x20",
                    "\\x00\\x00\\x00\\x00\\x00\\x00\\x00\\x80", "\\x5a\\x5b\\x08\\x78"):
            f.write('"%s"\n' % tok)
    njobs = min(8, common.NPROC)
    secs = 40 if tier == "quick" else 900

    def job(j):
        jd = os.path.join(wd, "job%d" % j)
        os.makedirs(os.path.join(jd, "art"), exist_ok=True)
        os.makedirs(os.path.join(jd, "cwd"), exist_ok=True)
        # every job works on its own copy of the seed corpus and has its own seed
        cj = os.path.join(jd, "corpus")
        shutil.copytree(corpus, cj)
        t_end = time.time() + secs
        execs = 0
        found = []      # (artifact, provisional class)
        rounds = 0
        problem = None
        # libFuzzer stops at the first crash: restart on the grown corpus until the budget is used
        while rounds < 400:
            remaining = int(t_end - time.time())
            if remaining < 3:
                break
            before = set(os.listdir(os.path.join(jd, "art")))
            cmd = [exe, "-max_total_time=%d" % remaining, "-timeout=20", "-rss_limit_mb=3000", "-malloc_limit_mb=2000",
                   "-print_final_stats=1", "-max_len=16384", "-seed=%d" % (chk.seed * 100000 + j * 1000 + rounds + 1),
                   "-dict=" + dct, "-artifact_prefix=" + os.path.join(jd, "art") + "/", cj]
            r = common.run_proc(cmd, timeout=remaining + 300, env=fuzz_env(), cwd=os.path.join(jd, "cwd"))
            rounds += 1
            m = re.search(r"stat::number_of_executed_units:\s*(\d+)", r["err"])
            if m:
                execs += int(m.group(1))
            else:
                mm = re.findall(r"^#(\d+)\s", r["err"], re.M)
                execs += int(mm[-1]) if mm else 0
            new = sorted(set(os.listdir(os.path.join(jd, "art"))) - before)
            prov = "%s:%s" % (crash_kind(r), repo_frame(r["err"]))
            for a in new:
                found.append((os.path.join(jd, "art", a), prov))
            if r["timeout"]:
                problem = "did not finish"
                break
            if r["rc"] == 0:
                break
            if not new:
                problem = "exited with rc=%s without an artifact: %s" % (r["rc"], r["err"][-200:])
                break
        stray = os.listdir(os.path.join(jd, "cwd"))
        return dict(job=j, execs=execs, found=found, rounds=rounds, problem=problem, stray=stray)

    jobs = common.pmap(job, list(range(njobs)))
    total = sum(j["execs"] for j in jobs)
    chk.count(total)
    found = []
    for j in jobs:
        found += j["found"]
        if j["stray"]:
            chk.note_set("files_written_by_fuzz_target", ",".join(j["stray"][:5]))
        if j["problem"]:
            chk.inconc("fuzz job %d %s" % (j["job"], j["problem"]))
    # re-run at most three artifacts of every provisional class (format + report of the fuzzing run)
    per_class = {}
    arts = []
    for a, prov in found:
        try:
            with open(a, "rb") as f:
                hd = f.read(2)
        except OSError:
            continue
        cls = (prov, hd[1] & 1 if len(hd) > 1 else 0, os.path.basename(a).split("-")[0])
        per_class[cls] = per_class.get(cls, 0) + 1
        if per_class[cls] <= 3:
            arts.append(a)

    # triage: one artifact per process
    def triage(a):
        base = os.path.basename(a)
        r = common.run_proc([exe, "-timeout=20", "-rss_limit_mb=3000", "-malloc_limit_mb=2000", a], timeout=120,
                            env=fuzz_env(), cwd=wd)
        slow = False
        if base.startswith("timeout-") or r["timeout"] or "libFuzzer: timeout" in r["err"]:
            r = common.run_proc([exe, "-timeout=200", "-rss_limit_mb=3000", "-malloc_limit_mb=2000", a], timeout=400,
                                env=fuzz_env(), cwd=wd)
            slow = True
        return a, r, slow

    seen = {}
    for a, r, slow in common.pmap(triage, arts):
        data = open(a, "rb").read()
        fmt = "binary" if len(data) > 1 and (data[1] & 1) else "text"
        cname = cfgs[data[0] % len(cfgs)]["name"] if data else "?"
        if r["timeout"] or "libFuzzer: timeout" in r["err"]:
            kind, frame = "hang", repo_frame(r["err"])
        elif r["rc"] == 0:
            if slow:
                chk.bump("fuzz_slow_inputs_finishing_within_10x_budget")
            else:
                chk.bump("fuzz_artifacts_not_reproduced")
                chk.note_set("fuzz_artifacts_not_reproduced_names", os.path.basename(a))
            continue
        else:
            kind, frame = (crash_kind(r) or "rc%s" % r["rc"]), repo_frame(r["err"])
        key = "damaged:%s:%s:%s" % (kind, frame, fmt)
        seen[key] = seen.get(key, 0) + 1
        s = damaged_table(chk).setdefault(key, dict(texts=[], files=[]))
        if len(s["files"]) < 6:
            s["files"].append(a)
        s["texts"].append("fuzzing (fz_state) artifact %s (config %s, %d state bytes): %s" % (os.path.basename(a), cname, max(0, len(data) - 2),
                                                                  crash_summary(r["err"])[:400]))
    chk.extra["fuzz"] = {"jobs": njobs, "seconds_per_job": secs, "executions": total, "seed_inputs": nseed,
                         "artifacts": len(found), "artifacts_rerun_one_per_process": len(arts),
                         "distinct_crash_keys": len(seen),
                         "per_job_executions": [j["execs"] for j in jobs],
                         "per_job_restarts_after_a_crash": [max(0, j["rounds"] - 1) for j in jobs]}
    return dict(execs=total, arts=len(found))


# ---------------------------------------------------------------------------------------------

def do_replay(path):
    """re-run what a replay directory describes; prints the outcome, returns 0"""
    path = os.path.abspath(path)
    vj = os.path.join(path, "violation.json")
    if not os.path.exists(vj):
        print("no violation.json in", path)
        return 2
    v = json.load(open(vj))
    print(json.dumps({k: v[k] for k in ("key", "text", "seed", "tier")}, indent=1)[:3000])
    key = v["key"]
    if ":damaged:" in key:
        for a in sorted(os.listdir(path)):
            if a.startswith(("crash-", "timeout-", "oom-", "leak-", "slow-unit-")):
                r = common.run_proc([vbuild.tool("fuzz", "fz_state"), "-timeout=200", os.path.join(path, a)], timeout=400, env=fuzz_env())
                print("fz_state %s -> rc=%s\n%s" % (a, r["rc"], r["err"][-2500:]))
            elif a.endswith(".scn"):
                r = common.run_proc([vbuild.tool("asan", "esim"), os.path.join(path, a)], timeout=600, cwd=path)
                print("esim(asan) %s -> rc=%s\n%s\n%s" % (a, r["rc"], r["out"][-1500:], r["err"][-1500:]))
    elif ":roundtrip:" in key:
        for fl in ("plain", "asan"):
            exe = vbuild.tool(fl, "h_memstream")
            r = common.run_proc([exe, "list"], timeout=60)
            for l in r["out"].splitlines():
                c = json.loads(l)
                rr = common.run_proc([exe, "solo", str(v["seed"]), c["type"], str(c["len"] or 0)], timeout=60)
                if rr["rc"] != 0 or '"all_ok":true' not in rr["out"] or '"exhausted":true' not in rr["out"]:
                    print("[%s] solo %s %s -> rc=%s %s %s" % (fl, c["type"], c["len"], rr["rc"], rr["out"].strip()[:300],
                                                            (crash_kind(rr) or "")))
    else:
        for a in sorted(os.listdir(path)):
            if a.endswith(".scn"):
                fl = "plain" if ":crash:" in key else "asan"
                r = common.run_proc([vbuild.tool(fl, "esim"), os.path.join(path, a)], timeout=600, cwd=path)
                print("esim(%s) %s -> rc=%s\n%s\n%s" % (fl, a, r["rc"], r["out"][-1500:], r["err"][-1500:]))
    return 0


def run(tier, replay):
    if replay:
        return do_replay(replay)
    chk = common.Check(PID, tier, level="fault_enumeration")
    chk.rule = ("distinct crash points (family, write, call index or partial-write length) + distinct truncations "
                "(offset, format, configuration) + distinct (type, length) of round-trip elements")
    chk.assumptions = [
        "process death is modelled by SIGKILL at syscall entry (strace) or after the first m bytes of a write() (LD_PRELOAD shim); "
        "no claim about durability ordering after a power loss",
        "'inside an object's block' for truncations is derived from the valid state (see module docstring)",
        "colvarvalue::type_notset is excluded from the round trip (reading into it is an error by design)",
        "a crash in the step after a load that reported an error is not counted as a violation",
    ]
    cfgs = load_configs()
    if len(cfgs) < 5:
        chk.inconc("fz_state did not list its configurations")
        return chk.finish(False, "no configurations")

    a = part_roundtrip(chk, tier)
    states = gen_states(chk, cfgs)
    b = part_damaged(chk, tier, cfgs, states)
    c = part_crash(chk, tier, cfgs[0])
    cr = part_crash_replica(chk, tier, cfgs[0])
    ce = part_crash_after_error(chk, tier, cfgs[0])
    d = part_fuzz(chk, tier, cfgs, states)
    emit_damaged(chk, len(cfgs))

    floor = []
    n_combo = 56
    for fl in ("plain", "asan"):
        if fl not in a["seen_ok"]:
            floor.append("round trip not run under %s" % fl)
    if a["n_elems"] < 2 * n_combo:
        floor.append("only %d round-trip elements" % a["n_elems"])
    if a["n_failed_classes"] == 0:
        for fl, s in a["seen_ok"].items():
            if len(s) < n_combo:
                floor.append("only %d of %d (type, length) combinations verified under %s" % (len(s), n_combo, fl))
    if b["n_trunc"] < 300:
        floor.append("only %d truncations" % b["n_trunc"])
    if b["n_must"] < 100:
        floor.append("only %d cuts inside object blocks" % b["n_must"])
    if chk.extra.get("complete_states_loaded_ok", 0) < 2 * (len(cfgs) - 1):
        floor.append("only %d loads of complete valid states succeeded (the error oracle needs them)" %
                     chk.extra.get("complete_states_loaded_ok", 0))
    if b["n_flip"] < 100:
        floor.append("only %d bit flips" % b["n_flip"])
    if len(states) < 2 * len(cfgs):
        floor.append("valid states for only %d of %d (configuration, length) pairs" % (len(states), 2 * len(cfgs)))
    if c["points"] < 20:
        floor.append("only %d crash points fired" % c["points"])
    if d["execs"] < 2000:
        floor.append("only %d fuzz executions" % d["execs"])
    if chk.inconclusive:
        floor.append("%d inconclusive cases: %s" % (len(chk.inconclusive), chk.inconclusive[0][:200]))
    return chk.finish(not floor, "; ".join(floor))
