"""C07 - total-force measurement is the inverse of force application.

Every case is one variable (one component, or a +/-1 combination of two components on disjoint
atoms) with outputTotalForce, forced by a linear (and sometimes a harmonic) bias, run over the same
short history of geometries X_0..X_T and atomic force fields F_0..F_T through three engine runs:

  P   previous-step convention: the engine hands Colvars, at step t+1, F_t plus the atomic forces
      Colvars itself applied at step t (closed loop).
  S   same-step convention: the engine hands F_t at step t, never Colvars' own forces.  Extra steps at
      fixed geometry: F = 0 (leaves the Jacobian term alone), F1, F2, a*F1+b*F2 (linearity), F1 + forces
      on atoms outside the groups (locality), unit forces at displaced geometries (numerical divergence
      of the measured inverse-gradient field, i.e. the manual's k_B T div(v) Jacobian term).
  S0  as S without the forcing biases: Colvars' own forces must not enter in the same-step convention,
      so the reported total forces of S and S0 are bit-identical.

Oracles (model-free unless said otherwise):
  closed loop / attribution   ft_P(t+1) = ft_S(X_t, F_t) + fa_P(t)      (fa = applied force read back)
  subtractAppliedForce        ft_P(t+1) = ft_S(X_t, F_t)
  Jacobian term               ft_S(X, 0) = k_B T div v(X) (central differences + Richardson on the measured
                              v_k = ft_S(X, e_k) - ft_S(X, 0)); exactly 0 at T = 0; closed forms for the
                              single-component cases that have one (2/r, 1/rho, cot(theta), (3N-4)/Rg, 0)
  hidden Jacobian             with hideJacobian requested (abf option) the reported total force carries no
                              Jacobian term: ft_P(t+1) - L_t(F_t) = sum of bias forces of step t, ft_S(X,0) = 0
  linearity, locality         at fixed geometry, after removing ft_S(X, 0)
  projection (explicit model) distance / distanceZ / distanceXY: sums of group forces projected on the
                              documented direction (1/2 on each group, or group 1 / main only)
  alchemical variable         total force = -dE/dlambda of the back end at the lambda of the step
"""
import json
import math
import os
import re

import common
import corpus
from common import fnum, fl

KB = 0.001987191      # kcal/mol/K ("real" units)
T_STEPS = 4           # geometries X_0..X_3 in the P run (checks at steps 1..3)
H_FD = 2.0e-3
NSPECT = 4            # the last NSPECT atoms are never part of any group


# ---------------------------------------------------------------------------------------------
# case generation
# ---------------------------------------------------------------------------------------------

SPECS = [
    ("distance", {}), ("distance", {"onesite": True}), ("distance", {"onesite": True, "dummy": True}),
    ("distanceZ", {"axis": "axis"}), ("distanceZ", {"axis": "ref2"}), ("distanceZ", {"axis": "default"}),
    ("distanceZ", {"axis": "axis", "onesite": True}),
    # a group expressed in the moving frame of a separate fitting group (position of a ligand along a protein axis)
    ("distanceZ", {"axis": "axis", "fit": "fitgroup"}), ("distanceZ", {"axis": "axis", "fit": "fitgroup", "onesite": True}),
    ("distanceXY", {"axis": "axis", "fit": "fitgroup", "onesite": True}),
    ("distanceXY", {"axis": "axis"}), ("distanceXY", {"axis": "ref2"}), ("distanceXY", {"axis": "default"}),
    ("distanceXY", {"axis": "axis", "onesite": True}),
    ("angle", {}), ("angle", {"onesite": True}),
    ("dihedral", {}), ("dihedral", {"onesite": True}),
    ("gyration", {}), ("rmsd", {}), ("rmsd", {"perm": True}), ("eigenvector", {"fit": "self"}), ("eigenvector", {"fit": "self", "normalize": True}),
    # the vector given as a second structure (differenceVector): the projection is scaled so that this structure has value 1
    ("eigenvector", {"fit": "self", "diffvec": True}),
]
# order of the component variants inside a violation key (so that a trailing-* pattern can name the offending component)
PRIORITY = ["eigenvector", "rmsd", "gyration", "angle", "dihedral", "distanceXY", "distanceZ", "distance"]
COMBO_TYPES = ["distance", "distanceZ", "distanceXY", "angle", "dihedral", "gyration", "rmsd", "eigenvector"]


def variant(ctype, o):
    v = ctype
    if o.get("axis") and ctype in ("distanceZ", "distanceXY"):
        v += "/" + o["axis"]
    if o.get("onesite"):
        v += "/onesite"
    if o.get("dummy"):
        v += "/dummy"
    if o.get("normalize"):
        v = "normalized_" + v
    if o.get("diffvec"):
        v = "difference_" + v
    if o.get("perm"):
        v += "/perm"
    return v


def add_onesite(text):
    first, rest = text.split("\n", 1)
    return first + "\n    oneSiteTotalForce on\n" + rest


def make_comp(rng, sysm, pool, ctype, o):
    oo = dict(o)
    onesite = oo.pop("onesite", False)
    normalize = oo.pop("normalize", False)
    diffvec = oo.pop("diffvec", False)
    if ctype == "distance" and oo.get("dummy"):
        # corpus template marks dummy groups as unsupported; with oneSiteTotalForce they are documented to work
        c = corpus.COMPONENTS[ctype](rng, sysm, pool, {"dummy": True, "onesite": True})
        c["tf"] = True
    elif ctype in ("distance", "angle", "dihedral"):
        c = corpus.COMPONENTS[ctype](rng, sysm, pool, dict(oo, onesite=onesite))
    else:
        c = corpus.COMPONENTS[ctype](rng, sysm, pool, oo)
        if onesite:
            c["text"] = add_onesite(c["text"])
        if normalize:
            first, rest = c["text"].split("\n", 1)
            c["text"] = first + "\n    normalizeVector on\n" + rest
        if diffvec:
            first, rest = c["text"].split("\n", 1)
            c["text"] = first + "\n    differenceVector on\n" + rest
    if ctype == "rmsd" and oo.get("perm"):
        # symmetry-adapted RMSD: the listed permutation (first two atoms exchanged) is the closest image, because the first two
        # reference positions are exchanged with respect to the current geometry
        g = c["atoms"]
        ref = list(c["refpos"])
        ref[0], ref[1] = ref[1], ref[0]
        c["text"] = re.sub(r"    refPositions [^\n]*\n", "    refPositions %s\n    atomPermutation %s\n" % (
            " ".join(corpus.vec_str(p_) for p_ in ref), " ".join(str(a) for a in [g[1], g[0]] + g[2:])), c["text"])
        assert "atomPermutation" in c["text"]
    c["ctype"] = ctype
    c["variant"] = variant(ctype, o)
    c["onesite"] = onesite
    c["groups"] = parse_groups(c["text"])
    return c


def parse_groups(text):
    g = {}
    for m in re.finditer(r"(\w+) \{\n\s+atomNumbers ([\d ]+)\n", text):
        g[m.group(1)] = [int(x) for x in m.group(2).split()]
    for m in re.finditer(r"(\w+) \{\n\s+dummyAtom \(([^)]*)\)", text):
        g[m.group(1)] = []
    m = re.search(r"\n\s+axis \(([^)]*)\)", text)
    if m:
        g["_axis"] = [float(x) for x in m.group(1).split(",")]
    return g


def rand_force(rng, scale=8.0):
    """20-bit fixed point, so that small-integer / half-integer combinations are exact"""
    return rng.randint(-int(scale * (1 << 20)), int(scale * (1 << 20))) / float(1 << 20)


def rand_field(rng, n, only=None):
    return [[rand_force(rng) if (only is None or k in only) else 0.0 for _ in range(3)] for k in range(n)]


def jitter(rng, pos, amp):
    return [[x + rng.uniform(-amp, amp) for x in p] for p in pos]


def gen_case(rng, idx, comps_spec, tier):
    """comps_spec: [(ctype, opts, coeff)]"""
    cell = rng.random() < 0.25
    sysm = corpus.make_system(rng, natoms=26, cell=cell)
    n = sysm["natoms"]
    pool = list(range(1, n - NSPECT + 1))
    comps = []
    for ctype, o, coeff in comps_spec:
        c = make_comp(rng, sysm, pool, ctype, o)
        c["coeff"] = coeff
        comps.append(c)
    temp = 0.0 if rng.random() < 0.25 else float(rng.randint(200, 400))
    sub = rng.random() < 0.4
    hide = rng.random() < 0.3
    width = rng.choice([0.5, 1.0, 2.0])
    extra = ["width %s" % fnum(width), "outputTotalForce on"]
    if sub:
        extra.append("subtractAppliedForce on")
    if hide:
        extra += ["lowerBoundary -400.0", "upperBoundary 400.0"]
    multi = len(comps) > 1
    cvtext = corpus.colvar_block("cv1", [(c, (c["coeff"] if multi or c["coeff"] != 1.0 else None), None) for c in comps], extra)
    forcing = "linear {\n  name lin\n  colvars cv1\n  centers 0.0\n  forceConstant %s\n}\n" % fnum(rng.choice([-1, 1]) * rng.uniform(0.7, 9.0))
    periodic = any(cp["ctype"] == "dihedral" for cp in comps)
    if periodic:
        forcing = ""     # linear biases are refused on periodic variables
    if periodic or rng.random() < 0.5:
        forcing += "harmonic {\n  name harm\n  colvars cv1\n  centers %s\n  forceConstant %s\n}\n" % (
            fnum(rng.uniform(0.0, 5.0) if comps[0]["ctype"] not in ("angle", "dihedral") else rng.uniform(10.0, 170.0)),
            fnum(rng.uniform(0.05, 2.0)))
    if not periodic and rng.random() < 0.4:
        # a wall the variable is always beyond: harmonicWalls forces reach the variable through the route that bypasses the
        # extended Lagrangian (a different accumulator inside the variable than other biases)
        forcing += "harmonicWalls {\n  name wall\n  colvars cv1\n  lowerWalls %s\n  forceConstant %s\n}\n" % (
            fnum(400.0 if comps[0]["ctype"] in ("angle", "dihedral") else 60.0), fnum(rng.uniform(0.01, 0.2)))
    other = ""
    if hide:
        other = "abf {\n  name abfhide\n  colvars cv1\n  fullSamples 100000\n  hideJacobian on\n  applyBias off\n}\n"
    group_atoms = sorted(set(a for c in comps for a in c["atoms"]))
    outside = [k for k in range(1, n + 1) if k not in group_atoms]
    X = [sysm["pos"]]
    for _ in range(T_STEPS - 1):
        X.append(jitter(rng, X[-1], 0.25))
    F = []
    for t in range(T_STEPS):
        F.append(rand_field(rng, n) if rng.random() < 0.65 else [[0.0] * 3 for _ in range(n)])
    F1 = rand_field(rng, n)
    F2 = rand_field(rng, n)
    a, b = rng.choice([2.0, -3.0, 0.5, 1.5, -1.0]), rng.choice([-2.0, 3.0, -0.5, 2.5, 1.0])
    F12 = [[a * x + b * y for x, y in zip(p, q)] for p, q in zip(F1, F2)]
    G = rand_field(rng, n, only=set(k - 1 for k in outside))
    F1G = [[x + y for x, y in zip(p, q)] for p, q in zip(F1, G)]
    # oneSiteTotalForce: forces on the other groups of the component are documented to be left out
    ignored = []
    for c in comps:
        if c["onesite"]:
            first = "main" if "main" in c["groups"] else "group1"
            ignored += [k for gname, at in c["groups"].items() if not gname.startswith("_") and gname != first for k in at]
    F1I = None
    if ignored:
        GI = rand_field(rng, n, only=set(k - 1 for k in ignored))
        F1I = [[x + y for x, y in zip(p, q)] for p, q in zip(F1, GI)]
    fd = (tier != "quick") or (idx % 2 == 0) or any(c["ctype"] in ("rmsd", "eigenvector", "gyration") for c in comps)
    return dict(idx=idx, sysm=sysm, comps=comps, temp=temp, sub=sub, hide=hide, width=width, cvtext=cvtext, forcing=forcing,
                other=other, group_atoms=group_atoms, outside=outside, X=X, F=F, F1=F1, F2=F2, F12=F12, ab=(a, b), F1G=F1G,
                F1I=F1I, fd=fd and temp > 0.0 and not hide, cell=cell,
                ckey="+".join(sorted(set(c["variant"] for c in comps), key=lambda v: (PRIORITY.index(v.split("/")[0]) if v.split("/")[0] in PRIORITY else -1, v)))
                + (":combo" if len(comps) > 1 else ""),
                vkey="+".join(("" if c["coeff"] == 1.0 else "-" if c["coeff"] == -1.0 else "%g*" % c["coeff"]) + c["variant"] for c in comps))


def plan(rng, tier):
    reps = 8 if tier == "quick" else 120
    specs = []
    for _ in range(reps):
        for ctype, o in SPECS:
            specs.append([(ctype, o, 1.0)])
        # +/-1 combinations of two components on disjoint atoms
        for _k in range(10):
            a, b = rng.choice(COMBO_TYPES), rng.choice(COMBO_TYPES)
            oa = {"fit": "self"} if a == "eigenvector" else ({"axis": rng.choice(["axis", "ref2", "default"])} if a in ("distanceZ", "distanceXY") else {})
            ob = {"fit": "self"} if b == "eigenvector" else ({"axis": rng.choice(["axis", "ref2", "default"])} if b in ("distanceZ", "distanceXY") else {})
            if a in ("distance", "angle", "dihedral") and rng.random() < 0.3:
                oa["onesite"] = True
            specs.append([(a, oa, rng.choice([1.0, -1.0])), (b, ob, rng.choice([1.0, -1.0]))])
        # a single component with coefficient -1
        for _k in range(3):
            ctype, o = rng.choice(SPECS)
            specs.append([(ctype, o, -1.0)])
    return specs


# ---------------------------------------------------------------------------------------------
# scenarios
# ---------------------------------------------------------------------------------------------

def header(case, tfmode):
    return corpus.scenario_header(case["sysm"], tfmode=tfmode, extra="dt 1.0\ntemp %s" % fnum(case["temp"]))


def scen_P(case):
    s = header(case, "prev") + "emit atoms off\nmodule\nconfig <<EOC\n" + case["cvtext"] + "\n" + case["forcing"] + case["other"] + "EOC\ninit\n"
    for t in range(T_STEPS):
        s += corpus.pos_line(case["X"][t]) + "\n" + corpus.fext_line(case["F"][t]) + "\nstep\n"
    return s


ZERO_BIAS = "harmonic {\n  name harm\n  colvars cv1\n  centers 1.0\n  forceConstant 0.0\n}\n"


def scen_S(case, biases="full", with_fd=True, with_other=True):
    """same-step run; biases: "full" (the forcing biases), "zero" (a linear bias with force constant 0: applies exactly
    zero force), "none" (no bias at all).  Returns (scenario text, list of tags, one per step)"""
    s = header(case, "same") + "emit atoms off\nmodule\nconfig <<EOC\n" + case["cvtext"] + "\n" \
        + {"full": case["forcing"], "zero": ZERO_BIAS, "none": ""}[biases] + (case["other"] if with_other else "") + "EOC\ninit\n"
    tags = []
    n = case["sysm"]["natoms"]
    zero = "fext"
    for t in range(T_STEPS):
        s += corpus.pos_line(case["X"][t]) + "\n" + zero + "\nstep\n"
        tags.append(("J", t))
        s += corpus.fext_line(case["F"][t]) + "\nstep\n"
        tags.append(("F", t))
    for name in ("F1", "F2", "F12", "F1G", "F1I"):
        if case[name] is None:
            continue
        s += corpus.fext_line(case[name]) + "\nstep\n"
        tags.append((name, T_STEPS - 1))
    # the target temperature changes during the run (scripts and engines may do that: annealing, tempering): the Jacobian
    # term follows the temperature of the step; geometry and (zero) forces as at the first step
    s += corpus.pos_line(case["X"][0]) + "\n" + zero + "\n"
    s += "temp 0.0\nstep\n"
    tags.append(("JT0", 0))
    s += "temp %s\nstep\n" % fnum(2.0 * case["temp"])
    tags.append(("JT2", 0))
    s += "temp %s\n" % fnum(case["temp"])
    if with_fd and case["fd"]:
        X0 = case["X"][0]
        s += corpus.pos_line(X0) + "\n"
        for a in case["group_atoms"]:
            for d in range(3):
                for h in (H_FD, 0.5 * H_FD):
                    for sg in (1.0, -1.0):
                        p = list(X0[a - 1])
                        p[d] += sg * h
                        s += "posa %d %s %s %s\n" % (a, fnum(p[0]), fnum(p[1]), fnum(p[2]))
                        s += zero + "\nstep\n"
                        tags.append(("fd0", a, d, h, sg))
                        e = [0.0, 0.0, 0.0]
                        e[d] = 1.0
                        s += "fexta %d %s %s %s\nstep\n" % (a, fnum(e[0]), fnum(e[1]), fnum(e[2]))
                        tags.append(("fd1", a, d, h, sg))
                p = X0[a - 1]
                s += "posa %d %s %s %s\n" % (a, fnum(p[0]), fnum(p[1]), fnum(p[2]))
    return s, tags


# ---------------------------------------------------------------------------------------------
# explicit projection models for the distance family (positions -> direction; forces -> projection)
# ---------------------------------------------------------------------------------------------

def vsub(a, b):
    return [x - y for x, y in zip(a, b)]


def vdot(a, b):
    return sum(x * y for x, y in zip(a, b))


def vnorm(a):
    return math.sqrt(vdot(a, a))


def com(sysm, pos, atoms):
    m = [sysm["masses"][a - 1] for a in atoms]
    M = sum(m)
    return [sum(mi * pos[a - 1][d] for mi, a in zip(m, atoms)) / M for d in range(3)]


def min_image(sysm, v):
    if not sysm.get("cell"):
        return v
    return [x - L * math.floor(x / L + 0.5) for x, L in zip(v, sysm["cell"])]


def gsum(F, atoms):
    return [sum(F[a - 1][d] for a in atoms) for d in range(3)]


def projection_model(case, comp, pos, F):
    """(projection of the atomic forces F, sum of absolute terms) for one distance-family component, or None"""
    sysm = case["sysm"]
    g = comp["groups"]
    ct = comp["ctype"]
    if "fittingGroup" in comp["text"] or "rotateToReference" in comp["text"]:
        return None        # positions and forces are taken in a moving frame: not modelled here (the inverse laws still apply)
    if ct == "distance":
        c1 = com(sysm, pos, g["group1"])
        c2 = com(sysm, pos, g["group2"]) if g["group2"] else None
        if c2 is None:
            m = re.search(r"dummyAtom \(([^)]*)\)", comp["text"])
            c2 = [float(x) for x in m.group(1).split(",")]
        dv = min_image(sysm, vsub(c2, c1))
        u = [x / vnorm(dv) for x in dv]
        f1 = gsum(F, g["group1"])
        if comp["onesite"]:
            return -vdot(f1, u), sum(abs(x * y) for x, y in zip(f1, u))
        f2 = gsum(F, g["group2"])
        return 0.5 * vdot(vsub(f2, f1), u), 0.5 * sum(abs(x * y) + abs(z * y) for x, z, y in zip(f1, f2, u))
    if ct in ("distanceZ", "distanceXY"):
        cm = com(sysm, pos, g["main"])
        c1 = com(sysm, pos, g["ref"])
        fixed = "ref2" not in g
        if fixed:
            ax = g.get("_axis", [0.0, 0.0, 1.0])
        else:
            ax = min_image(sysm, vsub(com(sysm, pos, g["ref2"]), c1))
        ax = [x / vnorm(ax) for x in ax]
        fm = gsum(F, g["main"])
        fr = gsum(F, g["ref"])
        if ct == "distanceZ":
            dirv = ax
        else:
            dv = min_image(sysm, vsub(cm, c1))
            ortho = [x - vdot(dv, ax) * a_ for x, a_ in zip(dv, ax)]
            dirv = [x / vnorm(ortho) for x in ortho]
        if fixed and not comp["onesite"]:
            return 0.5 * vdot(vsub(fm, fr), dirv), 0.5 * sum(abs(x * y) + abs(z * y) for x, z, y in zip(fm, fr, dirv))
        return vdot(fm, dirv), sum(abs(x * y) for x, y in zip(fm, dirv))
    return None


def closed_form_jd(comp, x):
    """documented/commented closed forms of the Jacobian derivative as a function of the component's value"""
    ct = comp["ctype"]
    if ct == "distance":
        return 2.0 / x
    if ct == "distanceZ" or ct == "dihedral":
        return 0.0
    if ct == "distanceXY":
        return 1.0 / x
    if ct == "angle":
        th = math.radians(x)
        return (math.pi / 180.0) * math.cos(th) / math.sin(th)
    if ct == "gyration":
        return (3.0 * len(comp["atoms"]) - 4.0) / x
    return None


# ---------------------------------------------------------------------------------------------
# checking
# ---------------------------------------------------------------------------------------------

def viol(c, key, text, files=None, payload=None):
    """record a violation once per key (further instances are only counted); returns True when the key is not a known finding"""
    seen = c.extra.setdefault("_seen_keys", {})
    if key in seen:
        c.bump("repeated_violation_instances")
        return seen[key]
    seen[key] = c.violation(key, text, files, payload)
    return seen[key]


def steps_of(ev):
    return [e for e in ev if e.get("ev") == "step"]


def ft_of(e):
    v = e["cv"]["cv1"].get("ft")
    return None if v is None else fl(v[0])


def check_case(c, case, runs):
    (rP, evP, spP), (rS, evS, spS), (r0, ev0, sp0), (rN, evN, spN), (rJ, evJ, spJ) = runs
    files = [spP, spS, sp0, spN, spJ]
    vk = case["ckey"]      # class of the variable: component variants without signs
    full = case["vkey"]
    opt = "%s%s%s" % ("sub" if case["sub"] else "nosub", ":hide" if case["hide"] else "", ":T0" if case["temp"] == 0.0 else "")
    payload = {"variable": case["vkey"], "config": case["cvtext"] + "\n" + case["forcing"] + case["other"], "temp": case["temp"]}
    stP, stS, st0, stN = steps_of(evP), steps_of(evS), steps_of(ev0), steps_of(evN)
    _, tags = scen_S(case)
    _, tags0 = scen_S(case, biases="zero", with_fd=False)
    if len(stP) != T_STEPS or len(stS) != len(tags) or len(st0) != len(tags0) or len(stN) != len(tags0):
        c.inconc("unexpected number of step events for %s" % vk)
        return False
    if any(e["err"] for e in stP + stS + st0 + stN):
        c.inconc("error bits set during %s: %s" % (vk, [e.get("errs") for e in stP + stS + st0 + stN if e.get("errs")][:1]))
        return False
    S = {}
    for tg, e in zip(tags, stS):
        S[tg] = e
    kT = KB * case["temp"]
    ftS = {tg: ft_of(e) for tg, e in S.items()}
    if any(v is None or not math.isfinite(v) for v in ftS.values()):
        viol(c, "total_force_missing_or_nonfinite:" + vk, "same-step run: %s" % [tg for tg, v in ftS.items() if v is None or not math.isfinite(v)][:3], files, payload)
        return False
    scale = max(abs(ftS[tg]) for tg in ftS if tg[0] in ("J", "F", "F1", "F2", "F12")) or 1.0
    # reference values per geometry: Jacobian term Jt[t] and projection Lt[t] of the physical forces F_t.  When the
    # Jacobian term is to be hidden they come from the run SJ (same variable without the hideJacobian request)
    if case["hide"]:
        stJ = steps_of(evJ)
        if len(stJ) != len(tags0) or any(e["err"] for e in stJ):
            c.inconc("reference run without hideJacobian failed for %s" % vk)
            return False
        ftJ = {tg: ft_of(e) for tg, e in zip(tags0, stJ)}
        if any(v is None or not math.isfinite(v) for v in ftJ.values()):
            c.inconc("reference run without hideJacobian has no finite total force for %s" % vk)
            return False
    else:
        ftJ = ftS
    Jt = [ftJ[("J", t)] for t in range(T_STEPS)]
    Lt = [ftJ[("F", t)] - ftJ[("J", t)] for t in range(T_STEPS)]
    scale = max(scale, max(abs(ftJ[("F", t)]) for t in range(T_STEPS)))

    # -- same-step: Colvars' own forces never enter (S vs S0 bitwise) --------------------------
    for tg, e in zip(tags0, st0):
        if ft_of(e) != ftS[tg]:
            viol(c, "same_step_own_force_enters:%s:%s" % (vk, opt), "step tag %s: total force %.17g with the biases, %.17g without" % (
                tg, ftS[tg], ft_of(e)), files, payload)
            return False
        c.bump("same_step_bitwise_checks")
    # ... and the measurement does not need a force-applying bias to be defined on the variable
    for tg, e in zip(tags0, stN):
        v = ft_of(e)
        if v != ftS[tg]:
            kinds = sorted(set(cp["ctype"] for cp in case["comps"]))
            kinds = [k for k in kinds if k in ("angle", "rmsd", "eigenvector")] or kinds
            viol(c, "unbiased_variable_total_force:%s" % ("nan" if v is None or v != v else "wrong") + ":" + "+".join(kinds),
                        "%s, outputTotalForce on, no bias defined, same-step convention, step tag %s: reported total force %r; with a "
                        "force-applying bias on the variable (which cannot enter the same-step measurement) %.17g" % (vk, tg, v, ftS[tg]), files, payload)
            break
        c.bump("unbiased_bitwise_checks")

    # -- the Jacobian term is weighted by the temperature of the step ------------------------------
    j0, jt0, jt2 = ftS[("J", 0)], ftS[("JT0", 0)], ftS[("JT2", 0)]
    if jt0 != 0.0:
        viol(c, "jacobian_after_temperature_change:to_zero:" + vk, "geometry 0, zero atomic forces: total force %.17g after the target temperature "
             "was set to 0 (it was %.17g at %s K)" % (jt0, j0, fnum(case["temp"])), files, payload)
        return False
    if abs(jt2 - 2.0 * j0) > 1e-12 * max(abs(j0), 1e-300) + 1e-300:
        viol(c, "jacobian_after_temperature_change:doubled:" + vk, "geometry 0, zero atomic forces: total force %.17g after the target temperature "
             "was doubled, twice the value at %s K is %.17g" % (jt2, fnum(case["temp"]), 2.0 * j0), files, payload)
        return False
    c.bump("jacobian_temperature_change_checks")
    # -- Jacobian term in the same-step run ------------------------------------------------------
    for t in range(T_STEPS):
        J = ftS[("J", t)]
        if case["temp"] == 0.0 and J != 0.0:
            viol(c, "jacobian_at_zero_temperature:" + vk, "geometry %d: total force with zero atomic forces = %.17g at T=0" % (t, J), files, payload)
            return False
        if case["hide"] and J != 0.0:
            viol(c, "jacobian_not_hidden:same:" + ("sub" if case["sub"] else "nosub"),
                        "%s, hideJacobian requested, same-step convention, zero atomic forces at geometry %d: reported total force %.17g "
                        "(the Jacobian term k_B T * jd) instead of 0" % (full, t, J), files, payload)
        elif case["hide"]:
            if abs(ftS[("F", t)] - Lt[t]) > 1e-11 * (abs(ftJ[("F", t)]) + abs(Jt[t])) + 1e-12 * scale:
                viol(c, "hidden_jacobian_projection:same:" + vk, "%s geometry %d: reported %.15g, projection of the atomic forces %.15g" % (
                    full, t, ftS[("F", t)], Lt[t]), files, payload)
                return False
            c.bump("hidden_jacobian_same_checks")
        if len(case["comps"]) == 1 and not case["hide"]:
            comp = case["comps"][0]
            x = fl(S[("J", t)]["cv"]["cv1"]["x"][0]) / comp["coeff"]
            jd = closed_form_jd(comp, x)
            if jd is not None:
                exp = kT * jd * comp["coeff"]
                if abs(J - exp) > 1e-9 * max(abs(exp), abs(J)) + 1e-14:
                    viol(c, "jacobian_closed_form:" + vk, "geometry %d: reported %.15g, k_B T * closed form %.15g (value %.15g)" % (t, J, exp, x), files, payload)
                    return False
                c.bump("jacobian_closed_form_checks")

    # -- numerical divergence of the measured inverse-gradient field -----------------------------
    if case["fd"] and not case["hide"]:
        Dh = Dh2 = 0.0
        absum = 0.0
        for a in case["group_atoms"]:
            for d in range(3):
                vals = {}
                for h in (H_FD, 0.5 * H_FD):
                    for sg in (1.0, -1.0):
                        vals[(h, sg)] = ftS[("fd1", a, d, h, sg)] - ftS[("fd0", a, d, h, sg)]
                d1 = (vals[(H_FD, 1.0)] - vals[(H_FD, -1.0)]) / (2 * H_FD)
                d2 = (vals[(0.5 * H_FD, 1.0)] - vals[(0.5 * H_FD, -1.0)]) / H_FD
                Dh += d1
                Dh2 += d2
                absum += abs(d2)
        D = (4.0 * Dh2 - Dh) / 3.0
        spread = abs(Dh2 - Dh)
        J0 = ftS[("J", 0)]
        rnd = 64 * 2.2e-16 * (abs(J0) + scale) / H_FD * len(case["group_atoms"])
        tol = kT * (0.1 * spread + 2e-6 * max(abs(D), absum)) + rnd
        if kT * spread > max(1e-3 * kT * max(abs(D), absum), 10.0 * rnd):
            c.inconc("divergence estimate not converged for %s (D_h %.6g, D_h/2 %.6g)" % (vk, Dh, Dh2))
        elif abs(J0 - kT * D) > tol:
            viol(c, "jacobian_vs_divergence:" + vk, "geometry 0: reported Jacobian term %.12g, k_B T * div(v) = %.12g (k_B T = %.6g, div %.12g, tol %.3g)" % (
                J0, kT * D, kT, D, tol), files, payload)
            return False
        else:
            c.bump("jacobian_divergence_checks")
            c.extra["worst_divergence_rel_dev"] = max(c.extra.get("worst_divergence_rel_dev", 0.0), abs(J0 - kT * D) / max(abs(J0), 1e-300))

    # -- explicit projection model (distance family) ----------------------------------------------
    for t in range(T_STEPS):
        L = Lt[t]
        tot = 0.0
        ab = 0.0
        ok = True
        sq = float(len(case["comps"]))
        for comp in case["comps"]:
            m = projection_model(case, comp, case["X"][t], case["F"][t])
            if m is None:
                ok = False
                break
            tot += comp["coeff"] * m[0] / sq
            ab += m[1] / sq
        if ok and any(x != 0.0 for p in case["F"][t] for x in p):
            if abs(L - tot) > 1e-10 * (ab + abs(L)) + 1e-13:
                viol(c, "projection_model:" + vk, "geometry %d: measured projection %.15g, documented projection %.15g" % (t, L, tot), files, payload)
                return False
            c.bump("projection_model_checks")

    # -- linearity and locality at fixed geometry -------------------------------------------------
    g = T_STEPS - 1
    J = ftS[("J", g)]
    a, b = case["ab"]
    l1, l2, l12 = ftS[("F1", g)] - J, ftS[("F2", g)] - J, ftS[("F12", g)] - J
    terms = abs(a * ftS[("F1", g)]) + abs(b * ftS[("F2", g)]) + abs(ftS[("F12", g)]) + (abs(a) + abs(b) + 1) * abs(J)
    if abs(l12 - (a * l1 + b * l2)) > 1e-12 * terms:
        viol(c, "nonlinear:" + vk, "ft(%g F1 + %g F2) - J = %.17g, %g (ft(F1)-J) + %g (ft(F2)-J) = %.17g (J %.17g)" % (
            a, b, l12, a, l1, b, l2, a * l1 + b * l2, J), files, payload)
        return False
    if l1 == 0.0 and l2 == 0.0:
        viol(c, "total_force_insensitive:" + vk, "random atomic force fields on the group atoms leave the total force unchanged", files, payload)
        return False
    c.bump("linearity_checks")
    if ftS[("F1G", g)] != ftS[("F1", g)]:
        viol(c, "nonlocal:" + vk, "forces on atoms %s (outside the groups) change the total force: %.17g vs %.17g" % (
            case["outside"][:6], ftS[("F1G", g)], ftS[("F1", g)]), files, payload)
        return False
    c.bump("locality_checks")
    if case["F1I"] is not None:
        if ftS[("F1I", g)] != ftS[("F1", g)]:
            viol(c, "onesite_not_one_site:" + vk, "oneSiteTotalForce: forces on the other groups change the total force: %.17g vs %.17g" % (
                ftS[("F1I", g)], ftS[("F1", g)]), files, payload)
            return False
        c.bump("onesite_locality_checks")

    # -- previous-step convention: closed loop, attribution, subtraction ---------------------------
    for t in range(T_STEPS - 1):
        e1 = stP[t + 1]
        e0 = stP[t]
        ft = ft_of(e1)
        if ft is None or not math.isfinite(ft):
            viol(c, "total_force_missing_or_nonfinite:" + vk, "previous-step run, step %d" % (t + 1), files, payload)
            return False
        fa = fl(e0["cv"]["cv1"]["fa"][0])
        if fa == 0.0:
            c.inconc("no force applied in %s" % vk)
            return False
        jvis = 0.0 if (case["hide"] and case["sub"]) else Jt[t]
        base = Lt[t] + jvis
        exp = base + (0.0 if case["sub"] else fa)
        tol = 1e-11 * (abs(ftJ[("F", t)]) + abs(fa) + abs(Jt[t]) + abs(ft)) + 1e-12 * scale
        zeroF = all(x == 0.0 for p in case["F"][t] for x in p)
        if abs(ft - exp) > tol:
            # classify: which wrong expectation does the observation match?
            alt = {"wrong_step_geometry": (ftJ[("F", t + 1)] - (Jt[t + 1] if (case["hide"] and case["sub"]) else 0.0)) + (0.0 if case["sub"] else fa) if t + 1 < T_STEPS else None,
                   "applied_force_not_subtracted": base + fa if case["sub"] else None,
                   "applied_force_missing": base if not case["sub"] else None}
            kind = "closed_loop"
            for k, v in alt.items():
                if v is not None and abs(ft - v) <= tol:
                    kind = k
            viol(c, "%s:%s:%s:%s" % (kind, vk, opt, "closed" if zeroF else "fext"),
                        "%s step %d: reported total force %.15g; expected %.15g = projection of the physical forces at geometry %d (%.15g) + "
                        "Jacobian term (%.15g) %s force applied at step %d (%.15g)" % (full, t + 1, ft, exp, t, Lt[t], jvis, "without the" if case["sub"] else "+", t, fa),
                        files, payload)
            return False
        c.bump("closed_loop_checks" if zeroF else "prev_step_fext_checks")
        if case["hide"]:
            # hidden on request: what is reported beyond the projection of the physical forces is the sum of
            # the biases' forces (no Jacobian term)
            fb = sum(fl(bv["f"][0][0]) for bn, bv in e0["bias"].items() if bv["f"])
            L = Lt[t]
            exp_h = L + (0.0 if case["sub"] else fb)
            if abs(ft - exp_h) > tol + 1e-11 * abs(fb):
                viol(c, "jacobian_not_hidden:prev:" + ("sub" if case["sub"] else "nosub"),
                            "%s step %d: reported %.15g, projection of physical forces %.15g + bias forces %.15g" % (vk, t + 1, ft, L, fb), files, payload)
                return False
            c.bump("hidden_jacobian_prev_checks")
    return True


# ---------------------------------------------------------------------------------------------
# alchemical variable (simulated back end: E(lambda) = a lambda^2 + b lambda)
# ---------------------------------------------------------------------------------------------

def alch_case(rng, idx):
    a, b = rng.uniform(-5, 5), rng.uniform(-5, 5)
    lam = rng.uniform(0.05, 0.95)
    ext = idx % 2 == 0
    sub = (idx // 2) % 2 == 0
    k = rng.choice([-1, 1]) * rng.uniform(0.5, 4.0)
    return dict(idx=idx, a=a, b=b, lam=lam, ext=ext, sub=sub, k=k, temp=float(rng.randint(250, 350)), tfm=("same" if (idx // 4) % 2 == 0 else "prev"))


def alch_scenario(case, tfmode):
    cv = "colvar {\n  name cv1\n  outputTotalForce on\n  width 0.1\n"
    if case["sub"]:
        cv += "  subtractAppliedForce on\n"
    if case["ext"]:
        cv += "  extendedLagrangian on\n  extendedMass 500.0\n  extendedLangevinDamping 0.0\n  lowerBoundary 0.0\n  upperBoundary 1.0\n"
    cv += "  alchLambda {\n  }\n}\n"
    cfg = cv + "linear {\n  name lin\n  colvars cv1\n  centers 0.0\n  forceConstant %s\n}\n" % fnum(case["k"])
    s = "natoms 2\nmasses 1.0 1.0\ntfmode %s\ndt 1.0\ntemp %s\nalch %s %s %s\n" % (tfmode, fnum(case["temp"]), fnum(case["a"]), fnum(case["b"]), fnum(case["lam"]))
    s += "module\nconfig <<EOC\n" + cfg + "EOC\ninit\npos 0 0 0 1 0 0\n"
    s += "step\n" * 6
    return s, cfg


def check_alch(c, case, r, ev, sp, cfg):
    key = "alchLambda:%s:%s:%s" % ("ext" if case["ext"] else "plain", "sub" if case["sub"] else "nosub", case["tfm"])
    cfgev = [e for e in ev if e.get("ev") == "config"]
    st = steps_of(ev)
    if not r["complete"] or not cfgev or cfgev[0]["rc"] != 0 or len(st) != 6 or any(e["err"] for e in st):
        c.note_set("alch_rejected", "%s: %s" % (key, str((cfgev[0]["errs"] if cfgev else r["err"]))[:160]))
        return None
    prev_lambda = None
    for i, e in enumerate(st):
        lam = fl(e["alch"]["lambda"])          # value after this step (the engine receives the new lambda at the end)
        x = fl(e["cv"]["cv1"]["x"][0])
        ft = ft_of(e)
        lam_in = case["lam"] if prev_lambda is None else prev_lambda   # lambda the back end had during this step
        fsys = -(2.0 * case["a"] * lam_in + case["b"])
        fa = fl(e["bias"]["lin"]["f"][0][0])
        # the alchemical force is a current-step quantity of the back end and never contains Colvars' own force
        # (for an extended-Lagrangian variable the manual defines the total force as the force felt by the extended
        # coordinate from the system, here -dE/dlambda)
        exp = fsys
        if ft is None or abs(ft - exp) > 1e-12 * (abs(fsys) + abs(fa) + abs(ft)):
            viol(c, "alch_total_force:" + key, "step %d: lambda %.15g, reported total force %r, expected %.15g (-dE/dlambda %.15g, bias force %.15g)" % (
                i, lam_in, ft, exp, fsys, fa), [sp], payload={"config": cfg, "a": case["a"], "b": case["b"]})
            return False
        prev_lambda = lam
        c.bump("alch_steps_checked")
    return True


# alchemical variable plus biased alchFLambda variables: the force Colvars sends to the back end on dE/dlambda for a bias force F
# on an alchFLambda variable (f = -F) acts on lambda as d2E/dlambda2 * f; lambda's total force at the next evaluation is
# -dE/dlambda plus the sum of those terms over the forces actually sent at the previous step (none once a bias is deleted)
def alch2_case(rng, idx):
    return dict(idx=idx, a=rng.uniform(-5, 5), b=rng.uniform(-5, 5), lam=rng.uniform(0.05, 0.95), ext=(idx % 2 == 0), two=(idx % 3 != 0),
                k1=rng.uniform(0.1, 2.0), c1=rng.uniform(-3, 3), k2=rng.uniform(0.1, 2.0), c2=rng.uniform(-3, 3),
                delete_at=rng.choice([None, 2, 3, 4]), temp=float(rng.randint(250, 350)), T=8)


def alch2_scenario(case):
    cv = "colvar {\n  name cv1\n  outputTotalForce on\n  width 0.1\n"
    if case["ext"]:
        cv += "  extendedLagrangian on\n  extendedMass 500.0\n  extendedLangevinDamping 0.0\n  lowerBoundary 0.0\n  upperBoundary 1.0\n"
    cv += "  alchLambda {\n  }\n}\n"
    cfg = cv
    for n, k, cc in (("1", case["k1"], case["c1"]), ("2", case["k2"], case["c2"]))[:2 if case["two"] else 1]:
        cfg += "colvar {\n  name fl%s\n  alchFLambda {\n  }\n}\nharmonic {\n  name hf%s\n  colvars fl%s\n  centers %s\n  forceConstant %s\n}\n" % (n, n, n, fnum(cc), fnum(k))
    s = "natoms 2\nmasses 1.0 1.0\ntfmode same\ndt 1.0\ntemp %s\nalch %s %s %s\n" % (fnum(case["temp"]), fnum(case["a"]), fnum(case["b"]), fnum(case["lam"]))
    s += "module\nconfig <<EOC\n" + cfg + "EOC\ninit\npos 0 0 0 1 0 0\n"
    for t in range(case["T"]):
        if case["delete_at"] == t:
            s += "script " + json.dumps(["cv", "bias", "hf1", "delete"]) + "\n"
        s += "step\n"
    return s, cfg


def check_alch2(c, case, r, ev, sp, cfg):
    key = "alchFLambda:%s:%s:%s" % ("ext" if case["ext"] else "plain", "two_producers" if case["two"] else "one_producer",
                                    "bias_deleted" if case["delete_at"] is not None else "always_biased")
    cfgev = [e for e in ev if e.get("ev") == "config"]
    st = steps_of(ev)
    if not r["complete"] or not cfgev or cfgev[0]["rc"] != 0 or len(st) != case["T"] or any(e["err"] for e in st):
        c.note_set("alch_rejected", "%s: %s" % (key, str((cfgev[0]["errs"] if cfgev else r["err"]))[:160]))
        return None
    prev_lambda = None
    sent_prev = 0.0
    for i, e in enumerate(st):
        lam_in = case["lam"] if prev_lambda is None else prev_lambda
        fsys = -(2.0 * case["a"] * lam_in + case["b"])
        ft = ft_of(e)
        exp = fsys + 2.0 * case["a"] * sent_prev
        if ft is None or abs(ft - exp) > 1e-11 * (abs(fsys) + abs(2.0 * case["a"] * sent_prev) + abs(ft)):
            viol(c, "alch_indirect_force:" + key, "step %d: lambda %.15g: reported total force %r; -dE/dlambda %.15g + d2E/dlambda2 %.15g x force sent to the back end "
                 "on dE/dlambda at the previous step %.15g = %.15g" % (i, lam_in, ft, fsys, 2.0 * case["a"], sent_prev, exp), [sp],
                 payload={"config": cfg, "a": case["a"], "b": case["b"]})
            return False
        # forces sent at this step: minus the force of each live bias on its alchFLambda variable; cross-checked with what the
        # back end received
        sent = 0.0
        for n in ("1", "2")[:2 if case["two"] else 1]:
            bn = e["bias"].get("hf" + n)
            if bn is not None and bn.get("on"):
                sent += -fl(bn["f"][0][0])
        got = fl(e["alch"]["f"])
        if abs(got - sent) > 1e-11 * (abs(got) + abs(sent)) + 1e-300:
            viol(c, "alch_force_sent:" + key, "step %d: back end received %.15g on dE/dlambda, minus the bias forces on the alchFLambda variables is %.15g" % (i, got, sent), [sp],
                 payload={"config": cfg})
            return False
        sent_prev = sent
        prev_lambda = fl(e["alch"]["lambda"])
        c.bump("alch_indirect_steps_checked")
    return True


# components of a +/-1 combination switched on and off at run time (cv colvar <name> cvcflags): at every step the total
# force of the combination is the average, over the components active at that step, of the total forces of single-component
# twins (same component, same coefficient, same atoms) -- the documented projection for orthogonal unit-coefficient combinations
def cvcflags_case(rng, idx):
    sysm = corpus.make_system(rng, natoms=30)
    pool = list(range(1, 27))
    # the flags of cvcflags follow the library's own order of the components (by keyword, then by appearance): the
    # components are defined in that order
    kinds = sorted(rng.sample(["distance", "distanceZ", "angle", "dihedral", "distanceXY"], rng.choice([2, 2, 3])))
    comps = []
    for ct in kinds:
        o = {"axis": "axis"} if ct in ("distanceZ", "distanceXY") else {}
        cc = corpus.COMPONENTS[ct](rng, sysm, pool, o)
        cc["ctype"] = ct
        comps.append((cc, rng.choice([1.0, -1.0]), None))
    ex = ["outputTotalForce on"]
    text = corpus.colvar_block("cv1", comps, ex) + "\n"
    zero = "harmonic {\n  name z1\n  colvars cv1\n  centers 1.0\n  forceConstant 0.0\n}\n"
    for i, cpt in enumerate(comps):
        text += corpus.colvar_block("tw%d" % i, [cpt], ex) + "\n"
        zero += "harmonic {\n  name zt%d\n  colvars tw%d\n  centers 1.0\n  forceConstant 0.0\n}\n" % (i, i)
    n = len(comps)
    # sequence of flag patterns (never all off), each followed by two steps with new random forces
    pats = []
    for _ in range(6):
        while True:
            p_ = [rng.choice([0, 1]) for _ in range(n)]
            if any(p_):
                break
        pats.append(p_)
    pats.append([1] * n)
    steps = []
    pos = sysm["pos"]
    for p_ in pats:
        for _ in range(2):
            pos = [[x + rng.uniform(-0.1, 0.1) for x in q] for q in pos]
            steps.append((p_, pos, [[rng.uniform(-4, 4) for _ in range(3)] for _ in pos]))
    return dict(idx=idx, sysm=sysm, cfg=text + zero, n=n, pats=pats, steps=steps, kinds=kinds, temp=rng.choice([0.0, 300.0]),
                tfm=rng.choice(["same", "prev"]))


def cvcflags_scenario(case):
    s = corpus.scenario_header(case["sysm"], tfmode=case["tfm"], extra="dt 1.0\ntemp %s" % fnum(case["temp"]))
    s += "emit atoms off\nmodule\nconfig <<EOC\n" + case["cfg"] + "EOC\ninit\n"
    last = None
    for p_, pos, F in case["steps"]:
        if p_ != last:
            s += "script " + json.dumps(["cv", "colvar", "cv1", "cvcflags", " ".join(str(x) for x in p_)]) + "\n"
            last = p_
        s += corpus.pos_line(pos) + "\n" + corpus.fext_line(F) + "\nstep\n"
    return s


def check_cvcflags(c, case, r, ev, sp):
    key = "cvcflags:%s:%s:%s" % ("+".join(sorted(case["kinds"])), case["tfm"], "T0" if case["temp"] == 0.0 else "T300")
    cfgev = [e for e in ev if e.get("ev") in ("config", "script") and (e.get("rc") or e.get("err"))]
    st = steps_of(ev)
    if not r["complete"] or cfgev or len(st) != len(case["steps"]):
        c.inconc("cvcflags case: %s" % (str(cfgev[0].get("errs") or cfgev[0].get("res"))[:200] if cfgev else r["err"][-200:]))
        return False
    nchk = 0
    for i, (e, (p_, pos, F)) in enumerate(zip(st, case["steps"])):
        # with previous-step forces the first step after a change of the active set mixes two sets: not judged
        if case["tfm"] == "prev" and (i == 0 or case["steps"][i - 1][0] != p_):
            continue
        ft = e["cv"]["cv1"].get("ft")
        tw = [e["cv"]["tw%d" % k].get("ft") for k in range(case["n"])]
        if ft is None or any(t is None for t in tw):
            c.inconc("cvcflags case: total force not reported")
            return False
        act = [k for k in range(case["n"]) if p_[k]]
        exp = sum(fl(tw[k][0]) for k in act) / len(act)
        got = fl(ft[0])
        sc = sum(abs(fl(tw[k][0])) for k in act) + 1e-300
        if abs(got - exp) > 1e-10 * sc:
            viol(c, "cvcflags_total_force:" + key, "step %d, components active %s (request history %s): total force of the combination %.15g; average of the "
                 "single-component twins' total forces %.15g (%s)" % (i, p_, [q for q in case["pats"]][:case["pats"].index(p_) + 1], got, exp,
                                                                      [fl(tw[k][0]) for k in act]), [sp], payload={"config": case["cfg"]})
            return False
        nchk += 1
    c.bump("cvcflags_total_force_checks", nchk)
    return nchk > 0


# ---------------------------------------------------------------------------------------------

def run(tier, replay):
    c = common.Check("C07", tier)
    c.use_flavour("plain")
    c.rule = ("case = one variable (component variant or +/-1 combination of two components on disjoint atoms) x {subtractAppliedForce, "
              "hideJacobian, T=0 or 200-400 K, cell}; run in the previous-step convention (closed loop, random or zero external forces, "
              "geometry changing every step), in the same-step convention with and without the forcing biases; distinct = "
              "(variant, subtract, hide, T=0) whose previous-step closed loop, linearity and locality checks were all conclusive")
    c.assumptions = ["components of a combination use disjoint atoms (the manual requires mutually orthogonal components)",
                     "the Jacobian term of the manual, k_B T div(v), is evaluated by central differences (h=2e-3, 1e-3, Richardson) of the "
                     "inverse-gradient field measured through unit atomic forces; a non-converged estimate is inconclusive",
                     "k_B = 0.001987191 kcal/mol/K (real units)",
                     "raw total forces that are exactly 0.0 are not generated (known finding C04:subtract_skipped_on_exactly_zero_total_force)"]
    common.vbuild.ensure("plain", tools=["esim"])
    specs = plan(c.rng, tier)
    cases = []
    for i, sp in enumerate(specs):
        try:
            cases.append(gen_case(c.rng, i, sp, tier))
        except (ValueError, IndexError) as ex:
            c.inconc("generation failed: %s" % ex)

    def do(case):
        wd = os.path.join(c.work, "c%d" % case["idx"])
        rp = common.run_esim("plain", scen_P(case), wd, "P", timeout=300)
        rs = common.run_esim("plain", scen_S(case)[0], wd, "S", timeout=600)
        r0 = common.run_esim("plain", scen_S(case, biases="zero", with_fd=False)[0], wd, "S0", timeout=300)
        rn = common.run_esim("plain", scen_S(case, biases="none", with_fd=False)[0], wd, "SN", timeout=300)
        rj = rn
        if case["hide"]:
            rj = common.run_esim("plain", scen_S(case, biases="zero", with_fd=False, with_other=False)[0], wd, "SJ", timeout=300)
        return rp, rs, r0, rn, rj

    res = common.pmap(do, cases)
    for case, runs in zip(cases, res):
        c.count()
        bad = None
        for (r, ev, sp) in runs:
            cfg = [e for e in ev if e.get("ev") == "config"]
            if r["sig"]:
                viol(c, "crash:" + case["vkey"], "signal %s: %s" % (r["sig"], r["err"][-300:]), [sp])
                bad = "crash"
                break
            if not r["complete"] or not cfg or cfg[0]["rc"] != 0:
                bad = "config rejected or run incomplete: %s" % str((cfg[0]["errs"] if cfg else r["err"][-200:]))[:300]
                break
        if bad:
            if bad != "crash":
                c.inconc("%s: %s" % (case["vkey"], bad))
                c.note_set("variants_rejected", case["vkey"])
            continue
        if check_case(c, case, runs):
            c.nontrivial("%s|%s|%s|%s" % (case["vkey"], case["sub"], case["hide"], case["temp"] == 0.0))
            for comp in case["comps"]:
                c.note_set("component_variants_covered", comp["variant"])
                c.note_set("component_types_covered", comp["ctype"])
            if len(case["comps"]) > 1:
                c.bump("combination_cases_passed")
            c.sample({"variable": case["vkey"], "subtractAppliedForce": case["sub"], "hideJacobian": case["hide"], "temperature": case["temp"],
                      "cell": case["cell"], "numerical_divergence": case["fd"]})

    # alchemical variable
    nal = 16 if tier == "quick" else 160
    acases = [alch_case(c.rng, i) for i in range(nal)]

    def do_alch(case):
        s, cfg = alch_scenario(case, case["tfm"])
        return common.run_esim("plain", s, os.path.join(c.work, "alch%d" % case["idx"]), "A", timeout=120) + (cfg,)

    ncf = 16 if tier == "quick" else 200
    cfc = [cvcflags_case(c.rng.__class__(c.seed * 9176 + i), i) for i in range(ncf)]
    for case, (r, ev, sp) in zip(cfc, common.pmap(lambda cs: common.run_esim("plain", cvcflags_scenario(cs), os.path.join(c.work, "cvf%d" % cs["idx"]), "F", timeout=120), cfc)):
        c.count()
        if check_cvcflags(c, case, r, ev, sp):
            c.nontrivial("cvcflags|%s|%s|%s" % ("+".join(sorted(case["kinds"])), case["tfm"], case["temp"]))
    a2 = [alch2_case(c.rng, i) for i in range(nal)]

    def do_alch2(case):
        s_, cfg = alch2_scenario(case)
        return common.run_esim("plain", s_, os.path.join(c.work, "alchf%d" % case["idx"]), "A", timeout=120) + (cfg,)

    for case, (r, ev, sp, cfg) in zip(a2, common.pmap(do_alch2, a2)):
        c.count()
        if check_alch2(c, case, r, ev, sp, cfg):
            c.nontrivial("alchFLambda|%s|%s|%s" % (case["ext"], case["two"], case["delete_at"] is not None))
    for case, (r, ev, sp, cfg) in zip(acases, common.pmap(do_alch, acases)):
        c.count()
        ok = check_alch(c, case, r, ev, sp, cfg)
        if ok:
            c.nontrivial("alchLambda|%s|%s|%s" % (case["ext"], case["sub"], case["tfm"]))
            c.note_set("component_types_covered", "alchLambda")

    need = set(ct for ct, _ in SPECS)
    got = set(c.extra.get("component_types_covered", []))
    floor = (need <= got and c.extra.get("closed_loop_checks", 0) >= 30 and c.extra.get("prev_step_fext_checks", 0) >= 30
             and c.extra.get("linearity_checks", 0) >= 40 and c.extra.get("jacobian_divergence_checks", 0) >= 15
             and c.extra.get("combination_cases_passed", 0) >= 5)
    return c.finish(floor, "component types %s missing; closed loop %s, fext %s, linearity %s, divergence %s, combinations %s" % (
        sorted(need - got), c.extra.get("closed_loop_checks", 0), c.extra.get("prev_step_fext_checks", 0), c.extra.get("linearity_checks", 0),
        c.extra.get("jacobian_divergence_checks", 0), c.extra.get("combination_cases_passed", 0)))
