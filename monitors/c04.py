"""C04 - ABF stores the mean force per bin and applies its smoothed negative.

The engine simulator feeds positions (hence the variables' values, exactly) and atomic forces whose
projection on each variable is a chosen dyadic number s_t.  A reference model written from the manual
and README-totalforce attributes every sample to a bin, keeps (count, sum) per bin and predicts the
applied force.  Observed after every step: the samples/gradient arrays of the saved state and the
force the ABF bias puts on each variable.  With dyadic inputs all sums are exact.
"""
import math
import os
import re

import common
import ctl
from common import fnum, fl


class Dim:
    def __init__(self, name, lo, hi, w, periodic):
        self.name, self.lo, self.hi, self.w, self.periodic = name, lo, hi, w, periodic
        self.n = int(round((hi - lo) / w))

    def wrap(self, v):
        if not self.periodic:
            return v
        P = self.hi - self.lo
        c = 0.5 * (self.hi + self.lo)
        # the variable's own wrapping: interval of one period centred on wrapAround
        k = math.floor((v - c) / P + 0.5)
        return v - k * P

    def bin(self, v):
        return int(math.floor((v - self.lo) / self.w))


def gen_case(rng, idx, tier):
    nd = rng.choice([1, 1, 1, 2, 2, 3]) if tier != "quick" else rng.choice([1, 1, 2])
    tfm = rng.choice(["same", "prev"])
    periodic0 = (nd == 1 and rng.random() < 0.35)
    full = rng.choice([1, 2, 4, 6])
    mn = rng.choice([0, 1, full // 2]) if full > 1 else 0
    if mn >= full:
        mn = full - 1
    opts = dict(nd=nd, tfm=tfm, full=full, mn=mn, periodic=periodic0,
                maxforce=(rng.choice([None, 2.0, 0.5]) if rng.random() < 0.3 else None),
                apply=(rng.random() > 0.12),
                other=(rng.choice(["harmonic", "harmonic_sub", "walls_sub", None]) if nd == 1 else None),
                newruns=(rng.random() < 0.5))
    if opts["other"] == "walls_sub" and periodic0:
        opts["other"] = "harmonic_sub"
    # several variables, previous-step forces: some of the variables subtract the forces Colvars applied themselves
    # (subtractAppliedForce), the others leave it to the bias; the samples are the physical forces either way
    opts["sub_mask"] = [rng.random() < 0.5 for _ in range(nd)] if (nd > 1 and tfm == "prev") else [False] * nd
    T = 70 if tier == "quick" else 160
    dims = []
    names = ["d2", "d3", "d1"][:nd]
    # one-dimensional cases on a distance at 300 K: the total force then carries the Jacobian term k_B T * 2/r, reported
    # or hidden (hideJacobian: compensated by a force on the atoms and left out of the samples)
    opts["jac"] = None
    if nd == 1 and idx % 4 == 3:
        opts["jac"] = rng.choice(["show", "hide"])
        opts["periodic"] = periodic0 = False
        opts["other"] = None
        names = ["d1"]
    for n in names:
        if n == "d1":
            dims.append(Dim("d1", 2.0, 6.0, 1.0, False))
        else:
            w = rng.choice([0.5, 1.0])
            dims.append(Dim(n, -4.0, 4.0, w if nd < 3 else 2.0, periodic0 and n == "d2"))
    hist = []
    for d in dims:
        if d.periodic:
            # values beyond one period: the variable wraps them
            hist.append([ctl.dy(rng, -11.5, 11.5, 5) for _ in range(T + 1)])
        else:
            hist.append(ctl.tour(rng, T, d.lo, d.hi, bits=5))
    # revisit bins: make values cluster (few bins, many samples)
    s = [[ctl.dy(rng, -6, 6, 4) for _ in range(T + 1)] for _ in dims]
    runs = sorted(rng.sample(range(2, T - 1), 2)) if opts["newruns"] else []
    # a stop and a restart from the state file (text or binary) in a fresh module: the stored counts and gradients and the
    # applied force continue as if the run had not been interrupted
    restart = None
    if idx % 3 == 1:
        restart = (rng.choice([k for k in range(8, T - 8) if k not in runs]), rng.choice(["text", "binary"]))
    return dict(idx=idx, dims=dims, hist=hist, s=s, T=T, runs=runs, restart=restart, **opts)


def config(case):
    cfg = ""
    for d in case["dims"]:
        extra = ""
        if case["other"] in ("harmonic_sub", "walls_sub") and d.name == "d2":
            extra = "  subtractAppliedForce on\n"
        if case.get("sub_mask") and case["sub_mask"][case["dims"].index(d)]:
            extra = "  subtractAppliedForce on\n"
        if d.name == "d2":
            cv_extra = "    period 8.0\n" if d.periodic else ""
            cfg += ctl.cv_d2(d.lo, d.hi, d.w, extra=extra, cvc_extra=cv_extra)
        elif d.name == "d3":
            cfg += ctl.cv_d3(d.lo, d.hi, d.w, extra=extra)
        else:
            cfg += ctl.cv_d1(d.lo, d.hi, d.w, extra=extra)
    cfg += "abf {\n  colvars %s\n  fullSamples %d\n  minSamples %d\n" % (" ".join(d.name for d in case["dims"]), case["full"], case["mn"])
    if case["maxforce"] is not None:
        cfg += "  maxForce %s\n" % " ".join(fnum(case["maxforce"]) for _ in case["dims"])
    if not case["apply"]:
        cfg += "  applyBias off\n"
    if case.get("jac") == "hide":
        cfg += "  hideJacobian on\n"
    cfg += "}\n"
    if case["other"] == "walls_sub":
        # a second bias of another type whose force reaches the atoms by its own route (walls act on the actual coordinate),
        # non-zero inside the ABF grid
        cfg += "harmonicWalls {\n  colvars d2\n  lowerWalls -2.0\n  upperWalls 1.5\n  forceConstant 2.0\n}\n"
    elif case["other"]:
        cfg += "harmonic {\n  colvars d2\n  centers 1.0\n  forceConstant 0.5\n}\n"
    return cfg


def scenario(case):
    rst = case.get("restart")
    hdr = ctl.header(case["tfm"], extra="dt 1.0\ntemp %s%s" % ("300.0" if case.get("jac") else "0.0",
                                                               ("\nenv COLVARS_BINARY_RESTART %d" % (1 if rst[1] == "binary" else 0)) if rst else ""))
    s = hdr + "emit atoms off\nmodule\nconfig <<EOC\n" + config(case) + "EOC\ninit\n"
    last_lines = ""
    for t in range(case["T"] + 1):
        if rst and t == rst[0] + 1:
            # stop after step rst[0]; a fresh module reads the state and repeats that step
            s += "save c04st.colvars.state\ndelete\n" + hdr + "emit atoms off\nmodule\nconfig <<EOC\n" + config(case) + "EOC\ninprefix c04st\ninit\n"
            s += last_lines + "step\nmark repeat\n"
        kw = {}
        f = [[0.0, 0.0, 0.0] for _ in range(ctl.NATOMS)]
        for d, h, sv in zip(case["dims"], case["hist"], case["s"]):
            kw[d.name] = h[t]
            if d.name == "d2":
                f[2][2] += sv[t]
                f[3][2] -= sv[t]
            elif d.name == "d3":
                f[8][0] += sv[t]
                f[9][0] -= sv[t]
            else:
                f[1][0] += sv[t]
                f[0][0] -= sv[t]
        if t in case["runs"]:
            # a new run statement: the step just done is repeated
            s += "newrun\nstep\nmark repeat\n"
        last_lines = ctl.pos_line(**kw) + "\n" + "fext " + " ".join(fnum(x) for q in f for x in q) + "\n"
        s += last_lines
        s += "step\nsavestr\n"
    return s


def parse_abf_state(state, ncells, nd):
    m = re.search(r"\nsamples\n(.*?)\n\ngradient\n(.*?)\n(\n|\})", state, re.S)
    if not m:
        return None, None
    cnt = [int(x) for x in m.group(1).split()]
    grd = [float(x) for x in m.group(2).split()]
    if len(cnt) != ncells or len(grd) != ncells * nd:
        return None, None
    return cnt, grd


def ramp_inverse_weight(count, mn, full):
    if count <= mn:
        return 0.0
    if count < full:
        return (count - mn) / (count * float(full - mn))
    return 1.0 / count


def check_case(c, case, ev, sp):
    dims = case["dims"]
    nd = len(dims)
    shape = [d.n for d in dims]
    ncells = 1
    for n in shape:
        ncells *= n

    def addr(ix):
        a = 0
        for i, n in zip(ix, shape):
            a = a * n + i
        return a

    cnt = [0] * ncells
    sm = [[0.0] * nd for _ in range(ncells)]   # sum of samples per bin
    key = "nd%d:%s:%s%s%s%s%s" % (nd, case["tfm"], "periodic" if case["periodic"] else "open",
                                  ":other=" + case["other"] if case["other"] else "", "" if case["apply"] else ":noapply",
                                  ":jacobian_" + case["jac"] if case.get("jac") else "",
                                  ":restart_" + case["restart"][1] if case.get("restart") else "")
    KT = 0.001987191 * 300.0

    def jac_term(t_):
        # Jacobian term of a distance: k_B T d ln|J| / d xi = 2 k_B T / r, part of the total force unless hidden
        return (2.0 * KT / case["hist"][0][t_]) if case.get("jac") == "show" else 0.0
    steps = []
    i = 0
    evs = [e for e in ev if e["ev"] in ("step", "savestr", "mark")]
    # pair each step with the savestr that follows; repeated steps are marked
    seq = []
    j = 0
    while j < len(evs):
        e = evs[j]
        if e["ev"] == "step":
            nxt = evs[j + 1] if j + 1 < len(evs) else None
            if nxt and nxt["ev"] == "mark":
                seq.append((e, None, True))
                j += 2
                continue
            if nxt and nxt["ev"] == "savestr":
                seq.append((e, nxt, False))
                j += 2
                continue
        j += 1
    prev = None          # (bin index tuple or None, s vector, abf force vector, other force) of the previous *new* step
    n_samples = 0
    bins_hit = set()
    offgrid = 0
    for e, sv, repeated in seq:
        t = e["it"]
        vals = [d.wrap(h[t]) for d, h in zip(dims, case["hist"])]
        # the variable's reported value must be the imposed (wrapped) one
        for d, v in zip(dims, vals):
            if fl(e["cv"][d.name]["x"][0]) != v:
                c.violation("value_not_imposed:" + key, "step %d %s: %r vs %r" % (t, d.name, e["cv"][d.name]["x"][0], v), [sp])
                return False
        ix = tuple(d.bin(v) for d, v in zip(dims, vals))
        ok = all(0 <= i_ < n for i_, n in zip(ix, shape))
        if not ok:
            offgrid += 1
        s_now = [sv_[t] for sv_ in case["s"]]
        zero_k = None
        zero_set = set()
        if not repeated and case["tfm"] == "prev" and e["rel"] > 0 and prev is not None:
            for k_ in range(nd):
                subk = (case["other"] in ("harmonic_sub", "walls_sub") and k_ == 0) or (case.get("sub_mask") and case["sub_mask"][k_])
                if subk and prev[1][k_] + prev[4][k_] == 0.0:
                    zero_k = k_
                    zero_set.add(k_)
        if zero_k is not None and nd > 1:
            # (several variables: the known finding is reported once and the model follows the library -- the sample of that
            # component is the raw total force, 0 -- so that the rest of the history is still judged)
            if not case.get("_zero_reported"):
                case["_zero_reported"] = True
                c.violation("subtract_skipped_on_exactly_zero_total_force:" + key.split(":other")[0],
                            "step %d: variable %s: physical force %r + applied force %r = 0 exactly; reported total force %r" % (
                                t, dims[zero_k].name, prev[1][zero_k], prev[4][zero_k], e["cv"][dims[zero_k].name].get("ft")), [sp], payload={"config": config(case)})
        elif zero_k is not None:
            # the raw total force on the variable is exactly zero (physical force and Colvars' own
            # force cancel): Colvars decides from ft.norm2() > 0 whether a total force was measured
            # and skips the subtraction of its own force -> keyed separately (known finding)
            c.violation("subtract_skipped_on_exactly_zero_total_force:" + key.split(":other")[0],
                        "step %d: variable %s: physical force %r + applied force %r = 0 exactly; reported total force %r" % (
                            t, dims[zero_k].name, prev[1][zero_k], prev[4][zero_k], e["cv"][dims[zero_k].name].get("ft")), [sp], payload={"config": config(case)})
            return False
        if not repeated:
            # accumulation
            if case["tfm"] == "same":
                if e["rel"] > 0 and ok:
                    a = addr(ix)
                    cnt[a] += 1
                    for k in range(nd):
                        sm[a][k] += s_now[k] + jac_term(t)
                    n_samples += 1
                    bins_hit.add(a)
            else:
                if e["rel"] > 0 and prev is not None and prev[0] is not None:
                    a = addr(prev[0])
                    cnt[a] += 1
                    for k in range(nd):
                        x = prev[1][k]
                        if k in zero_set and nd > 1:
                            x = 0.0
                        if case["other"] == "harmonic" and dims[k].name == "d2":
                            x = x + prev[3]
                        sm[a][k] += x + jac_term(prev[5])
                    n_samples += 1
                    bins_hit.add(a)
        # predicted force
        pf = [0.0] * nd
        if case["apply"] and ok:
            a = addr(ix)
            fact = ramp_inverse_weight(cnt[a], case["mn"], case["full"])
            for k in range(nd):
                pf[k] = fact * (-sm[a][k])
            if nd == 1 and dims[0].periodic:
                avg = sum((-sm[b][0] / cnt[b]) if cnt[b] > 0 else 0.0 for b in range(ncells)) / ncells
                pf[0] -= avg
            if case["maxforce"] is not None:
                for k in range(nd):
                    if abs(pf[k]) > case["maxforce"]:
                        pf[k] = math.copysign(case["maxforce"], pf[k])
        of = e["bias"]["abf1"]["f"]
        for k in range(nd):
            o = fl(of[k][0])
            if abs(o - pf[k]) > 1e-12 * max(1.0, abs(pf[k])):
                c.violation("applied_force:" + key, "step %d (%s) var %s: applied %.17g, model %.17g (count %s)" % (
                    t, "repeat" if repeated else "new", dims[k].name, o, pf[k], cnt[addr(ix)] if ok else "off-grid"), [sp],
                    payload={"config": config(case)})
                return False
        # harmonic force on d2 at this step (dyadic: exact)
        other_f = 0.0
        if case["other"] and case["other"] != "walls_sub":
            w = dims[0].w
            diff = vals[0] - 1.0
            if dims[0].periodic:
                P = dims[0].hi - dims[0].lo
                diff -= P * math.floor(diff / P + 0.5)   # shortest image, as documented for periodic variables
            other_f = -(0.5 / (w * w)) * diff
        fa_obs = [fl(e["cv"][d_.name]["fa"][0]) for d_ in dims]
        prev = (ix if ok else None, s_now, pf, other_f, fa_obs, t)
        # stored data
        if sv is not None:
            oc, og = parse_abf_state(sv["state"], ncells, nd)
            if oc is None:
                c.inconc("cannot parse ABF state (%s)" % key)
                return False
            if oc != cnt:
                bad = [b for b in range(ncells) if oc[b] != cnt[b]]
                c.violation("counts:" + key, "step %d: bins %s stored %s, model %s" % (t, bad[:6], [oc[b] for b in bad[:6]], [cnt[b] for b in bad[:6]]),
                            [sp], payload={"config": config(case)})
                return False
            for b in range(ncells):
                for k in range(nd):
                    exp = (-sm[b][k] / cnt[b]) if cnt[b] > 0 else 0.0
                    o = og[b * nd + k]
                    # absolute term: in the previous-step convention the sample is (total - own force), and the
                    # own force is not dyadic once a ramp or a periodic average is involved
                    if abs(o - exp) > 6e-14 * abs(exp) + 1e-12:   # 14 significant digits: half a unit of the last digit is <= 5e-14 relative
                        c.violation("gradient:" + key, "step %d bin %d comp %d: stored %.17g, minus mean of samples %.17g (count %d)" % (
                            t, b, k, o, exp, cnt[b]), [sp], payload={"config": config(case)})
                        return False
    c.bump("samples_accumulated", n_samples)
    c.bump("offgrid_steps", offgrid)
    c.bump("steps_checked", len(seq))
    c.extra["max_bins_hit"] = max(c.extra.get("max_bins_hit", 0), len(bins_hit))
    if n_samples >= 20 and len(bins_hit) >= 3:
        c.nontrivial(key + ":full%d:min%d:max%s" % (case["full"], case["mn"], case["maxforce"]))
        c.note_set("timing_conventions", case["tfm"])
    return True


def run(tier, replay):
    c = common.Check("C04", tier)
    c.use_flavour("plain")
    c.rule = ("histories of imposed variable values and dyadic projected forces for 1-3 variables; per step the stored "
              "counts (==), stored mean gradients (printed precision) and applied ABF force are compared with the reference "
              "estimator; distinct = (dimension, timing convention, periodicity, other bias, ramp/cap options) with >=20 samples in >=3 bins")
    c.assumptions = ["variables are distanceZ components (Jacobian term zero) at temperature 0; distance with Jacobian is not modelled here",
                     "zero-mean for a periodic 1-D variable is realised by subtracting the grid average of the per-bin mean gradients"]
    common.vbuild.ensure("plain", tools=["esim"])
    common.vbuild.ensure("asan", tools=["esim"])
    c.use_flavour("asan")
    n = 192 if tier == "quick" else 2400
    cases = [gen_case(c.rng, i, tier) for i in range(n)]

    def do(case):
        # every sixth case also runs under ASan+UBSan (reports are fatal)
        flav = "asan" if case["idx"] % 6 == 0 else "plain"
        return common.run_esim(flav, scenario(case), os.path.join(c.work, "c%d" % case["idx"]), "abf", timeout=900)

    res = common.pmap(do, cases)
    for case, (r, ev, sp) in zip(cases, res):
        c.count()
        cfg = [e for e in ev if e["ev"] == "config"]
        if not r["complete"] or (cfg and cfg[0]["rc"] != 0):
            rep = common.sanitizer_report(r["err"])
            if rep:
                c.violation("sanitizer:" + common.colvars_frame(r["err"]), rep, [sp], payload={"config": config(case)})
            elif r["sig"]:
                c.violation("crash:nd%d:%s" % (len(case["dims"]), case["tfm"]), "signal %s: %s" % (r["sig"], r["err"][-300:]), [sp])
            else:
                c.inconc("case failed: %s" % ((cfg[0]["errs"] if cfg else r["err"][-200:]),))
            continue
        if check_case(c, case, ev, sp):
            c.sample({"nd": len(case["dims"]), "timing": case["tfm"], "fullSamples": case["full"], "minSamples": case["mn"],
                      "periodic": case["periodic"], "other_bias": case["other"], "maxForce": case["maxforce"],
                      "run_boundaries": case["runs"], "first_values": [h[:6] for h in case["hist"]]})
    tc = c.extra.get("timing_conventions", [])
    floor = (c.extra.get("samples_accumulated", 0) >= 1000 and len(tc) == 2 and c.extra.get("offgrid_steps", 0) >= 20
             and len(c.distinct) >= 10)
    return c.finish(floor, "samples %s, timing %s, off-grid %s" % (c.extra.get("samples_accumulated"), tc, c.extra.get("offgrid_steps")))
