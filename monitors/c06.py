"""C06 - restraints implement their documented potentials and time schedules.

For every case (restraint type x value type x schedule kind x random parameters) the same history of
imposed variable values is executed under three SEGMENTATIONS:
  one      one run statement in one process
  newrun   split at 1-2 steps into run statements of the same process (end of run, then the first
           step of the new run repeats the last step with the continuing flag, counter not advanced)
  restart  split at 1-2 steps with end of run, FRESH process, state file loaded
and compared step by step with refmodel/restraints.py, which is a function of the variable values and
of the absolute step number only.  Observed: bias energy (event log), centres / force constant /
accumulated work / stage / firstStep (state written after every step), x0_ / W_ columns of the
trajectory file, "dA/dLambda" lines of the log.
"""
import math
import os
import re
import sys

import common
import ctl
from common import fnum, fl

sys.path.insert(0, os.path.join(common.VERIF, "refmodel"))
import restraints as rm  # noqa: E402

RTOL = 1.0e-12          # closed forms
RTOL_STATE = 1.0e-10    # quantities that went through a state file (14 digits) in the restart segmentation
PRINT_TOL = 1.0e-5      # log lines are printed with 6 significant digits
NATOMS = 20
REFQ = [(1.0, 0.0, 0.0), (0.0, 1.0, 0.0), (0.0, 0.0, 1.0), (-1.0, -1.0, -1.0)]
BIAS = "r"

SCHED_OPTIONS = ("targetCenters", "targetForceConstant", "targetNumSteps", "targetNumStages", "lambdaSchedule",
                 "targetEquilSteps", "lambdaExponent", "decoupling", "outputAccumulatedWork", "outputCenters")
RTYPES = ("harmonic", "harmonicWalls", "linear", "histogramRestraint", "abmd")


# ---- controlled system (ctl.py atoms 1-12, plus 13-16 orientation, 17-20 distance pairs) ----------

def qmul_rot(q, v):
    q0, q1, q2, q3 = q
    R = [[q0 * q0 + q1 * q1 - q2 * q2 - q3 * q3, 2 * (q1 * q2 - q0 * q3), 2 * (q1 * q3 + q0 * q2)],
         [2 * (q1 * q2 + q0 * q3), q0 * q0 - q1 * q1 + q2 * q2 - q3 * q3, 2 * (q2 * q3 - q0 * q1)],
         [2 * (q1 * q3 - q0 * q2), 2 * (q2 * q3 + q0 * q1), q0 * q0 - q1 * q1 - q2 * q2 + q3 * q3]]
    return [sum(R[i][j] * v[j] for j in range(3)) for i in range(3)]


def positions20(v):
    p = ctl.positions(d1=v["d1"], d2=v["d2"], phi=v["phi"], d3=v["d3"])
    p[10] = [48.0, 48.0, 48.0]
    p[11] = [48.0 + v["vec"][0], 48.0 + v["vec"][1], 48.0 + v["vec"][2]]
    for r in REFQ:
        w = qmul_rot(v["quat"], r)
        p.append([64.0 + w[0], w[1], w[2]])
    p.append([0.0, 64.0, 0.0])
    p.append([0.0, 64.0, 3.0])
    p.append([v["pa"][0], 64.0 + v["pa"][1], v["pa"][2]])
    p.append([v["pb"][0], 64.0 + v["pb"][1], v["pb"][2]])
    return p


def pos_line(v):
    return "pos " + " ".join(fnum(x) for q in positions20(v) for x in q)


def header():
    return ("natoms %d\nmasses %s\ntfmode off\ndt 1.0\ntemp 300.0\nenv COLVARS_BINARY_RESTART 0\nkeeplog on\n"
            "emit atoms off\n" % (NATOMS, " ".join("1.0" for _ in range(NATOMS))))


def cv_def(name, width, period=0.0, wrap=None):
    """(config text, meta); wrap: wrapAround of a periodic component (the interval in which its value is reported; distances
    between values, and so every restraint, do not depend on it)"""
    w = fnum(width)
    if wrap is not None and name == "phi":
        return (ctl.cv_phi(width=width).replace("  dihedral {\n", "  dihedral {\n    wrapAround %s\n" % fnum(wrap)),
                dict(name=name, vtype="periodic", width=width, period=360.0, dim=1, wrap=wrap))
    if wrap is not None and name == "d2p":
        txt = ("colvar {\n  name d2p\n  width %s\n  distanceZ {\n    main { atomNumbers 3 }\n    ref { atomNumbers 4 }\n"
               "    axis (0, 0, 1)\n    period %s\n    wrapAround %s\n  }\n}\n" % (w, fnum(period), fnum(wrap)))
        return txt, dict(name=name, vtype="periodic", width=width, period=period, dim=1, wrap=wrap)
    if name == "d1":
        return ctl.cv_d1(width=width), dict(name=name, vtype="scalar", width=width, dim=1)
    if name == "d3":
        return ctl.cv_d3(width=width), dict(name=name, vtype="scalar", width=width, dim=1)
    if name == "phi":
        return ctl.cv_phi(width=width), dict(name=name, vtype="periodic", width=width, period=360.0, dim=1)
    if name == "d2p":
        txt = ("colvar {\n  name d2p\n  width %s\n  distanceZ {\n    main { atomNumbers 3 }\n    ref { atomNumbers 4 }\n"
               "    axis (0, 0, 1)\n    period %s\n  }\n}\n" % (w, fnum(period)))
        return txt, dict(name=name, vtype="periodic", width=width, period=period, dim=1)
    if name == "dir":
        txt = ("colvar {\n  name dir\n  width %s\n  distanceDir {\n    group1 { atomNumbers 11 }\n"
               "    group2 { atomNumbers 12 }\n  }\n}\n" % w)
        return txt, dict(name=name, vtype="unit3vector", width=width, dim=3)
    if name == "vec":
        txt = ("colvar {\n  name vec\n  width %s\n  distanceVec {\n    group1 { atomNumbers 11 }\n"
               "    group2 { atomNumbers 12 }\n  }\n}\n" % w)
        return txt, dict(name=name, vtype="3vector", width=width, dim=3)
    if name == "q":
        txt = ("colvar {\n  name q\n  width %s\n  orientation {\n    atoms { atomNumbers 13 14 15 16 }\n"
               "    refPositions %s\n  }\n}\n" % (w, " ".join("(%s, %s, %s)" % tuple(fnum(x) for x in r) for r in REFQ)))
        return txt, dict(name=name, vtype="quaternion", width=width, dim=4)
    if name == "dp":
        txt = ("colvar {\n  name dp\n  width %s\n  distancePairs {\n    group1 { atomNumbers 17 18 }\n"
               "    group2 { atomNumbers 19 20 }\n  }\n}\n" % w)
        return txt, dict(name=name, vtype="vector", width=width, dim=4)
    raise ValueError(name)


def fmt_val(vtype, c):
    if vtype in ("scalar", "periodic"):
        return fnum(c)
    return "(" + ", ".join(fnum(x) for x in c) + ")"


# ---- case generation ------------------------------------------------------------------------------

def combos():
    """(restraint type, value type, schedule kind)"""
    C = []
    for vt in ("scalar", "periodic", "periodicZ", "unit3vector", "quaternion", "3vector", "vector", "multi"):
        C.append(("harmonic", vt, "fixed"))
    for vt in ("scalar", "periodic", "3vector", "multi"):
        C.append(("harmonic", vt, "centres_cont"))
        C.append(("harmonic", vt, "centres_staged"))
    for vt in ("scalar", "periodic", "unit3vector", "quaternion"):
        for sk in ("k_cont", "k_staged", "k_lsched", "dec_cont", "dec_staged"):
            C.append(("harmonic", vt, sk))
    for vt in ("lower", "upper", "both", "both_klku", "periodic", "periodicZ", "multi"):
        C.append(("harmonicWalls", vt, "fixed"))
    for vt in ("lower", "both", "both_klku", "periodic"):
        for sk in ("k_cont", "k_staged", "k_lsched", "dec_cont", "dec_staged"):
            # (decoupling with two wall constants: both go from their values to 0 together; the library used to start from
            #  forceConstant instead - fixed, see known_findings.txt)
            C.append(("harmonicWalls", vt, sk))
    for vt in ("scalar", "multi"):
        for sk in ("fixed", "k_cont", "k_staged", "k_lsched", "dec_cont", "dec_staged"):
            C.append(("linear", vt, sk))
    for vt in ("vector", "scalars", "mixed"):
        C.append(("histogramRestraint", vt, "fixed"))
    for vt in ("scalar_increasing", "scalar_decreasing"):
        C.append(("abmd", vt, "fixed"))
    return C


CV_SETS = {
    ("harmonic", "scalar"): ["d1"], ("harmonic", "periodic"): ["phi"], ("harmonic", "periodicZ"): ["d2p"],
    ("harmonic", "unit3vector"): ["dir"], ("harmonic", "quaternion"): ["q"], ("harmonic", "3vector"): ["vec"],
    ("harmonic", "vector"): ["dp"], ("harmonic", "multi"): ["d1", "phi", "vec"],
    ("harmonicWalls", "lower"): ["d1"], ("harmonicWalls", "upper"): ["d1"], ("harmonicWalls", "both"): ["d1"],
    ("harmonicWalls", "both_klku"): ["d1"], ("harmonicWalls", "periodic"): ["phi"],
    ("harmonicWalls", "periodicZ"): ["d2p"], ("harmonicWalls", "multi"): ["d1", "d3"],
    ("linear", "scalar"): ["d1"], ("linear", "multi"): ["d1", "d3"],
    ("histogramRestraint", "vector"): ["dp"], ("histogramRestraint", "scalars"): ["d1", "d3"],
    ("histogramRestraint", "mixed"): ["dp", "d1"],
    ("abmd", "scalar_increasing"): ["d1"], ("abmd", "scalar_decreasing"): ["d1"],
}


def rand_unit(rng, n):
    while True:
        v = [ctl.dy(rng, -1, 1, 4) for _ in range(n)]
        if sum(x * x for x in v) > 0.1:
            return v


def norm(v):
    n = math.sqrt(sum(x * x for x in v))
    return [x / n for x in v]


def gen_history(rng, T):
    """imposed values for steps 0..T (index = step - first)"""
    d1 = ctl.tour(rng, T, 3.0, 6.0)              # walls / centres are taken inside [3, 6]
    d1 = [max(0.5, x) for x in d1]
    d3 = ctl.tour(rng, T, -2.0, 2.0)
    d2 = ctl.walk(rng, T, -6.0, 6.0, step=2.0, excursions=False)   # crosses +-period/2 (period 8)
    # dihedral: goes round the circle, so that it crosses +-180 and passes both walls from both sides
    phi = []
    a = ctl.dy(rng, -180, 180, 2)
    sgn = rng.choice([-1, 1])
    for _ in range(T + 1):
        phi.append(a)
        a += sgn * ctl.dy(rng, 5, 60, 2)
        if rng.random() < 0.15:
            sgn = -sgn
    vec, quat, pa, pb = [], [], [], []
    v = [ctl.dy(rng, 1, 3, 4), ctl.dy(rng, -2, 2, 4), ctl.dy(rng, -2, 2, 4)]
    q = norm(rand_unit(rng, 4))
    a_ = [ctl.dy(rng, 2, 5, 4), 0.0, ctl.dy(rng, 0, 3, 4)]
    b_ = [ctl.dy(rng, -5, -2, 4), ctl.dy(rng, 1, 3, 4), ctl.dy(rng, 0, 3, 4)]
    for _ in range(T + 1):
        vec.append(list(v))
        quat.append(list(q))
        pa.append(list(a_))
        pb.append(list(b_))
        for _try in range(50):
            w = [x + ctl.dy(rng, -1, 1, 4) for x in v]
            if 1.0 <= sum(x * x for x in w) <= 36.0:
                v = w
                break
        q = norm([x + 0.35 * rng.uniform(-1, 1) for x in q])
        a_ = [min(7.0, max(1.5, a_[0] + ctl.dy(rng, -1, 1, 4))), a_[1] + ctl.dy(rng, -0.5, 0.5, 4), a_[2] + ctl.dy(rng, -0.5, 0.5, 4)]
        b_ = [max(-7.0, min(-1.5, b_[0] + ctl.dy(rng, -1, 1, 4))), b_[1] + ctl.dy(rng, -0.5, 0.5, 4), b_[2] + ctl.dy(rng, -0.5, 0.5, 4)]
    return [dict(d1=d1[i], d2=d2[i], phi=phi[i], d3=d3[i], vec=vec[i], quat=quat[i], pa=pa[i], pb=pb[i]) for i in range(T + 1)]


def gen_case(rng, rtype, vtype, sk, idx):
    c = dict(rtype=rtype, vtype=vtype, sched=sk, idx=idx, opts=set())
    first = int(rng.choice([0, 0, rng.randint(1, 500)]))
    c["first"] = first
    # schedule
    alpha = rng.choice([1.0, 1.0, 2.0, 4.0, 1.5])
    c["alpha"] = alpha
    c["equil"] = 0
    c["lambdas"] = None
    c["dec"] = sk.startswith("dec")
    if sk == "fixed":
        T = rng.randint(12, 20)
        c["kind"] = "fixed"
        c["N"] = 0
        c["nst"] = 0
    elif sk in ("centres_cont", "k_cont", "dec_cont"):
        N = rng.randint(6, 14)
        T = N + rng.randint(3, 6)
        c["kind"] = "cont"
        c["N"] = N
        c["nst"] = 0
    else:
        N = rng.randint(3, 6)
        nst = rng.randint(3, 4)
        T = (nst + 1) * N + rng.randint(0, N - 1)
        c["kind"] = "staged"
        c["N"] = N
        c["nst"] = nst
        if sk == "k_lsched":
            lam = sorted(ctl.dy(rng, 0, 1, 4) for _ in range(nst + 1))
            if rng.random() < 0.5:
                lam[0], lam[-1] = 0.0, 1.0
            c["lambdas"] = lam
        if sk != "centres_staged":
            c["equil"] = rng.choice([0, 1, 1, 2]) if N > 2 else rng.choice([0, 1])
    c["T"] = T
    hist = gen_history(rng, T)
    names = list(CV_SETS[(rtype, vtype)])
    if len(names) > 1 and rng.random() < 0.6:
        # the variables are listed (and their per-variable parameters given) in another order than the names sort
        rng.shuffle(names)
        if names == sorted(names):
            names.reverse()
        c["opts"].add("vars_not_in_name_order")
    cfg = "colvarsTrajFrequency 1\n"
    cvs = []
    for n in names:
        if n == "phi":
            w = rng.choice([8.0, 16.0, 32.0])
        elif n == "q" or n == "dir":
            w = rng.choice([0.25, 0.5, 1.0])
        else:
            w = rng.choice([0.25, 0.5, 1.0, 2.0])
        wrap = None
        if n in ("phi", "d2p") and rng.random() < 0.5:
            wrap = rng.choice([180.0, 90.0, -120.0]) if n == "phi" else rng.choice([4.0, 2.0, -3.0])
        txt, meta = cv_def(n, w, period=8.0, wrap=wrap)
        cfg += txt
        cvs.append(meta)
    c["cvs"] = cvs

    def rand_centre(meta, spread=False):
        n = meta["name"]
        if n == "d1":
            return ctl.dy(rng, 3, 6)
        if n == "d3":
            return ctl.dy(rng, -2, 2)
        if n == "phi":
            return rng.choice([ctl.dy(rng, -180, 180, 2), ctl.dy(rng, 150, 180, 2), ctl.dy(rng, -180, -150, 2)])
        if n == "d2p":
            return rng.choice([ctl.dy(rng, -4, 4), ctl.dy(rng, 3, 4), ctl.dy(rng, -4, -3)])
        if n == "dir":
            return rand_unit(rng, 3)
        if n == "q":
            return rand_unit(rng, 4)
        if n == "vec":
            return [ctl.dy(rng, -3, 3, 4) for _ in range(3)]
        if n == "dp":
            return [ctl.dy(rng, 2, 9, 4) for _ in range(4)]
        raise ValueError(n)

    b = "%s {\n name %s\n colvars %s\n outputEnergy on\n" % (rtype, BIAS, " ".join(names))
    k0 = ctl.dy(rng, 0.5, 8, 3)
    k1 = ctl.dy(rng, 0.5, 12, 3)
    if rtype == "linear":
        k0 = rng.choice([-1, 1]) * k0
        k1 = rng.choice([-1, 1]) * k1
    if sk in ("k_staged", "k_lsched") and rng.random() < 0.3 and rtype == "harmonic":
        k0 = 0.0       # the documented use: introduce the restraint from zero
    c["k0"], c["k1"] = k0, k1

    if rtype in ("harmonic", "linear"):
        cen = [rand_centre(m) for m in cvs]
        c["centers"] = cen
        b += " centers %s\n" % " ".join(fmt_val(m["vtype"], x) for m, x in zip(cvs, cen))
        if rtype == "harmonic" and rng.random() < 0.5:
            b += " outputCenters on\n"
            c["opts"].add("outputCenters")
            c["out_centers"] = True
        if sk.startswith("centres"):
            tgt = []
            for m, x in zip(cvs, cen):
                if m["name"] == "phi":
                    tgt.append(x + rng.choice([-1, 1]) * ctl.dy(rng, 20, 120, 2))    # may cross +-180
                elif m["name"] == "d1":
                    tgt.append(ctl.dy(rng, 3, 6))
                else:
                    tgt.append(rand_centre(m))
            c["target"] = tgt
            # does a periodic centre leave its wrapping interval on the way?
            c["cross"] = any(m.get("period") and math.floor((a + 0.5 * m["period"]) / m["period"]) != math.floor((b_ + 0.5 * m["period"]) / m["period"])
                             for m, a, b_ in zip(cvs, cen, tgt))
            b += " targetCenters %s\n" % " ".join(fmt_val(m["vtype"], x) for m, x in zip(cvs, tgt))
            c["opts"].add("targetCenters")
    if rtype == "harmonicWalls":
        lows, ups = [], []
        for m in cvs:
            n = m["name"]
            if n == "d1":
                lo, up = ctl.dy(rng, 3, 4), ctl.dy(rng, 5, 6)
            elif n == "d3":
                lo, up = ctl.dy(rng, -2, -1), ctl.dy(rng, 1, 2)
            elif n == "phi":
                lo = ctl.dy(rng, -170, 60, 2)
                up = lo + ctl.dy(rng, 30, 110, 2)
            else:
                lo = ctl.dy(rng, -3.5, 0)
                up = lo + ctl.dy(rng, 1, 3.5)
            lows.append(lo)
            ups.append(up)
        have_l = vtype != "upper"
        have_u = vtype != "lower"
        c["lower"] = lows if have_l else None
        c["upper"] = ups if have_u else None
        if have_l:
            b += " lowerWalls %s\n" % " ".join(fnum(x) for x in lows)
        if have_u:
            b += " upperWalls %s\n" % " ".join(fnum(x) for x in ups)
        c["kl"] = c["ku"] = None
        if vtype == "both_klku":
            which = rng.choice(["both", "both", "lower", "upper"])
            if which in ("both", "lower"):
                c["kl"] = ctl.dy(rng, 0.5, 8, 3)
                b += " lowerWallConstant %s\n" % fnum(c["kl"])
            if which in ("both", "upper"):
                c["ku"] = ctl.dy(rng, 0.5, 8, 3)
                b += " upperWallConstant %s\n" % fnum(c["ku"])
        # values AT the walls: impose a wall value exactly at a few steps
        for i in range(0, T + 1, 5):
            if cvs[0]["name"] == "d1":
                hist[i]["d1"] = rng.choice([lows[0] if have_l else ups[0], ups[0] if have_u else lows[0]])
    if rtype in ("harmonic", "harmonicWalls", "linear"):
        b += " forceConstant %s\n" % fnum(k0)
        if sk in ("k_cont", "k_staged", "k_lsched"):
            b += " targetForceConstant %s\n" % fnum(k1)
            c["opts"].add("targetForceConstant")
        if c["dec"]:
            b += " decoupling on\n"
            c["opts"].add("decoupling")
        if c["kind"] != "fixed":
            b += " targetNumSteps %d\n" % c["N"]
            c["opts"].add("targetNumSteps")
        if c["kind"] == "staged" and sk != "k_lsched":
            b += " targetNumStages %d\n" % c["nst"]
            c["opts"].add("targetNumStages")
        if sk == "k_lsched":
            b += " lambdaSchedule %s\n" % " ".join(fnum(x) for x in c["lambdas"])
            c["opts"].add("lambdaSchedule")
        if c["equil"]:
            b += " targetEquilSteps %d\n" % c["equil"]
            c["opts"].add("targetEquilSteps")
        if sk not in ("fixed", "centres_cont", "centres_staged"):
            if alpha != 1.0:
                b += " lambdaExponent %s\n" % fnum(alpha)
                c["opts"].add("lambdaExponent")
        else:
            c["alpha"] = 1.0
        if c["kind"] == "cont":
            b += " outputAccumulatedWork on\n"
            c["opts"].add("outputAccumulatedWork")
            c["out_work"] = True
    if rtype == "histogramRestraint":
        width = rng.choice([0.5, 1.0, 2.0])
        nb = rng.randint(4, 8)
        lo = rng.choice([1.0, 2.0, 0.5]) if vtype != "scalars" else rng.choice([-3.0, -2.0])
        if vtype == "scalars":
            nb = max(nb, int(math.ceil((7.0 - lo) / width)))
        up = lo + nb * width
        c["h"] = dict(lower=lo, width=width, nbins=nb, upper=up)
        mode = rng.choice(["exact", "unnormalised"])
        ref = [ctl.dy(rng, 0, 4, 3) + 0.125 for _ in range(nb)]
        if mode == "exact":
            # dyadic weights with an exactly representable unit integral: all mass in power-of-two pieces
            ref = [0.0] * nb
            pieces = [0.5, 0.25, 0.125, 0.125]
            for pz in pieces:
                ref[rng.randrange(nb)] += pz / width
        c["h"]["ref"] = ref
        c["h"]["sigma"] = None
        b += " lowerBoundary %s\n upperBoundary %s\n width %s\n" % (fnum(lo), fnum(up), fnum(width))
        if rng.random() < 0.6:
            c["h"]["sigma"] = ctl.dy(rng, 0.25, 2, 3)
            b += " gaussianSigma %s\n" % fnum(c["h"]["sigma"])
        b += " refHistogram %s\n forceConstant %s\n" % (" ".join(fnum(x) for x in ref), fnum(k0))
    if rtype == "abmd":
        decr = vtype.endswith("decreasing")
        c["decreasing"] = decr
        c["stop"] = ctl.dy(rng, 2.5, 4.5) if decr else ctl.dy(rng, 4.5, 6.5)   # the first value may already be beyond it
        if idx % 2 == 1:
            # the bias is defined while the variable is already beyond the stopping value (in the ratchet's direction)
            c["stop"] = hist[0]["d1"] + (0.5 if decr else -0.5)
        b += " forceConstant %s\n stoppingValue %s\n" % (fnum(k0), fnum(c["stop"]))
        if decr:
            b += " decreasing on\n"
    b += "}\n"
    c["cfg"] = cfg + b
    c["hist"] = hist
    # split points (absolute steps); biased towards stage boundaries and their neighbours
    S = []
    for _ in range(2):
        cand = list(range(first + 1, first + T))
        if c["N"] and rng.random() < 0.6:
            cand = [first + j * c["N"] + d for j in range(0, T // c["N"] + 1) for d in (-1, 0, 1)
                    if first < first + j * c["N"] + d < first + T]
        nsp = rng.choice([1, 2])
        S.append(sorted(set(rng.choice(cand) for _ in range(nsp))))
    c["splits_newrun"], c["splits_restart"] = S
    return c


# ---- scenarios ------------------------------------------------------------------------------------

def scen_segment(c, prefix, steps, first_proc, inprefix=None, newrun_after=()):
    """one process: steps = list of absolute steps to execute (the first one is a repetition when the
    process starts from a state file)"""
    s = header() + "module\n"
    if first_proc and c["first"]:
        s += "setstep %d\n" % c["first"]
    if inprefix:
        s += "inprefix %s\n" % inprefix
    s += "prefix %s\nconfig <<EOC\n%sEOC\ninit\n" % (prefix, c["cfg"])
    for t in steps:
        s += pos_line(c["hist"][t - c["first"]]) + "\nstep\nsavestr\n"
        if t in newrun_after:
            s += "endrun\nnewrun\n" + pos_line(c["hist"][t - c["first"]]) + "\nstep\nsavestr\n"
    s += "endrun\n"
    return s


def run_case_seg(c, seg, wd, flavour="plain"):
    """returns dict(ok, events=[list per process], traj=[paths], sp=[scenario files], why)"""
    first, T = c["first"], c["T"]
    allsteps = list(range(first, first + T + 1))
    tag = "c%d_%s%s" % (c["idx"], seg, "" if flavour == "plain" else "_" + flavour)
    out = dict(ev=[], traj=[], sp=[], ok=True, why="")
    if seg == "one" or seg == "newrun":
        pre = os.path.join(wd, tag)
        nr = c["splits_newrun"] if seg == "newrun" else ()
        r, ev, sp = common.run_esim(flavour, scen_segment(c, pre, allsteps, True, newrun_after=nr), wd, tag, timeout=600)
        out["ev"].append(ev)
        out["traj"].append(pre + ".colvars.traj")
        out["sp"].append(sp)
        out["r"] = r
        out.setdefault("errs", []).append(r["err"])
        if not r["complete"]:
            out["ok"] = False
            out["why"] = "process incomplete rc=%s sig=%s timeout=%s: %s" % (r["rc"], r["sig"], r["timeout"], r["err"][-300:])
        return out
    bounds = [first] + list(c["splits_restart"]) + [first + T]
    prev = None
    for i in range(len(bounds) - 1):
        a, b_ = bounds[i], bounds[i + 1]
        pre = os.path.join(wd, "%s_p%d" % (tag, i))
        r, ev, sp = common.run_esim(flavour, scen_segment(c, pre, list(range(a, b_ + 1)), i == 0, inprefix=prev), wd,
                                    "%s_p%d" % (tag, i), timeout=600)
        out["ev"].append(ev)
        out["traj"].append(pre + ".colvars.traj")
        out["sp"].append(sp)
        out["r"] = r
        out.setdefault("errs", []).append(r["err"])
        if not r["complete"]:
            out["ok"] = False
            out["why"] = "process %d incomplete rc=%s sig=%s timeout=%s: %s" % (i, r["rc"], r["sig"], r["timeout"], r["err"][-300:])
            return out
        prev = pre
    return out


# ---- parsing --------------------------------------------------------------------------------------

def floats(txt):
    return [float(x) for x in txt.replace("(", " ").replace(")", " ").replace(",", " ").split()]


def parse_state(st):
    d = {}
    for key in ("firstStep", "stage"):
        m = re.search(r"^\s*%s\s+(-?\d+)\s*$" % key, st, re.M)
        if m:
            d[key] = int(m.group(1))
    for key in ("forceConstant", "accumulatedWork", "refValue"):
        m = re.search(r"^\s*%s\s+(\S+)\s*$" % key, st, re.M)
        if m:
            d[key] = float(m.group(1))
    m = re.search(r"^\s*centers\s+(.*)$", st, re.M)
    if m:
        d["centers"] = floats(m.group(1))
    return d


def parse_traj(path, cvs):
    """list of (step, dict label -> list of floats)"""
    rows = []
    if not os.path.exists(path):
        return rows
    dims = {}
    for m in cvs:
        dims[m["name"]] = m["dim"]
        dims["x0_" + m["name"]] = m["dim"]
    labels = None
    for line in open(path):
        if line.startswith("#"):
            labels = line[1:].split()
            continue
        if not line.strip() or labels is None:
            continue
        v = floats(line)
        row = {}
        i = 0
        for lab in labels:
            n = dims.get(lab, 1)
            row[lab] = v[i:i + n]
            i += n
        if i != len(v):
            row["_bad"] = True
        rows.append((int(v[0]), row))
    return rows


TI_RE = re.compile(r"Restraint (\S+) Lambda= (\S+) dA/dLambda= (\S+)")


def collect(c, res):
    """per-step observations, in execution order"""
    obs = []
    ti = []
    for ev in res["ev"]:
        cur = None
        for e in ev:
            if e["ev"] == "step":
                cur = dict(it=e["it"], rel=e["rel"], cont=e["cont"], rc=e["rc"], err=e["err"],
                           e=fl(e["bias"][BIAS]["e"]) if BIAS in e.get("bias", {}) else None,
                           x=[[fl(z) for z in e["cv"][m["name"]]["x"]] for m in c["cvs"]], state=None)
                obs.append(cur)
                for l in e.get("log", []):
                    m = TI_RE.search(l)
                    if m:
                        ti.append(dict(it=e["it"], lam=float(m.group(2)), val=float(m.group(3)), cont=e["cont"]))
            elif e["ev"] == "savestr" and cur is not None:
                cur["state"] = parse_state(e["state"])
                cur = None
    return obs, ti


# ---- the model, evaluated along the history ---------------------------------------------------------

def cvval(meta, x):
    return x[0] if meta["dim"] == 1 else x


def model_run(c, xs, delta):
    """xs: dict step -> list of values (one per variable). returns dict step -> expectations"""
    first, T = c["first"], c["T"]
    rtype, sk = c["rtype"], c["sched"]
    cvs = c["cvs"]
    sch = rm.Schedule(c["kind"] if c["kind"] != "fixed" else "fixed", first, c["N"], c["nst"], c["lambdas"], delta)
    out = {}
    W = 0.0
    Wabs = 0.0
    kprev = None
    cprev = None
    abmd = rm.ABMD(c["k0"], c["stop"], c["decreasing"]) if rtype == "abmd" else None
    if rtype == "harmonicWalls":
        kg, rl, ru = rm.walls_constants(c["k0"], c["kl"], c["ku"], c["lower"] is not None, c["upper"] is not None)
    for t in range(first, first + T + 1):
        x = [cvval(m, v) for m, v in zip(cvs, xs[t])]
        lam = sch.lam(t)
        o = dict(lam=lam, stage=sch.stage(t), skip=False)
        # force constant
        kchg = sk in ("k_cont", "k_staged", "k_lsched", "dec_cont", "dec_staged")
        kstart = kg if rtype == "harmonicWalls" else c["k0"]
        k = rm.force_constant(kstart, c["k1"], lam, c["alpha"], c["dec"]) if kchg else kstart
        o["k"] = k
        # centres
        cen = None
        if rtype in ("harmonic", "linear"):
            if sk.startswith("centres"):
                cen = [rm.interpolate(m["vtype"], a, b_, lam) for m, a, b_ in zip(cvs, c["centers"], c["target"])]
            else:
                cen = [norm(a) if m["vtype"] in ("unit3vector", "quaternion") else a for m, a in zip(cvs, c["centers"])]
            o["centers"] = cen
        # energy
        if rtype == "harmonic":
            dudk, cond = rm.harmonic_dU_dk(x, cen, cvs)
            E = k * dudk
            esc = 0.0
            for xi, ci, m in zip(x, cen, cvs):
                d2, cn = rm.dist2(m["vtype"], xi, ci, m.get("period", 0.0))
                mag = max([1.0, m.get("period", 0.0)] + [abs(z) for z in (xi if m["dim"] > 1 else [xi])]
                          + [abs(z) for z in (ci if m["dim"] > 1 else [ci])])
                esc += abs(k) / m["width"] ** 2 * math.sqrt(d2) * mag * (cn if cn != float("inf") else 1e300) * 8
            o["tolE"] = RTOL * abs(E) + 1e-15 * esc
        elif rtype == "harmonicWalls":
            dudk, tie = rm.walls_dU_dk(x, c["lower"], c["upper"], rl, ru, cvs)
            E = k * dudk
            o["skip"] = tie
            esc = sum(abs(k) * max(rl, ru) / m["width"] ** 2 * math.sqrt(2 * dudk * m["width"] ** 2 / max(min(rl, ru), 1e-300) + 1e-300)
                      * max(1.0, m.get("period", 0.0), abs(xi)) * 8 for xi, m in zip(x, cvs))
            o["tolE"] = RTOL * abs(E) + 1e-15 * esc
        elif rtype == "linear":
            dudk = rm.linear_dU_dk(x, cen, cvs)
            E = k * dudk
            o["tolE"] = RTOL * abs(E) + 1e-15 * sum(abs(k) / m["width"] * max(1.0, abs(xi), abs(ci)) * 8 for xi, ci, m in zip(x, cen, cvs))
        elif rtype == "histogramRestraint":
            h = c["h"]
            vals = []
            for xi, m in zip(x, cvs):
                vals += (xi if m["dim"] > 1 else [xi])
            sigma = h["sigma"] if h["sigma"] is not None else 2.0 * h["width"]
            ref, integral = rm.histogram_reference(h["ref"], h["width"])
            E = rm.histogram_energy_documented(c["k0"], vals, h["lower"], h["width"], h["nbins"], sigma, ref)
            o["sumsq"] = rm.histogram_sumsq(vals, h["lower"], h["width"], h["nbins"], sigma, ref)
            o["M"] = len(vals)
            dudk = 0.0
            o["tolE"] = 1e-11 * abs(E) + 1e-13 * abs(c["k0"])
        else:
            E, ref = abmd.step(x[0])
            o["ref"] = ref
            dudk = 0.0
            o["tolE"] = RTOL * abs(E) + 1e-15 * abs(c["k0"]) * 100
        o["E"] = E
        o["dudk"] = dudk
        # accumulated work (continuous schedules)
        if c.get("out_work"):
            term = 0.0
            if t > first:
                if kchg:
                    term = dudk * (k - kprev)
                else:
                    for xi, ci, cp, m in zip(x, cen, cprev, cvs):
                        if m["dim"] == 1:
                            f = rm.harmonic_force_scalar(k, xi, ci, m)
                            term += f * rm.sdiff(ci, cp, m.get("period", 0.0))
                        else:
                            term += sum(-k * (a - b_) / m["width"] ** 2 * (b_ - p_) for a, b_, p_ in zip(xi, ci, cp))
            W += term
            Wabs += abs(term)
            o["W"] = W
            o["Wabs"] = Wabs
        kprev = k
        cprev = cen
        out[t] = o
    return out, sch


def ti_expect(c, mod, sch):
    """for every completed stage j: candidate means of dU/dLambda over each window of N - equil
    consecutive steps inside the stage (the manual does not say at which offset a stage starts)"""
    first, N, e = c["first"], c["N"], c["equil"]
    kstart = c["k0"]
    if c["rtype"] == "harmonicWalls":
        kstart = rm.walls_constants(c["k0"], c["kl"], c["ku"], c["lower"] is not None, c["upper"] is not None)[0]
    exp = []
    for j in range(0, sch.nstages + 1):
        lo, hi = first + j * N, first + (j + 1) * N
        if hi > first + c["T"]:
            break
        lamj = sch.stage_lambda(j)
        coup = 1.0 - lamj if c["dec"] else lamj
        fac = rm.dk_dcoupling(kstart, c["k1"], coup, c["alpha"], c["dec"])
        top = min(hi + sch.delta, first + c["T"])
        samples = {t: fac * mod[t]["dudk"] for t in range(lo, top + 1) if t in mod}
        wins = rm.window_means(samples, lo, top, N - e)
        exp.append(dict(stage=j, coupling=coup, windows=wins, lo=lo, hi=hi))
    return exp


# ---- comparison -----------------------------------------------------------------------------------

def close(a, b, tol):
    return abs(a - b) <= tol


def compare(c, seg, res, ref_one, cobj):
    """returns (list of (what, text), info); an empty list = fully compared and agreeing.  At most one
    disagreement per root cause: the first step at which the schedule / energy / work disagrees ends
    the step-by-step comparison (everything after it is a consequence).
    ref_one: observations of the single-run history of the same case (None when seg == 'one')"""
    bad = []
    obs, ti = collect(c, res)
    first, T = c["first"], c["T"]
    # 1. the history executed is the one intended
    seen = [o["it"] for o in obs]
    want = sorted(set(range(first, first + T + 1)))
    if not seen or sorted(set(seen)) != want:
        return [("step_counter", "steps executed %s..%s (%d distinct) instead of %d..%d"
                 % (min(seen or [0]), max(seen or [0]), len(set(seen)), first, first + T))], None
    for o in obs:
        if o["rc"] != 0 or o["err"] != 0 or o["e"] is None:
            return [("error_raised", "step %d: return code %s, error bits %s" % (o["it"], o["rc"], o["err"]))], None
    xs = {}
    for o in obs:
        if o["it"] in xs and xs[o["it"]] != o["x"]:
            return [("value_changes_on_repeat", "step %d: variable value differs between the two evaluations" % o["it"])], None
        xs[o["it"]] = o["x"]
    # 2. model: the offset of staged schedules (0 or 1 step) is read off the single run
    deltas = [0, 1] if c["kind"] == "staged" else [0]
    if ref_one is not None and ref_one.get("delta") is not None:
        deltas = [ref_one["delta"]]
    best = None
    for dl in deltas:
        mod, sch = model_run(c, xs, dl)
        errs, nok, complete = compare_steps(c, seg, obs, mod, res)
        if best is None or nok > best[4]:
            best = (errs, dl, mod, sch, nok, complete)
    errs, dl, mod, sch, nok, complete = best
    bad += errs
    info = dict(delta=dl, obs=obs, ti=ti, complete=complete)
    # 3. segmentation-blind internal counters: equal to those of the single run at the same step
    if not bad:
        if ref_one is not None:
            r1 = {}
            for o in ref_one["obs"]:
                r1[o["it"]] = o
            for o in obs:
                a, b_ = r1[o["it"]]["state"] or {}, o["state"] or {}
                for key in ("stage", "firstStep"):
                    if a.get(key) != b_.get(key):
                        bad.append((key, "step %d: %s is %s, in the single run %s" % (o["it"], key, b_.get(key), a.get(key))))
                if bad:
                    break
        else:
            for o in obs:
                if c["kind"] != "fixed" and (o["state"] or {}).get("firstStep") != first:
                    bad.append(("firstStep", "step %d: firstStep %s, restraint defined at step %d" % (o["it"], (o["state"] or {}).get("firstStep"), first)))
                    break
    # 4. TI output of staged force-constant schedules (first disagreeing line only)
    if c["kind"] == "staged" and c["sched"] != "centres_staged" and complete:
        exp = ti_expect(c, mod, sch)
        nbad0 = len(bad)
        for j, (line, ex) in enumerate(zip(ti, exp)):
            if len(bad) > nbad0:
                continue        # one TI disagreement per history: later lines of a resumed stage are consequences
            cls = ("first_stage_equil0" if c["equil"] == 0 else "first_stage") if j == 0 else "later_stage"
            l1 = ref_one["ti"][j] if (ref_one is not None and j < len(ref_one["ti"])) else None
            if not (ex["hi"] - 1 <= line["it"] <= ex["hi"] + 1):
                bad.append(("ti_stamp", "line %d printed at step %d, stage %d ends at step %d" % (j, line["it"], j, ex["hi"])))
            elif l1 is not None and l1["it"] != line["it"]:
                bad.append(("ti_stamp", "line %d printed at step %d, in the single run at step %d" % (j, line["it"], l1["it"])))
            elif not close(line["lam"], ex["coupling"], PRINT_TOL * max(abs(ex["coupling"]), 1e-3)):
                bad.append(("ti_lambda", "line %d: Lambda= %g, stage %d has %g" % (j, line["lam"], j, ex["coupling"])))
            elif not [w for w in ex["windows"] if close(line["val"], w[1], PRINT_TOL * abs(w[1]) + 1e-11 * w[2] + 1e-300)]:
                bad.append(("ti_value_" + cls, "stage %d (steps %d..%d, N=%d, equil=%d, exponent %g): dA/dLambda= %.6g printed at step %d%s; "
                            "means of dU/dLambda over the windows of %d consecutive steps of the stage: %s"
                            % (j, ex["lo"], ex["hi"], c["N"], c["equil"], c["alpha"], line["val"], line["it"],
                               (" (single run: %.6g)" % l1["val"]) if l1 is not None else "", c["N"] - c["equil"],
                               ["%d..%d: %.6g" % (w[0], w[0] + c["N"] - c["equil"] - 1, w[1]) for w in ex["windows"]])))
            elif l1 is not None and not close(l1["val"], line["val"], 2.5 * PRINT_TOL * max(abs(l1["val"]), abs(line["val"])) + 1e-300):
                bad.append(("ti_value_segmentation_" + cls, "stage %d: dA/dLambda= %.6g, in the single run %.6g" % (j, line["val"], l1["val"])))
        if len(bad) == nbad0 and len(ti) != len(exp):
            bad.append(("ti_count", "%d dA/dLambda lines printed at steps %s, %d stages completed in the history"
                        % (len(ti), [x["it"] for x in ti], len(exp))))
        cobj.bump("ti_lines_compared", min(len(ti), len(exp)))
    elif ti and not (c["kind"] == "staged" and c["sched"] != "centres_staged"):
        bad.append(("ti_count", "dA/dLambda printed without a staged force-constant schedule"))
    return bad, info


def compare_steps(c, seg, obs, mod, res):
    """returns (disagreements, number of step evaluations that agreed, history compared to its end)"""
    cvs = c["cvs"]
    rst = seg == "restart"
    rt = RTOL_STATE if rst else RTOL
    kchg = c["sched"] in ("k_cont", "k_staged", "k_lsched", "dec_cont", "dec_staged")
    nok = 0
    abmd_ref_reported = False
    bad = []
    for o in obs:
        t = o["it"]
        m = mod[t]
        if m["skip"]:
            nok += 1
            continue
        st = o["state"] or {}
        rep = " (repeated first step of a run)" if o["cont"] or (o["rel"] == 0 and t != c["first"]) else ""
        if c["rtype"] == "histogramRestraint":
            if not close(o["e"], m["E"], m["tolE"]):
                # is it the documented functional up to a constant factor?  (reported once; the rest of the
                # history is then compared with that factor)
                alt = 0.5 * c["k0"] * m["M"] * m["sumsq"]
                if not close(o["e"], alt, 1e-11 * abs(alt) + 1e-13 * abs(c["k0"])):
                    return bad + [("energy", "step %d: energy %.17g, documented form %.17g" % (t, o["e"], m["E"]))], nok, False
                if not bad:
                    bad.append(("energy_normalisation", "step %d: energy %.15g = (k/2) * M * sum_bins (h-h0)^2 with M=%d values and no bin width; "
                                "documented (k/2) * Integral (h-h0)^2 dxi = %.15g on the grid of h0 (ratio %.6g = M/width, width %g)"
                                % (t, o["e"], m["M"], m["E"], o["e"] / m["E"] if m["E"] else float("nan"), c["h"]["width"])))
            nok += 1
            continue
        if c["rtype"] == "abmd":
            E = m["E"]
            if "refValue" not in st or not close(st["refValue"], m["ref"], rt * max(1.0, abs(m["ref"]))):
                beyond = "refValue" in st and (st["refValue"] - c["stop"]) * (-1.0 if c["decreasing"] else 1.0) > 0
                if not beyond:
                    return [("abmd_reference", "step %d%s: refValue %s, min(max, stop) gives %.15g" % (t, rep, st.get("refValue"), m["ref"]))], nok, False
                if not abmd_ref_reported:
                    abmd_ref_reported = True
                    bad.append(("abmd_reference_beyond_stop", "step %d%s: value %.15g, refValue %.15g is beyond stoppingValue %.15g; "
                                "documented reference min(max_s xi_s, stop) = %.15g" % (t, rep, o["x"][0][0], st["refValue"], c["stop"], m["ref"])))
                # the energy is still compared, with the reference the library reports
                y, r = o["x"][0][0], st["refValue"]
                sg = -1.0 if c["decreasing"] else 1.0
                E = 0.5 * c["k0"] * (y - r) ** 2 if (y - r) * sg < 0 else 0.0
            if not close(o["e"], E, RTOL * abs(E) + 1e-13 * abs(c["k0"])):
                return bad + [("energy", "step %d%s: energy %.17g, half-harmonic about the reference %.17g" % (t, rep, o["e"], E))], nok, False
            nok += 1
            continue
        if c["kind"] != "fixed" and st.get("firstStep") != c["first"]:
            return [("firstStep", "step %d%s: firstStep %s in the state, restraint defined at step %d" % (t, rep, st.get("firstStep"), c["first"]))], nok, False
        if kchg:
            if "forceConstant" not in st or not close(st["forceConstant"], m["k"], rt * max(abs(m["k"]), 1e-3 * abs(c["k0"]) + 1e-3 * abs(c["k1"]))):
                return [("force_constant", "step %d%s: forceConstant %s in the state, schedule gives %.15g (lambda=%g, stage %d)"
                         % (t, rep, st.get("forceConstant"), m["k"], m["lam"], m["stage"]))], nok, False
        if c["sched"].startswith("centres"):
            cc = st.get("centers")
            flat = []
            for ci, mt in zip(m["centers"], cvs):
                flat += (ci if mt["dim"] > 1 else [ci])
            per = []
            for mt in cvs:
                per += [mt.get("period", 0.0)] * mt["dim"]
            if cc is None or len(cc) != len(flat) or any(abs(rm.sdiff(a, b_, p)) > rt * max(1.0, abs(b_), p) for a, b_, p in zip(cc, flat, per)):
                return [("centre", "step %d%s: centers %s in the state, schedule gives %s (lambda=%g, stage %d)"
                         % (t, rep, cc, flat, m["lam"], m["stage"]))], nok, False
        if not close(o["e"], m["E"], m["tolE"]):
            return [("energy", "step %d%s: energy %.17g, closed form %.17g (k=%.17g, lambda=%g, tolerance %.3g)"
                     % (t, rep, o["e"], m["E"], m["k"], m["lam"], m["tolE"]))], nok, False
        if c.get("out_work"):
            tolw = rt * max(m["Wabs"], 1e-6) + 1e-13
            if "accumulatedWork" not in st or not close(st["accumulatedWork"], m["W"], tolw):
                return [("work", "step %d%s: accumulatedWork %s, sum over steps gives %.15g (sum of |terms| %.3g)"
                         % (t, rep, st.get("accumulatedWork"), m["W"], m["Wabs"]))], nok, False
        nok += 1
    if bad:
        return bad, nok, True
    # trajectory columns (only when the state and the energies agreed: otherwise they repeat the same finding)
    nrows = 0
    for path in res["traj"]:
        for step, row in parse_traj(path, cvs):
            if step not in mod or mod[step]["skip"]:
                continue
            m = mod[step]
            nrows += 1
            if row.get("_bad"):
                return [("traj_format", "step %d: trajectory row does not match its header" % step)], nok, False
            if c.get("out_centers") and c["rtype"] in ("harmonic", "linear"):
                for ci, mt in zip(m["centers"], cvs):
                    got = row.get("x0_" + mt["name"])
                    wantv = ci if mt["dim"] > 1 else [ci]
                    if got is None or len(got) != len(wantv) or any(
                            abs(rm.sdiff(a, b_, mt.get("period", 0.0))) > RTOL_STATE * max(1.0, abs(b_), mt.get("period", 0.0)) for a, b_ in zip(got, wantv)):
                        return [("traj_centre", "step %d: x0_%s %s, schedule gives %s" % (step, mt["name"], got, wantv))], nok, False
            if c.get("out_work"):
                got = row.get("W_" + BIAS)
                tolw = rt * max(m["Wabs"], 1e-6) + 1e-13 + 1e-14 * abs(m["W"])
                if got is None or not close(got[0], m["W"], tolw):
                    return [("traj_work", "step %d: W_ %s, sum over steps gives %.15g" % (step, got, m["W"]))], nok, False
            got = row.get("E_" + BIAS)
            if got is not None and c["rtype"] not in ("histogramRestraint", "abmd") and not close(got[0], m["E"], m["tolE"] + 1e-14 * abs(m["E"])):
                return [("traj_energy", "step %d: E_ %s, closed form %.15g" % (step, got, m["E"]))], nok, False
    if (c.get("out_centers") or c.get("out_work")) and nrows == 0:
        return [("traj_missing", "no trajectory rows found")], nok, False
    return [], nok, True


# ---- driver ---------------------------------------------------------------------------------------

def run_long_ago(c, tier):
    """A scheduled restraint that reached the end of its schedule long ago: the engine's step counter is far beyond the step at
    which the restraint was defined (a continued multi-microsecond job; also across 2^31 steps).  Energy and force are those
    of the end point of the schedule, the state carries the end point, the accumulated work no longer changes."""
    rng = c.rng.__class__(c.seed * 3571 + 9)
    n = 8 if tier == "quick" else 60
    cases = []
    for i in range(n):
        kind = ["k_cont", "centres_cont", "k_staged", "centres_staged"][i % 4]
        N = rng.choice([4, 6, 10])
        nst = rng.choice([2, 3]) if kind.endswith("staged") else 0
        k0, k1 = ctl.dy(rng, 0.5, 4.0, 3), ctl.dy(rng, 5.0, 12.0, 3)
        c0, c1 = ctl.dy(rng, 3.0, 4.0, 3), ctl.dy(rng, 5.0, 7.0, 3)
        w = rng.choice([0.5, 1.0, 2.0])
        body = "  name r\n  colvars d1\n  centers %s\n  forceConstant %s\n  targetNumSteps %d\n%s" % (
            fnum(c0), fnum(k0), N, "" if nst else "  outputAccumulatedWork on\n")
        if kind.startswith("k_"):
            body += "  targetForceConstant %s\n" % fnum(k1)
        else:
            body += "  targetCenters %s\n  outputCenters on\n" % fnum(c1)
        if nst:
            body += "  targetNumStages %d\n" % nst
        cfg = ctl.cv_d1(width=w) + "harmonic {\n" + body + "}\n"
        total = N * (nst + 1) if nst else N
        pre = total + 3
        jump = rng.choice([1000000007, 2147483640, 2147483640, 6000000000])
        post = 14
        xs = [ctl.dy(rng, 3.0, 7.0, 4) for _ in range(pre + post)]
        cases.append(dict(idx=i, kind=kind, cfg=cfg, N=N, nst=nst, k_end=(k1 if kind.startswith("k_") else k0), c_end=(c1 if kind.startswith("centres") else c0),
                          w=w, pre=pre, post=post, jump=jump, xs=xs))

    def runner(case):
        s_ = ctl.header("off", extra="dt 1.0\ntemp 300.0") + "emit atoms off\nmodule\nconfig <<EOC\n" + case["cfg"] + "EOC\ninit\n"
        for t in range(case["pre"]):
            s_ += ctl.pos_line(d1=case["xs"][t]) + "\nstep\nsavestr\n"
        s_ += "endrun\nsetstep %d\nnewrun\n" % case["jump"]
        for t in range(case["pre"], case["pre"] + case["post"]):
            s_ += ctl.pos_line(d1=case["xs"][t]) + "\nstep\nsavestr\n"
        return common.run_esim("plain", s_, os.path.join(c.work, "longago%d" % case["idx"]), "L", timeout=300)

    for case, (r, ev, sp) in zip(cases, common.pmap(runner, cases)):
        c.count()
        key = "%s:first_step_%s" % (case["kind"], "beyond_2p31" if case["jump"] >= 2 ** 31 - 100 else "large")
        st = [e for e in ev if e["ev"] == "step"]
        sv = [e for e in ev if e["ev"] == "savestr"]
        bad = [e for e in ev if e["ev"] in ("config", "init") and (e.get("rc") or e.get("err"))]
        if r["sig"]:
            c.violation("long_ago:crash:" + key, "signal %s: %s" % (r["sig"], r["err"][-300:]), [sp], payload={"config": case["cfg"]})
            continue
        if not r["complete"] or bad or len(st) != case["pre"] + case["post"] or len(sv) != len(st):
            c.inconc("long-ago schedule case %s did not run: %s" % (key, (bad[0].get("errs") if bad else r["err"][-200:])))
            continue

        def work_of(state):
            m = re.search(r"accumulatedWork\s+(\S+)", state)
            return float(m.group(1)) if m else None
        w_end = work_of(sv[case["pre"] - 1]["state"])
        ok = True
        for j in range(case["pre"], case["pre"] + case["post"]):
            e = st[j]
            x = case["xs"][j]
            E = 0.5 * case["k_end"] * ((x - case["c_end"]) / case["w"]) ** 2
            F = -case["k_end"] * (x - case["c_end"]) / (case["w"] ** 2)
            oe, of = fl(e["bias"]["r"]["e"]), fl(e["bias"]["r"]["f"][0][0])
            err = [ee for ee in (e.get("errs") or [])]
            wj = work_of(sv[j]["state"])
            if e.get("err") or abs(oe - E) > 1e-11 * max(1.0, abs(E)) or abs(of - F) > 1e-11 * max(1.0, abs(F)) or (
                    w_end is not None and wj is not None and abs(wj - w_end) > 1e-9 * max(1.0, abs(w_end))):
                c.violation("long_ago:" + key, "restraint defined at step 0, schedule of %d steps over; at step %d: energy %.15g (end point of the schedule gives %.15g), "
                            "force %.15g (%.15g), accumulated work %s (%s when the schedule ended), errors %s" % (
                                case["N"] * (case["nst"] + 1 if case["nst"] else 1), e["it"], oe, E, of, F, wj, w_end, str(err)[:200]), [sp],
                            payload={"config": case["cfg"]})
                ok = False
                break
        if ok:
            c.nontrivial(("long_ago", key))
            c.bump("long_ago_steps_checked", case["post"])


def run(tier, replay):
    c = common.Check("C06", tier)
    c.use_flavour("plain")
    c.rule = ("distinct = (restraint type, value type, schedule kind, segmentation) for which one history was compared with "
              "the model step by step to its end (energy, centres/force constant/work/stage in the state, trajectory columns, "
              "TI lines); a comparison that stops at a disagreement does not count")
    c.assumptions = [
        "variable values are taken as reported by the library (C02 checks them); they are imposed through atom positions",
        "staged schedules: the manual fixes the length of a stage (targetNumSteps) and the total length N*(stages+1), not the "
        "offset of the first switch: offsets 0 and 1 are both accepted, the one seen in the single run is then required "
        "of every segmentation",
        "TI: the mean over ANY window of targetNumSteps-targetEquilSteps consecutive steps of the stage is accepted; dA/dLambda "
        "is the derivative with respect to the printed Lambda (1-lambda when decoupling); 6 printed digits",
        "work: force of the current step times the centre increment of the current step; dU/dk times the k increment",
        "tolerance 1e-12 relative plus the rounding of the shortest-image difference; 1e-10 after a state-file round trip",
        "histories end before targetNumSteps*(stages+2): output after the end of the documented protocol is not judged",
        "excluded: linear restraint on periodic/vector variables and with moving centres (not documented), decoupling together "
        "with per-wall constants or lambdaSchedule (not documented), values equidistant from both walls of a periodic variable",
    ]
    common.vbuild.ensure("plain", tools=["esim"])
    reps = 1 if tier == "quick" else 12
    only = os.environ.get("C06_ONLY")
    cases = []
    for rtype, vtype, sk in combos():
        if only and not re.search(only, "%s:%s:%s" % (rtype, vtype, sk)):
            continue
        for _ in range(reps):
            cases.append(gen_case(c.rng, rtype, vtype, sk, len(cases)))
    # every split point of one short staged schedule of each kind (and of one continuous one)
    nsplit = 0
    for want in (("harmonic", "scalar", "k_staged"), ("harmonic", "scalar", "centres_staged"), ("harmonic", "scalar", "k_cont")):
        base = [cs for cs in cases if (cs["rtype"], cs["vtype"], cs["sched"]) == want]
        if not base:
            continue
        for K in range(base[0]["first"] + 1, base[0]["first"] + base[0]["T"]):
            cl = dict(base[0])
            cl["idx"] = len(cases)
            cl["splits_newrun"] = [K]
            cl["splits_restart"] = [K]
            cases.append(cl)
            nsplit += 1
    c.extra["cases_with_exhaustive_split_points"] = nsplit
    segs = ("one", "newrun", "restart")
    jobs = [(cs, sg) for cs in cases for sg in segs]
    # a sample of the cases also runs under ASan+UBSan (reports are fatal), alternating the two split kinds
    nbase = len(cases) - nsplit
    asan_jobs = [(cs, "asan_" + ("newrun", "restart")[(cs["idx"] // 7) % 2]) for cs in cases[:nbase] if cs["idx"] % 7 == 3]
    if asan_jobs:
        common.vbuild.ensure("asan", tools=["esim"])
        c.use_flavour("asan")
    jobs += asan_jobs

    def do(job):
        cs, sg = job
        wd = os.path.join(c.work, "c%d" % cs["idx"])
        try:
            if sg.startswith("asan_"):
                return run_case_seg(cs, sg[5:], wd, flavour="asan")
            return run_case_seg(cs, sg, wd)
        except Exception as ex:     # harness failure: inconclusive, never a verdict
            return dict(ok=False, why="harness: %r" % ex, ev=[], traj=[], sp=[], r=dict(sig=0, timeout=False))

    results = common.pmap(do, jobs)
    byjob = {(cs["idx"], sg): r for (cs, sg), r in zip(jobs, results)}
    opts_seen = set()
    rtypes_seen = set()
    vkeys = set()
    for cs, sg in asan_jobs:
        res = byjob[(cs["idx"], sg)]
        c.count()
        err = "".join(res.get("errs", []))
        rep = common.sanitizer_report(err)
        if rep:
            c.violation("sanitizer:" + common.colvars_frame(err), "%s:%s:%s %s: %s" % (cs["rtype"], cs["vtype"], cs["sched"], sg, rep),
                        res["sp"], dict(config=cs["cfg"]))
        elif not res["ok"]:
            r = res.get("r", {})
            if r.get("sig") or r.get("timeout"):
                c.violation("crash:%s:%s:%s:%s" % (cs["rtype"], cs["vtype"], cs["sched"], sg), res["why"], res["sp"], dict(config=cs["cfg"]))
            else:
                c.inconc("asan run %s:%s:%s: %s" % (cs["rtype"], cs["vtype"], cs["sched"], res["why"]))
        else:
            c.bump("asan_histories_clean")
    for cs in cases:
        combo = "%s:%s:%s" % (cs["rtype"], cs["vtype"], cs["sched"])
        ref_one = None
        for sg in segs:
            res = byjob[(cs["idx"], sg)]
            c.count()
            key0 = "%s:%s%s:%s:%%s:%s" % (cs["rtype"], cs["vtype"], "+centre_crosses_period_boundary" if cs.get("cross") else "", cs["sched"], sg)
            payload = dict(config=cs["cfg"], first=cs["first"], T=cs["T"], N=cs["N"], stages=cs["nst"], equil=cs["equil"],
                           exponent=cs["alpha"], lambdas=cs["lambdas"], splits=cs.get("splits_" + sg))
            if not res["ok"]:
                r = res.get("r", {})
                if r.get("sig") or r.get("timeout"):
                    c.violation(key0 % "crash", res["why"], res["sp"], payload)
                else:
                    cfgerr = [e for ev in res["ev"] for e in ev if e.get("ev") in ("config", "init", "load") and (e.get("rc") or e.get("err"))]
                    if cfgerr and sg == "restart" and len(res["ev"]) > 1:
                        c.violation(key0 % "load_error", "state written at the end of a run is rejected: %s" % cfgerr[0].get("errs"), res["sp"], payload)
                    else:
                        c.inconc("%s %s: %s %s" % (combo, sg, res["why"], [e.get("errs") for e in cfgerr][:1]))
                continue
            cfgerr = [e for ev in res["ev"] for e in ev if e.get("ev") in ("config", "init", "load") and (e.get("rc") or e.get("err"))]
            if cfgerr:
                if sg == "restart" and not [e for e in res["ev"][0] if e.get("ev") in ("config", "init") and (e.get("rc") or e.get("err"))]:
                    c.violation(key0 % "load_error", "state written at the end of a run is rejected: %s" % cfgerr[0].get("errs"), res["sp"], payload)
                else:
                    c.inconc("%s: configuration rejected: %s" % (combo, cfgerr[0].get("errs")))
                continue
            try:
                bad, info = compare(cs, sg, res, ref_one, c)
            except Exception as ex:
                import traceback
                c.inconc("%s %s: comparison failed: %r %s" % (combo, sg, ex, traceback.format_exc()[-300:]))
                continue
            if sg == "one" and info is not None:
                ref_one = info
            c.bump("steps_compared", len(info["obs"]) if info else 0)
            if bad:
                for what, text in bad:
                    k = key0 % what
                    if what == "energy_normalisation":
                        # one documented/coded mismatch for every value type: the value type goes last
                        k = "%s:%s:%s:%s:%s" % (cs["rtype"], cs["sched"], what, sg, cs["vtype"])
                    c.bump("disagreements")
                    if os.environ.get("C06_DEBUG"):
                        print("DBG", k, text[:400])
                    if k in vkeys:
                        continue          # one witness per class of failing input
                    vkeys.add(k)
                    c.violation(k, "%s [first step %d, %d steps, N=%d, stages=%d, splits %s] %s"
                                % (combo, cs["first"], cs["T"], cs["N"], cs["nst"], cs.get("splits_" + sg), text), res["sp"], payload)
            if not (info and info.get("complete")):
                continue          # the comparison stopped at the first disagreement: not a fully compared history
            c.nontrivial("%s|%s" % (combo, sg))
            rtypes_seen.add(cs["rtype"])
            opts_seen |= cs["opts"]
            c.note_set("combinations_covered", combo)
            if cs["kind"] == "staged":
                c.bump("staged_cases", 1)
                c.extra["min_complete_stages"] = min(c.extra.get("min_complete_stages", 99), cs["T"] // cs["N"])
            c.sample(dict(combo=combo, segmentation=sg, first_step=cs["first"], steps=cs["T"], splits=cs.get("splits_" + sg)), cap=6)
    if not only:
        run_long_ago(c, tier)
    c.extra["restraint_types_seen"] = sorted(rtypes_seen)
    c.extra["schedule_options_seen"] = sorted(opts_seen)
    c.extra["cases"] = len(cases)
    miss_r = [r for r in RTYPES if r not in rtypes_seen]
    miss_o = [o for o in SCHED_OPTIONS if o not in opts_seen]
    ok = len(c.distinct) >= 60 and not miss_r and not miss_o
    if only:
        ok = True
    return c.finish(ok, "%d distinct (need 60); restraint types never fully compared: %s; schedule options never fully compared: %s"
                    % (len(c.distinct), miss_r, miss_o))
