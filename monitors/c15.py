"""C15 - every sample lands in exactly one grid bin; grid files round-trip.

Binning: variable values are imposed exactly (dyadic; many exactly on bin edges, on the boundaries,
outside, and - for periodic variables - one or more periods away).  The model follows the statement
literally: the value is wrapped by the VARIABLE (one period centred on wrapAround), then assigned to
bin floor((v - lower)/width) of the grid, or to no bin if outside: the grid itself does not wrap.
Observed: the `grid` array of the histogram in the saved state and the multicolumn output file.
Round trips: monitors/c15_grids.py (in-process harness).
"""
import math
import os
import re

import common
import ctl
from common import fnum, fl


class Dim:
    def __init__(self, name, vlo, vhi, w, periodic, glo=None, ghi=None, gw=None):
        # v*: the colvar's own boundaries/width; g*: custom histogramGrid (or None)
        self.name, self.vlo, self.vhi, self.w, self.periodic = name, vlo, vhi, w, periodic
        self.glo = vlo if glo is None else glo
        self.ghi = vhi if ghi is None else ghi
        self.gw = w if gw is None else gw
        self.n = int(round((self.ghi - self.glo) / self.gw))

    def wrap(self, v):
        if not self.periodic:
            return v
        P = 8.0
        c = 0.0  # wrapAround default
        return v - P * math.floor((v - c) / P + 0.5)

    def bin(self, v):
        b = int(math.floor((v - self.glo) / self.gw))
        return b if 0 <= b < self.n else None


def gen_case(rng, idx, tier):
    kind = rng.choice(["scalar", "scalar", "scalar", "vector"])
    T = 60 if tier == "quick" else 150
    case = dict(idx=idx, kind=kind, T=T, step0=(rng.random() < 0.3), runs=sorted(rng.sample(range(2, T - 1), 2)) if rng.random() < 0.5 else [])
    if kind == "scalar":
        nd = rng.choice([1, 1, 2, 3])
        dims = []
        for n in ["d2", "d3", "d1"][:nd]:
            if n == "d1":
                dims.append(Dim("d1", 2.0, 8.0, rng.choice([0.5, 1.0, 2.0]), False))
            else:
                periodic = (n == "d2" and rng.random() < 0.4)
                w = rng.choice([0.5, 1.0, 2.0])
                if rng.random() < 0.4:
                    # custom grid, not aligned with the colvar's own boundaries
                    glo = rng.choice([-2.0, -3.0, 0.0, -6.0])
                    gw = rng.choice([0.5, 1.0, 2.0])
                    ghi = glo + gw * rng.randint(2, 8)
                    dims.append(Dim(n, -4.0, 4.0, w, periodic, glo, ghi, gw))
                else:
                    dims.append(Dim(n, -4.0, 4.0, w, periodic))
        # a custom block may give only some of the grid's parameters: the others stay those of the variables
        r = rng.random()
        case["grid_keys"] = ("lowerBoundary", "upperBoundary", "width")
        if r < 0.2:
            dims = [Dim(d.name, d.vlo, d.vhi, d.w, d.periodic, None, None, rng.choice([x for x in (0.5, 1.0, 2.0) if x != d.w])) for d in dims]
            case["grid_keys"] = ("width",)
        elif r < 0.3 and not any(d.periodic for d in dims):
            dims = [Dim(d.name, d.vlo, d.vhi, d.w, d.periodic, d.vlo - d.w * rng.randint(1, 3), None, None) for d in dims]
            case["grid_keys"] = ("lowerBoundary",)
        elif r < 0.4 and not any(d.periodic for d in dims):
            dims = [Dim(d.name, d.vlo, d.vhi, d.w, d.periodic, None, d.vhi + d.w * rng.randint(1, 3), None) for d in dims]
            case["grid_keys"] = ("upperBoundary",)
        decimal = rng.random() < 0.2
        if decimal:
            # decimal (not exactly representable) boundaries and widths whose quotient is a whole number of bins
            # mathematically but not necessarily in floating point (0.7/0.1 = 6.999...): the grid must still have
            # that many bins; samples sit well inside bins so that the binning itself is unambiguous
            from decimal import Decimal
            dims = []
            for n in ["d2", "d3"][:rng.choice([1, 1, 2])]:
                w = rng.choice(["0.1", "0.2", "0.3", "0.05", "0.7", "0.6", "1.1"])
                lo = rng.choice(["0", "0.5", "2", "10", "-0.3", "-1.2", "0.1"])
                k = rng.randint(2, 9)
                hi = str(Decimal(lo) + k * Decimal(w))
                if rng.random() < 0.5:
                    dims.append(Dim(n, float(lo), float(hi), float(w), False))
                else:
                    dims.append(Dim(n, -4.0, 4.0, 1.0, False, float(lo), float(hi), float(w)))
                dims[-1].n = k
            case["grid_keys"] = ("lowerBoundary", "upperBoundary", "width")
        case["decimal"] = decimal
        case["dims"] = dims
        case["hist"] = []
        for d in dims:
            if decimal:
                # 60 % well inside a bin; 40 % exactly on a decimal bin edge (the double closest to lower + k*width): the literal
                # rule floor((x - lower)/width), evaluated in double precision, decides the bin
                from decimal import Decimal as _D
                hv = []
                for _ in range(T + 1):
                    if rng.random() < 0.4:
                        hv.append(float(_D(repr(d.glo)) + rng.randint(0, d.n) * _D(repr(d.gw))))
                    else:
                        hv.append(d.glo + (rng.randint(-2, d.n + 1) + 0.5 + rng.choice([-0.25, -0.125, 0.0, 0.125, 0.25])) * d.gw)
                case["hist"].append(hv)
            elif d.name == "d1":
                case["hist"].append([ctl.dy(rng, 1.0, 9.5, 2) for _ in range(T + 1)])
            elif d.periodic:
                case["hist"].append([ctl.dy(rng, -13.0, 13.0, 2) for _ in range(T + 1)])
            else:
                case["hist"].append([ctl.dy(rng, d.glo - 2.0, d.ghi + 2.0, 2) for _ in range(T + 1)])
    else:
        # cartesian coordinates of atoms 11 and 12 (6 numbers) gathered into one 1-D histogram
        case["dims"] = [Dim("cv", -4.0, 4.0, rng.choice([0.5, 1.0]), False)]
        case["weights"] = [rng.choice([1.0, 0.5, 2.0, 0.25, 3.0]) for _ in range(6)] if rng.random() < 0.7 else None
        case["hist"] = [[[ctl.dy(rng, -5.5, 5.5, 2) for _ in range(6)] for _ in range(T + 1)]]
    return case


def config(case):
    cfg = ""
    dims = case["dims"]
    if case["kind"] == "scalar":
        for d in dims:
            if d.name == "d2":
                cfg += ctl.cv_d2(d.vlo, d.vhi, d.w, cvc_extra=("    period 8.0\n" if d.periodic else ""))
            elif d.name == "d3":
                cfg += ctl.cv_d3(d.vlo, d.vhi, d.w)
            else:
                cfg += ctl.cv_d1(d.vlo, d.vhi, d.w)
        cfg += "histogram {\n  name hist\n  colvars %s\n" % " ".join(d.name for d in dims)
    else:
        d = dims[0]
        # boundaries cannot be given to a vector variable: the grid comes from the histogramGrid block
        cfg += "colvar {\n  name cv\n  cartesian {\n    atoms { atomNumbers 11 12 }\n  }\n}\n"
        cfg += "histogram {\n  name hist\n  colvars cv\n  gatherVectorColvars on\n"
        if case["weights"]:
            cfg += "  weights %s\n" % " ".join(fnum(w) for w in case["weights"])
    if case["step0"]:
        cfg += "  stepZeroData on\n"
    if case["kind"] == "vector" or any(d.glo != d.vlo or d.ghi != d.vhi or d.gw != d.w for d in dims):
        vals = {"lowerBoundary": " ".join(fnum(d.glo) for d in dims), "upperBoundary": " ".join(fnum(d.ghi) for d in dims),
                "width": " ".join(fnum(d.gw) for d in dims)}
        cfg += "  histogramGrid {\n" + "".join("    %s %s\n" % (k, vals[k]) for k in case.get("grid_keys", ("lowerBoundary", "upperBoundary", "width"))) + "  }\n"
    cfg += "}\n"
    return cfg


def scenario(case, prefix):
    s = ctl.header("off", extra="dt 1.0")
    s += "emit atoms off\nemit bias off\nmodule\nprefix %s\nconfig <<EOC\n%sEOC\ninit\n" % (prefix, config(case))
    for t in range(case["T"] + 1):
        if t in case["runs"]:
            s += "newrun\nstep\nmark repeat\n"
        if case["kind"] == "scalar":
            kw = {d.name: h[t] for d, h in zip(case["dims"], case["hist"])}
            s += ctl.pos_line(**kw) + "\n"
        else:
            p = ctl.positions()
            v = case["hist"][0][t]
            p[10] = v[0:3]
            p[11] = v[3:6]
            s += "pos " + " ".join(fnum(x) for q in p for x in q) + "\n"
        s += "step\n"
    s += "savestr\nendrun\n"
    return s


def check_case(c, case, r, ev, sp, prefix):
    dims = case["dims"]
    shape = [d.n for d in dims]
    ncell = 1
    for n in shape:
        ncell *= n
    exp = [0.0] * ncell
    key = "%s:nd%d:%s%s%s" % (case["kind"] + ("_decimal_grid" if case.get("decimal") else ""), len(dims), "periodic" if any(d.periodic for d in dims) else "open",
                              ":customgrid" if any(d.glo != d.vlo or d.ghi != d.vhi or d.gw != d.w for d in dims) else "",
                              ":step0" if case["step0"] else "")
    evs = [e for e in ev if e["ev"] in ("step", "mark")]
    seq = []
    j = 0
    while j < len(evs):
        if evs[j]["ev"] == "step":
            rep = j + 1 < len(evs) and evs[j + 1]["ev"] == "mark"
            seq.append((evs[j], rep))
            j += 2 if rep else 1
        else:
            j += 1
    n_in = n_out = n_edge = 0
    for e, rep in seq:
        t = e["it"]
        # eligibility: new step with step_relative() > 0, or stepZeroData
        eligible = case["step0"] or (e["rel"] > 0 and not rep)
        if not eligible:
            continue
        if case["kind"] == "scalar":
            vals = [d.wrap(h[t]) for d, h in zip(dims, case["hist"])]
            bins = [d.bin(v) for d, v in zip(dims, vals)]
            if any(b is None for b in bins):
                n_out += 1
                continue
            a = 0
            for b, n in zip(bins, shape):
                a = a * n + b
            exp[a] += 1.0
            n_in += 1
            if any(((v - d.glo) / d.gw) == math.floor((v - d.glo) / d.gw) for d, v in zip(dims, vals)):
                n_edge += 1
        else:
            d = dims[0]
            for k, v in enumerate(case["hist"][0][t]):
                b = d.bin(v)
                if b is None:
                    n_out += 1
                    continue
                exp[b] += case["weights"][k] if case["weights"] else 1.0
                n_in += 1
                if ((v - d.glo) / d.gw) == math.floor((v - d.glo) / d.gw):
                    n_edge += 1
    sv = [e for e in ev if e["ev"] == "savestr"]
    if not sv:
        c.inconc("no state")
        return False
    m = re.search(r"\ngrid\n.*?grid_parameters \{.*?\}\s*\n(.*?)\n\}", sv[-1]["state"], re.S)
    if not m:
        m = re.search(r"\ngrid\n(.*)\n\}", sv[-1]["state"], re.S)
    nums = []
    if m:
        body = m.group(1)
        # the data follow the grid_parameters block
        body = body.split("}")[-1] if "}" in body else body
        nums = [float(x) for x in body.split()]
    if m and nums and len(nums) != ncell:
        # the block holds nothing but numbers, one per cell: a well-formed grid of another size than the configuration asks for
        c.violation("grid_cells:" + key, "the histogram's grid holds %d cells; boundaries and widths of the configuration give %s = %d cells" % (
            len(nums), " x ".join(str(n) for n in shape), ncell), [sp], payload={"config": config(case)})
        return False
    if len(nums) != ncell:
        c.inconc("cannot parse histogram state (%d numbers for %d cells) %s" % (len(nums), ncell, key))
        return False
    if nums != exp:
        bad = [i for i in range(ncell) if nums[i] != exp[i]]
        c.violation("counts:" + key, "cells %s: stored %s, model %s; total stored %s, eligible in-range samples %s" % (
            bad[:6], [nums[i] for i in bad[:6]], [exp[i] for i in bad[:6]], sum(nums), sum(exp)), [sp], payload={"config": config(case)})
        return False
    # multicolumn output file written at the end of the run
    fn = prefix + ".hist.dat"
    if os.path.exists(fn):
        vals = []
        for line in open(fn):
            if line.startswith("#") or not line.strip():
                continue
            f = line.split()
            vals.append((tuple(float(x) for x in f[:len(dims)]), float(f[len(dims)])))
        if len(vals) != ncell:
            c.violation("multicol_rows:" + key, "file has %d rows for %d cells" % (len(vals), ncell), [sp, fn])
            return False
        # rows are in the grid's own order (last dimension fastest), abscissae are bin centres
        idx = 0
        for coords, v in vals:
            ix = []
            a = idx
            for n in reversed(shape):
                ix.append(a % n)
                a //= n
            ix.reverse()
            for d, x, b in zip(dims, coords, ix):
                centre = d.glo + (b + 0.5) * d.gw
                if abs(x - centre) > 1e-9 * max(1.0, abs(centre)):
                    c.violation("multicol_abscissa:" + key, "row %d: abscissa %r, bin centre %r" % (idx, x, centre), [sp, fn])
                    return False
            if v != exp[idx]:
                c.violation("multicol_value:" + key, "row %d: %r vs %r" % (idx, v, exp[idx]), [sp, fn])
                return False
            idx += 1
        c.bump("multicol_files_checked")
    c.bump("samples_in_range", n_in)
    c.bump("samples_out_of_range", n_out)
    c.bump("samples_exactly_on_a_bin_edge", n_edge)
    c.nontrivial(key + ":w%s" % ",".join(str(d.gw) for d in dims))
    return True


def run(tier, replay):
    c = common.Check("C15", tier)
    c.use_flavour("plain")
    c.use_flavour("asan")
    c.rule = ("binning: imposed dyadic value sequences (values on bin edges, on and beyond the boundaries, periods away) for 1-3 scalar "
              "variables, custom histogramGrid blocks, vector variables gathered with per-element weights, run boundaries, stepZeroData; "
              "stored counts and the multicolumn file compared cell by cell (==) with the literal binning rule; round trips: see rule_roundtrips; "
              "distinct = (kind, dimension, periodicity, custom grid, options, widths) cases fully compared + distinct round-trip classes")
    c.assumptions = ["the variable's own wrapping maps a value to [wrapAround - P/2, wrapAround + P/2); the grid does not wrap"]
    common.vbuild.ensure("plain", tools=["esim"])
    common.vbuild.ensure("asan", tools=["esim"])
    n = 160 if tier == "quick" else 2000
    cases = [gen_case(c.rng, i, tier) for i in range(n)]

    def do(case):
        wd = os.path.join(c.work, "c%d" % case["idx"])
        prefix = os.path.join(wd, "out")
        flav = "asan" if case["idx"] % 8 == 0 else "plain"
        r, ev, sp = common.run_esim(flav, scenario(case, prefix), wd, "hist", timeout=600)
        return r, ev, sp, prefix

    res = common.pmap(do, cases)
    for case, (r, ev, sp, prefix) in zip(cases, res):
        c.count()
        cfg = [e for e in ev if e["ev"] == "config"]
        if not r["complete"] or (cfg and cfg[0]["rc"] != 0):
            rep = common.sanitizer_report(r["err"])
            if rep:
                c.violation("sanitizer:" + common.colvars_frame(r["err"]), rep, [sp], payload={"config": config(case)})
            elif r["sig"]:
                c.violation("crash:" + case["kind"], "signal %s %s" % (r["sig"], r["err"][-300:]), [sp])
            elif case["kind"] == "vector" and cfg and cfg[0]["rc"] != 0:
                # documented feature (vector variables gathered into one histogram) rejected at initialisation
                c.violation("gather_vector_rejected", "histogram with gatherVectorColvars on a vector variable is rejected: %s" % (cfg[0]["errs"][-2:],),
                            [sp], payload={"config": config(case)})
            else:
                c.inconc("case failed: %s" % ((cfg[0]["errs"] if cfg else r["err"][-200:]),))
            continue
        if check_case(c, case, r, ev, sp, prefix):
            c.sample({"kind": case["kind"], "grid": [(d.name, d.glo, d.ghi, d.gw, "periodic" if d.periodic else "open") for d in case["dims"]],
                      "stepZeroData": case["step0"], "run_boundaries": case["runs"], "weights": case.get("weights")}, cap=5)
    try:
        import importlib
        g = importlib.import_module("monitors.c15_grids")
        g.run_roundtrips(c, tier)
    except ImportError:
        c.extra["roundtrips"] = "module monitors/c15_grids.py not present"
    floor = (c.extra.get("samples_in_range", 0) >= 3000 and c.extra.get("samples_exactly_on_a_bin_edge", 0) >= 300
             and c.extra.get("samples_out_of_range", 0) >= 300 and c.extra.get("grid_roundtrips", 0) >= 100)
    return c.finish(floor, "in-range %s, on-edge %s, out-of-range %s, round trips %s" % (
        c.extra.get("samples_in_range"), c.extra.get("samples_exactly_on_a_bin_edge"), c.extra.get("samples_out_of_range"),
        c.extra.get("grid_roundtrips")))
