"""C02 supplement: reference coordinates and vectors read from files, for groups listed in arbitrary order.

Coordinates read from an XYZ file are attached to atoms by index (whole-system file: row = atom number; file with exactly
as many rows as the group: rows in increasing atom number), whatever the order in which the group lists its atoms.  Each
case defines the same function several ways (inline refPositions/vector in listing order; whole-system file; group-size
file; sorted listing + file) and every definition must report the same value; rmsd is also compared with an independent
optimal-superposition RMSD (numpy Kabsch).
"""
import math
import os

import numpy as np

from vlib import common

fl = common.fl if hasattr(common, "fl") else float


def fnum(x):
    return repr(float(x))


def vecs(vs):
    return " ".join("(%s, %s, %s)" % (fnum(v[0]), fnum(v[1]), fnum(v[2])) for v in vs)


def xyz_text(rows):
    return "%d\ncomment\n" % len(rows) + "".join("C %s %s %s\n" % (fnum(r[0]), fnum(r[1]), fnum(r[2])) for r in rows)


def kabsch_rmsd(X, Y):
    """minimum over rotations and translations of sqrt(mean |R (x - cx) - (y - cy)|^2)"""
    X = np.array(X) - np.mean(X, axis=0)
    Y = np.array(Y) - np.mean(Y, axis=0)
    H = X.T @ Y
    U, S, Vt = np.linalg.svd(H)
    d = np.sign(np.linalg.det(Vt.T @ U.T))
    D = np.diag([1.0, 1.0, d])
    R = Vt.T @ D @ U.T
    diff = (R @ X.T).T - Y
    return math.sqrt(np.sum(diff * diff) / len(X))


def kabsch_fit(X, Y):
    """X moved onto Y by the optimal rotation about the centres: R (x - cx) + cy"""
    X = np.array(X)
    Y = np.array(Y)
    cx, cy = np.mean(X, axis=0), np.mean(Y, axis=0)
    H = (X - cx).T @ (Y - cy)
    U, S, Vt = np.linalg.svd(H)
    d = np.sign(np.linalg.det(Vt.T @ U.T))
    R = Vt.T @ np.diag([1.0, 1.0, d]) @ U.T
    return (R @ (X - cx).T).T + cy


def gen_case(rng, idx):
    N = 16
    m = rng.randrange(4, 9)
    ids = rng.sample(range(1, N + 1), m)          # atom numbers, listing order = random permutation
    kind = idx % 4
    if kind == 1:
        s = sorted(ids)
        r = rng.randrange(1, m)
        ids = s[r:] + s[:r]                        # rotated listing (a permutation that is not its own inverse for m > 2)
    elif kind == 2:
        s = sorted(ids)
        ids = s[m // 2:] + s[:m // 2]              # "atomNumbers high... + range low..." pattern
    pos = [[rng.uniform(-4, 4) for _ in range(3)] for _ in range(N)]
    # reference = a rotated, perturbed copy of the positions of other random atoms: generic, non-degenerate
    ref_all = [[rng.uniform(-4, 4) for _ in range(3)] for _ in range(N)]
    vec_all = [[rng.uniform(-1, 1) for _ in range(3)] for _ in range(N)]
    srt = sorted(ids)
    files = {
        "ref_all.xyz": xyz_text(ref_all),
        "ref_grp.xyz": xyz_text([ref_all[a - 1] for a in srt]),
        "vec_all.xyz": xyz_text(vec_all),
        "vec_grp.xyz": xyz_text([vec_all[a - 1] for a in srt]),
    }
    lst = " ".join(str(a) for a in ids)
    slst = " ".join(str(a) for a in srt)
    inl_ref = vecs([ref_all[a - 1] for a in ids])
    inl_vec = vecs([vec_all[a - 1] for a in ids])
    probe = ids[0]
    cfg = ""

    def cv(name, body):
        return "colvar {\n  name %s\n%s}\n" % (name, body)

    def grp(listing, ref):
        return "    atoms {\n      atomNumbers %s\n    }\n    %s\n" % (listing, ref)

    cfg += cv("r_inl", "  rmsd {\n" + grp(lst, "refPositions " + inl_ref) + "  }\n")
    cfg += cv("r_all", "  rmsd {\n" + grp(lst, "refPositionsFile ref_all.xyz") + "  }\n")
    cfg += cv("r_grp", "  rmsd {\n" + grp(lst, "refPositionsFile ref_grp.xyz") + "  }\n")
    cfg += cv("r_srt", "  rmsd {\n" + grp(slst, "refPositionsFile ref_all.xyz") + "  }\n")
    # symmetry-adapted RMSD: two or three orderings of the group's atoms besides the listed one; the value is the smallest
    # deviation from the reference over the orderings (the atoms are superposed once, on the reference in the listed order).
    # The reference is a noisy copy of the positions with the atoms of ONE of the orderings exchanged, so that any of the
    # orderings (first, middle, last, or none) may be the closest
    perms = []
    for _ in range(rng.choice([2, 2, 3])):
        q = list(ids)
        for _k in range(rng.choice([1, 2, 3])):
            a, b = rng.sample(range(m), 2)
            q[a], q[b] = q[b], q[a]
        perms.append(q)
    win = rng.randrange(len(perms) + 1)
    src = ids if win == len(perms) else perms[win]
    # ref[i] (reference of the atom listed i-th) = position of the atom that the winning ordering puts where ids[i] is
    inv = {src[i]: ids[i] for i in range(m)}
    ref_perm = [[x + rng.uniform(-0.4, 0.4) for x in pos[inv[a] - 1]] for a in ids]
    cfg += cv("r_perm", "  rmsd {\n" + grp(lst, "refPositions " + vecs(ref_perm)) +
              "".join("    atomPermutation %s\n" % " ".join(str(a) for a in q) for q in perms) + "  }\n")
    cfg += cv("e_inl", "  eigenvector {\n" + grp(lst, "refPositions " + inl_ref + "\n    vector " + inl_vec) + "  }\n")
    cfg += cv("e_all", "  eigenvector {\n" + grp(lst, "refPositionsFile ref_all.xyz\n    vectorFile vec_all.xyz") + "  }\n")
    cfg += cv("e_grp", "  eigenvector {\n" + grp(lst, "refPositionsFile ref_grp.xyz\n    vectorFile vec_grp.xyz") + "  }\n")
    cfg += cv("e_srt", "  eigenvector {\n" + grp(slst, "refPositionsFile ref_all.xyz\n    vectorFile vec_all.xyz") + "  }\n")
    cfg += cv("o_inl", "  orientationAngle {\n" + grp(lst, "refPositions " + inl_ref) + "  }\n")
    cfg += cv("o_all", "  orientationAngle {\n" + grp(lst, "refPositionsFile ref_all.xyz") + "  }\n")
    cfg += cv("o_grp", "  orientationAngle {\n" + grp(lst, "refPositionsFile ref_grp.xyz") + "  }\n")

    def fitted(ref):
        return ("  distanceZ {\n    main {\n      atomNumbers %d\n      centerToReference on\n      rotateToReference on\n"
                "      fittingGroup {\n        atomNumbers %s\n      }\n      %s\n    }\n"
                "    ref {\n      dummyAtom (0.0, 0.0, 0.0)\n    }\n    axis (1.0, 0.5, -0.25)\n  }\n" % (probe, lst, ref))

    cfg += cv("f_inl", fitted("refPositions " + inl_ref))
    cfg += cv("f_all", fitted("refPositionsFile ref_all.xyz"))
    cfg += cv("f_grp", fitted("refPositionsFile ref_grp.xyz"))
    scn = "natoms %d\ntfmode off\nemit atoms off\nmodule\nconfig <<EOC\n%sEOC\ninit\n" % (N, cfg)
    frames = [pos, [[x + rng.uniform(-0.5, 0.5) for x in p] for p in pos]]
    for f in frames:
        scn += "pos " + " ".join(fnum(x) for p in f for x in p) + "\nstep\n"
    return {"idx": idx, "ids": ids, "files": files, "scn": scn, "frames": frames, "ref_all": ref_all, "perms": perms, "ref_perm": ref_perm,
            "listing": "sorted" if ids == srt else ("rotated" if kind in (1, 2) else "random")}


FAMILIES = {"rmsd": ["r_inl", "r_all", "r_grp", "r_srt"], "eigenvector": ["e_inl", "e_all", "e_grp", "e_srt"],
            "orientationAngle": ["o_inl", "o_all", "o_grp"], "fittingGroup": ["f_inl", "f_all", "f_grp"]}


def run_files(c, tier):
    n = 40 if tier == "quick" else 400
    rng = c.rng.__class__(c.seed * 7919 + 5)
    cases = [gen_case(rng, i) for i in range(n)]

    def runner(case):
        wd = os.path.join(c.work, "files%d" % case["idx"])
        os.makedirs(wd, exist_ok=True)
        for fn, content in case["files"].items():
            with open(os.path.join(wd, fn), "w") as fh:
                fh.write(content)
        return common.run_esim("plain", case["scn"], wd, "c02_files", timeout=120)

    res = common.pmap(runner, cases)
    for case, (r, ev, sp) in zip(cases, res):
        cfgev = [e for e in ev if e.get("ev") == "config"]
        steps = [e for e in ev if e.get("ev") == "step"]
        wd = os.path.dirname(sp)
        files = [sp] + [os.path.join(wd, fn) for fn in case["files"]]
        if not r["complete"] or (cfgev and cfgev[0].get("rc") != 0) or len(steps) != len(case["frames"]):
            c.inconc("reference-file case did not run: %s" % (str(cfgev[0].get("errs"))[:200] if cfgev else r["err"][-200:]))
            continue
        bad = False
        for fi, e in enumerate(steps):
            cvs = e.get("cv", {})
            for fam, names in FAMILIES.items():
                vals = []
                for nme in names:
                    if nme not in cvs:
                        vals = None
                        break
                    vals.append(float(cvs[nme]["x"][0]))
                if vals is None:
                    c.inconc("reference-file case: variable missing in %s" % fam)
                    continue
                c.count()
                scale = max(1.0, max(abs(v) for v in vals))
                dev = max(abs(v - vals[0]) for v in vals)
                if dev > 1e-9 * scale:
                    c.violation("reference_file_mapping:%s:%s" % (fam, case["listing"]),
                                "atoms listed as %s: values %s for definitions %s (inline reference in listing order / files read by "
                                "atom index) differ" % (case["ids"], ["%.12g" % v for v in vals], names), files)
                    bad = True
                    break
                if fam == "rmsd":
                    X = [case["frames"][fi][a - 1] for a in case["ids"]]
                    Y = [case["ref_all"][a - 1] for a in case["ids"]]
                    ex = kabsch_rmsd(X, Y)
                    if abs(ex - vals[0]) > 1e-8 * scale:
                        c.violation("reference_file_mapping:rmsd_value:%s" % case["listing"],
                                    "atoms %s: rmsd %.12g, independent optimal-superposition RMSD %.12g" % (case["ids"], vals[0], ex), files)
                        bad = True
                        break
                c.nontrivial("reffile|%s|%s" % (fam, case["listing"]))
                c.bump("reference_file_comparisons")
            if not bad and "r_perm" in cvs:
                ids = case["ids"]
                X = [case["frames"][fi][a - 1] for a in ids]
                Xf = kabsch_fit(X, case["ref_perm"])
                ref = np.array(case["ref_perm"])
                sums = [float(np.sum((Xf - ref) ** 2))]
                for q in case["perms"]:
                    idxs = [ids.index(a) for a in q]
                    sums.append(float(np.sum((Xf - ref[idxs]) ** 2)))
                ex = math.sqrt(min(sums) / len(ids))
                got = float(cvs["r_perm"]["x"][0])
                c.count()
                if abs(got - ex) > 1e-8 * max(1.0, ex):
                    c.violation("rmsd_permutations:value:best_%d_of_%d" % (sums.index(min(sums)), len(sums) - 1),
                                "atoms %s, orderings %s: rmsd %.12g; smallest deviation %.12g over the listed order and the %d atomPermutation orderings "
                                "(per ordering: %s)" % (ids, case["perms"], got, ex, len(case["perms"]), ["%.6g" % math.sqrt(x / len(ids)) for x in sums]), files)
                    bad = True
                else:
                    c.nontrivial("rmsd_perm|%d|best%d" % (len(case["perms"]), sums.index(min(sums))))
                    c.bump("rmsd_permutation_values")
            if bad:
                break
        if not bad:
            c.sample({"part": "reference files", "atoms_listed": case["ids"], "listing": case["listing"],
                      "rmsd": steps[-1]["cv"]["r_all"]["x"][0]}, cap=3)


# ---------------------------------------------------------------------------------------------------------------
# run-time reconfiguration of a variable's components (cv colvar <name> modifycvcs / cvcflags): the value is the
# documented combination sum_i c_i q_i^{n_i} over the active components, with the coefficients and exponents in force
# ---------------------------------------------------------------------------------------------------------------

def gen_runtime_case(rng, idx):
    import json as _json
    N = 16
    ncomp = rng.choice([2, 3])
    atoms = rng.sample(range(1, N + 1), 2 * ncomp)
    pairs = [(atoms[2 * k], atoms[2 * k + 1]) for k in range(ncomp)]

    def comp(k, extra=""):
        return ("  distance {\n    name q%d\n%s    group1 { atomNumbers %d }\n    group2 { atomNumbers %d }\n  }\n" % (k, extra, pairs[k][0], pairs[k][1]))
    c0 = [rng.choice([1.0, 1.0, -2.0, 0.5]) for _ in range(ncomp)]
    n0 = [1] * ncomp if rng.random() < 0.7 else [rng.choice([1, 2]) for _ in range(ncomp)]
    cfg = "colvar {\n  name s\n"
    for k in range(ncomp):
        ex = ""
        if c0[k] != 1.0:
            ex += "    componentCoeff %s\n" % fnum(c0[k])
        if n0[k] != 1:
            ex += "    componentExp %d\n" % n0[k]
        cfg += comp(k, ex)
    cfg += "}\n"
    for k in range(ncomp):
        cfg += "colvar {\n  name p%d\n%s}\n" % (k, comp(k))
    scn = "natoms %d\ntfmode off\nemit atoms off\nmodule\nconfig <<EOC\n%sEOC\ninit\n" % (N, cfg)
    pos = [[rng.uniform(-4, 4) for _ in range(3)] for _ in range(N)]
    stages = []           # (coefficients, exponents, flags) in force at each step
    cs, ns, fl_ = list(c0), list(n0), [1] * ncomp
    for st in range(6):
        if st > 0:
            op = rng.choice(["exp", "coeff", "flags", "both"])
            if op in ("exp", "both"):
                ns = [rng.choice([1, 2, 3]) for _ in range(ncomp)]
            if op in ("coeff", "both"):
                cs = [rng.choice([1.0, -1.5, 0.25, 2.0]) for _ in range(ncomp)]
            if op in ("exp", "coeff", "both"):
                args = ["\"componentCoeff %s\ncomponentExp %d\"" % (fnum(cs[k]), ns[k]) for k in range(ncomp)]   # one keyword per line
                scn += "script %s\n" % _json.dumps(["cv", "colvar", "s", "modifycvcs", " ".join(args)])
            if op == "flags":
                while True:
                    fl_ = [rng.choice([0, 1]) for _ in range(ncomp)]
                    if sum(fl_) > 0:
                        break
                scn += "script %s\n" % _json.dumps(["cv", "colvar", "s", "cvcflags", " ".join(str(f) for f in fl_)])
        pos = [[x + rng.uniform(-0.4, 0.4) for x in p] for p in pos]
        scn += "pos " + " ".join(fnum(x) for p in pos for x in p) + "\nstep\n"
        stages.append((list(cs), list(ns), list(fl_)))
    return {"idx": idx, "scn": scn, "stages": stages, "ncomp": ncomp}


def run_runtime(c, tier):
    n = 40 if tier == "quick" else 400
    rng = c.rng.__class__(c.seed * 6007 + 11)
    cases = [gen_runtime_case(rng, i) for i in range(n)]

    def runner(case):
        wd = os.path.join(c.work, "rt%d" % case["idx"])
        os.makedirs(wd, exist_ok=True)
        return common.run_esim("plain", case["scn"], wd, "c02_rt", timeout=120)

    for case, (r, ev, sp) in zip(cases, common.pmap(runner, cases)):
        steps = [e for e in ev if e.get("ev") == "step"]
        scr = [e for e in ev if e.get("ev") == "script"]
        if not r["complete"] or len(steps) != len(case["stages"]) or any(e.get("rc") for e in scr):
            c.inconc("run-time reconfiguration case did not run: %s" % (str([e.get("res") for e in scr if e.get("rc")])[:200] or r["err"][-200:]))
            continue
        for e, (cs, ns, fl_) in zip(steps, case["stages"]):
            q = [float(e["cv"]["p%d" % k]["x"][0]) for k in range(case["ncomp"])]
            exp = sum(cs[k] * q[k] ** ns[k] for k in range(case["ncomp"]) if fl_[k])
            obs = float(e["cv"]["s"]["x"][0])
            c.count()
            scale = max(1.0, sum(abs(cs[k] * q[k] ** ns[k]) for k in range(case["ncomp"])))
            if abs(obs - exp) > 1e-12 * scale:
                c.violation("runtime_reconfiguration:value", "step %s: value %.15g; sum over the active components of c_i q_i^n_i = %.15g "
                            "(coefficients %s, exponents %s, flags %s, component values %s)" % (e.get("it"), obs, exp, cs, ns, fl_, q), [sp])
                break
            c.bump("runtime_reconfiguration_comparisons")
            c.nontrivial("runtime|exp%s|flags%s" % ("".join(str(x) for x in ns), "".join(str(x) for x in fl_)))


# ---------------------------------------------------------------------------------------------------------------
# coordination numbers with a pair list, at the steps between two rebuilds of the list: the value is the documented sum
# over the pairs kept at the last rebuild (those whose contribution exceeded the tolerance), with the same switching
# function (isotropic or per-axis cutoffs) as at the rebuild steps
# ---------------------------------------------------------------------------------------------------------------

def run_pairlist(c, tier):
    n = 12 if tier == "quick" else 120
    rng = c.rng.__class__(c.seed * 4441 + 17)
    cases = []
    for i in range(n):
        N = 14
        g1, g2 = list(range(1, 7)), list(range(7, 15))
        pos = [[rng.uniform(-3.5, 3.5) for _ in range(3)] for _ in range(N)]
        aniso = (i % 2 == 0)
        cut = [rng.uniform(2.5, 4.5) for _ in range(3)] if aniso else [rng.uniform(2.5, 4.5)] * 3
        tol = rng.choice([0.02, 0.05, 0.1])
        P = rng.choice([2, 3, 5])
        en, ed = rng.choice([(6, 12), (4, 8), (6, 10)])
        body = ("    group1 { atomNumbers %s }\n    group2 { atomNumbers %s }\n    %s\n    expNumer %d\n    expDenom %d\n    tolerance %s\n    pairListFrequency %d\n"
                % (" ".join(map(str, g1)), " ".join(map(str, g2)), ("cutoff3 (%s, %s, %s)" % tuple(fnum(x) for x in cut)) if aniso else "cutoff %s" % fnum(cut[0]),
                   en, ed, fnum(tol), P))
        cfg = "colvar {\n  name cn\n  coordNum {\n" + body + "  }\n}\n"
        drift = [rng.uniform(-2e-3, 2e-3) for _ in range(3)]
        frames = []
        for t in range(9):
            frames.append([[p[d] + t * drift[d] + rng.uniform(-1e-4, 1e-4) for d in range(3)] for p in pos])
        scn = "natoms %d\ntfmode off\nemit atoms off\nmodule\nconfig <<EOC\n%sEOC\ninit\n" % (N, cfg)
        for f in frames:
            scn += "pos " + " ".join(fnum(x) for p in f for x in p) + "\nstep\n"
        cases.append(dict(idx=i, g1=g1, g2=g2, cut=cut, tol=tol, P=P, en=en, ed=ed, frames=frames, scn=scn, cfg=cfg, aniso=aniso))

    def sw(case, a, b):
        l = math.sqrt(sum(((b[d] - a[d]) / case["cut"][d]) ** 2 for d in range(3)))
        return (1.0 - l ** case["en"]) / (1.0 - l ** case["ed"])

    res = common.pmap(lambda cs: common.run_esim("plain", cs["scn"], os.path.join(c.work, "pl%d" % cs["idx"]), "pl", timeout=120), cases)
    for case, (r, ev, sp) in zip(cases, res):
        c.count()
        steps = [e for e in ev if e.get("ev") == "step"]
        cfgev = [e for e in ev if e.get("ev") == "config"]
        if not r["complete"] or (cfgev and cfgev[0].get("rc")) or len(steps) != len(case["frames"]):
            c.inconc("pair-list case did not run: %s" % (str(cfgev[0].get("errs"))[:200] if cfgev else r["err"][-200:]))
            continue
        listed = None
        okc = True
        for t, (e, f) in enumerate(zip(steps, case["frames"])):
            raw = {(a, b): sw(case, f[a - 1], f[b - 1]) for a in case["g1"] for b in case["g2"]}
            if t % case["P"] == 0:
                listed = [k for k, v in raw.items() if v > case["tol"]]
            if any(abs(v - case["tol"]) < 2e-3 for v in raw.values()):
                continue            # a pair close to the tolerance threshold: membership of the list may differ, not judged
            ex = sum((raw[k] - case["tol"]) / (1.0 - case["tol"]) for k in listed)
            got = float(e["cv"]["cn"]["x"][0])
            if abs(got - ex) > 1e-9 * max(1.0, abs(ex)):
                c.violation("coordnum_pairlist:%s:%s" % ("cutoff3" if case["aniso"] else "cutoff", "rebuild_step" if t % case["P"] == 0 else "reuse_step"),
                            "step %d (pairListFrequency %d, tolerance %s, %s): value %.12g, documented sum over the %d listed pairs %.12g" % (
                                t, case["P"], case["tol"], "per-axis cutoffs" if case["aniso"] else "isotropic cutoff", got, len(listed), ex), [sp],
                            payload={"config": case["cfg"]})
                okc = False
                break
            c.bump("pairlist_values_checked")
        if okc:
            c.nontrivial("pairlist|%s|P%d" % ("cutoff3" if case["aniso"] else "cutoff", case["P"]))
