"""C02 - variable values equal their mathematical definition and respect its symmetries.

Two layers, both observed through the colvar values ("x", 17 significant digits) of esim's step/eval
events, one esim process per case, several colvars and several geometries per process:

 L1 metamorphic.  For a base geometry G0 the base colvar cv1 is compared with
   (a) itself at R.G0+t ("rigid", internal/fitted variables), at G0+t ("translation"), at a rotation
       about the configured axis ("axis_rotation", with the stated law: spinAngle/polarPhi/eulerPsi
       shift by the rotation angle), and with the colvar cvr whose configured constants (axis,
       refPositions, dummyAtom, vector, closestToQuaternion) are co-transformed, at R.G0+t
       ("covariant": scalars equal, vectors rotate, Cartesian coordinates roto-translate, quaternion
       vector part rotates);
   (b) itself after whole groups (group + its fitting group; single atoms for the purely pairwise
       components) were moved by random lattice vectors of the orthorhombic cell ("lattice");
   (c) the colvar cvp whose groups list their atoms in a permuted order (reference positions and
       vector components permuted alongside) and cvd whose groups list some atoms twice;
   (d) q / -q: orientation cvn with the opposite closestToQuaternion must report exactly the
       opposite quaternion and each must lie in the hemisphere of its reference; the sign-invariant
       rotation variables are decided by L2 against a quaternion-free model over rotation angles
       spanning [0, 180] degrees (the raw eigenvector sign is not observable at the engine boundary).
 L2 independent definition: refmodel/geometry.py (numpy; SVD/Kabsch; brute-force minimum image) at every
   geometry, plus optimality of the fitting rotation (rmsd and fitted cartesian groups): the reported
   deviation is not beaten by 200 random rotations nor by 200 perturbations of the optimum.
"""
import copy
import math
import os

import numpy as np

import common
import corpus
from common import fnum, fl
from refmodel import geometry as G

REL = 1.0e-10          # base relative tolerance (summation order, last-digit differences)
BACKERR = 1.0e-11      # admitted backward error on coordinates (absolute, coordinates are O(10))
ILL = 1.0e-6           # a comparison whose propagated error bound exceeds ILL*scale is inconclusive
GROUP_KEYS = ("group1", "group2", "group3", "group4", "main", "ref", "ref2", "atoms")
ROT_TYPES = ("orientation", "orientationAngle", "orientationProj", "tilt", "spinAngle", "eulerPhi", "eulerPsi",
             "eulerTheta")
PAIRWISE = ("distanceInv", "distancePairs", "selfCoordNum")
SINGLE_GROUP = ("gyration", "inertia", "inertiaZ", "dipoleMagnitude", "rmsd", "eigenvector", "cartesian") + ROT_TYPES
VTYPE = {"distanceVec": "vec3", "distanceDir": "unit3", "orientation": "quat", "cartesian": "vector",
         "distancePairs": "vector"}
NOT_IN_CORPUS = ["linearCombination", "gspathCV",
                 "gzpathCV", "aspathCV", "azpathCV", "neuralNetwork", "alchLambda", "alchFLambda", "mapTotal",
                 "customColvar", "torchANN"]


# ---------------------------------------------------------------------------------------------
# option sets
# ---------------------------------------------------------------------------------------------

from monitors import c02_files
from monitors import c02_paths


def option_sets():
    o = []

    def add(ct, **kw):
        lab = ",".join("%s=%s" % (k, kw[k]) for k in sorted(kw)) or "default"
        o.append((ct, dict(kw), lab))

    for f in ("none", "center", "rotate", "fitgroup"):
        add("distance", fit=f)
    add("distance", dummy=True)
    for ct in ("distanceZ", "distanceXY"):
        for ax in ("axis", "ref2", "default"):
            add(ct, axis=ax)
        add(ct, axis="axis", fit="rotate")
        add(ct, axis="ref2", fit="center")
    for ct in ("distanceVec", "distanceDir"):
        for f in ("none", "center", "rotate"):
            add(ct, fit=f)
    for ct in ("distanceInv", "distancePairs", "angle", "dipoleAngle", "dihedral", "polarTheta", "polarPhi", "hBond"):
        add(ct)
    for f in ("none", "center", "rotate", "fitgroup"):
        add("cartesian", fit=f)
    for ct in ("gyration", "inertia", "inertiaZ", "dipoleMagnitude"):
        for f in ("none", "center", "rotate", "fitgroup"):
            add(ct, fit=f)
    for v in ("iso", "aniso", "g2center", "pairlist", "exps"):
        add("coordNum", variant=v)
    add("selfCoordNum")
    add("selfCoordNum", variant="pairlist")
    add("groupCoord")
    add("groupCoord", variant="aniso")
    add("rmsd", fit="none")
    add("rmsd", fit="fitgroup")
    add("rmsd", fit="fitgroup_nograd")
    add("eigenvector", fit="off")
    add("eigenvector", fit="self")
    for ct in ROT_TYPES:
        add(ct)
    for v in ("default", "params", "angles", "hbonds"):
        add("alpha", variant=v)
    add("dihedralPC")
    return o


def invariance(ctype, opts):
    """(rotation-invariant, translation-invariant) of the *documented* function under a rigid motion of
    all atoms with the configuration unchanged"""
    fit = opts.get("fit", "none")
    if ctype in ("distance", "distanceInv", "distancePairs", "angle", "dihedral", "dipoleAngle", "selfCoordNum", "hBond",
                 "coordNum", "groupCoord"):
        if fit != "none" or opts.get("dummy"):
            return (False, False)     # a fitted group lives in the frame of its fixed reference positions
        if opts.get("variant") == "aniso":
            return (False, True)      # cutoff3 is tied to the laboratory axes
        return (True, True)
    if ctype in ("distanceZ", "distanceXY"):
        if fit != "none":
            return (False, False)
        return (True, True) if opts.get("axis") == "ref2" else (False, True)
    if ctype in ("distanceVec", "distanceDir"):
        return (False, fit == "none")
    if ctype == "cartesian":
        return {"none": (False, False), "center": (False, True)}.get(fit, (True, True))
    if ctype in ("gyration", "inertia", "dipoleMagnitude", "rmsd"):
        return (True, True)
    if ctype == "inertiaZ":
        return (True, True) if fit in ("rotate", "fitgroup") else (False, True)
    if ctype == "eigenvector":
        return (True, True) if fit == "self" else (False, True)   # centred v_i: sum v_i . t = 0
    if ctype in ("alpha", "dihedralPC"):
        return (True, True)           # functions of interatomic angles, dihedrals and distances
    if ctype in ROT_TYPES:
        return (False, True)          # rotation measured from fixed reference positions, about the centre
    return (False, False)             # polarTheta, polarPhi: laboratory origin and axes


def axis_rotation_law(ctype, opts):
    """None, or (axis source, law) for a rotation of all atoms by alpha about the configured axis e
    (through the origin), followed by a translation if `translate`:
    law 'same' -> value unchanged, 'shift' -> value + alpha (mod 360)"""
    fit = opts.get("fit", "none")
    if ctype in ("distanceZ", "distanceXY") and opts.get("axis") in ("axis", "default") and fit == "none":
        return dict(axis="config", law="same", translate=True)
    if ctype == "inertiaZ" and fit in ("none", "center"):
        return dict(axis="config", law="same", translate=True)
    if ctype == "tilt":
        return dict(axis="config", law="same", translate=True)
    if ctype == "spinAngle":
        return dict(axis="config", law="shift", translate=True)
    if ctype == "polarTheta":
        return dict(axis="z", law="same", translate=False)
    if ctype == "polarPhi":
        return dict(axis="z", law="shift", translate=False)
    if ctype in ("eulerPhi", "eulerTheta"):
        return dict(axis="z", law="same", translate=True)
    if ctype == "eulerPsi":
        return dict(axis="z", law="shift", translate=True)
    return None


def covariant_ok(ctype, opts, cell):
    """can the constants of the configuration be co-transformed so that an exact law holds?"""
    if ctype in ("polarTheta", "polarPhi", "eulerPhi", "eulerPsi", "eulerTheta"):
        return False                       # tied to the laboratory axes/origin, nothing to co-transform
    if ctype in ("gyration", "inertia", "inertiaZ") and opts.get("fit", "none") != "none":
        return False                       # no documented function with explicit fit options (see assumptions)
    return True


def lattice_units(ctype, opts, comp_blk):
    """list of units (lists of 0-based atom ids) that may each be moved by a lattice vector without
    changing the documented function; [] if not applicable"""
    groups = [(k, G.Group(v)) for k, v in comp_blk if isinstance(v, list) and k in GROUP_KEYS]

    def whole(g):
        return list(g.ids) + list(g.fit_ids or [])

    if ctype == "hBond":
        return [[int(G.tget(comp_blk, "donor")) - 1], [int(G.tget(comp_blk, "acceptor")) - 1]]
    if ctype in ("alpha", "dihedralPC"):
        # single atoms joined by minimum-image vectors only
        a, b = G.G_range(G.tget(comp_blk, "residueRange"))
        return [[k] for k in range(4 * (b - a + 1))]
    if ctype in PAIRWISE or (ctype == "coordNum" and opts.get("variant") != "g2center"):
        # only pairwise minimum-image distances between atoms (manual, atom-group wrapping, item ii)
        return [[a] for _, g in groups for a in g.ids]
    if ctype == "coordNum":
        return [[a] for k, g in groups if k == "group1" for a in g.ids] + [whole(g) for k, g in groups if k == "group2"]
    if ctype in ("distance", "distanceVec", "distanceDir", "angle", "dihedral", "dipoleAngle", "groupCoord",
                 "distanceXY"):
        return [whole(g) for _, g in groups if g.dummy is None]
    if ctype == "distanceZ":
        # (with ref2 the origin is the midpoint of ref and of the image of ref2 closest to it: every group may be supplied in
        # any periodic image)
        return [whole(g) for _, g in groups]
    if ctype in SINGLE_GROUP:
        if not invariance(ctype, opts)[1]:
            return []
        return [whole(g) for _, g in groups]
    return []


# ---------------------------------------------------------------------------------------------
# configuration transformations (on the tree of one colvar block)
# ---------------------------------------------------------------------------------------------

def comp_blocks(cvtree):
    return [(k, v) for k, v in cvtree if isinstance(v, list) and (k in corpus.COMPONENTS or k in corpus.EXTRA_COMPONENTS)]


def set_key(blk, key, val):
    for i, (k, v) in enumerate(blk):
        if k.lower() == key.lower() and not isinstance(v, list):
            blk[i] = (k, val)
            return
    blk.append((key, val))


def vecs_str(vs):
    return " ".join(G.fmt_vec(v) for v in vs)


def rename(cvtree, name):
    t = copy.deepcopy(cvtree)
    set_key(t, "name", name)
    return t


def _ids_of(gblk):
    v = G.tget(gblk, "atomNumbers")
    return None if v is None else [int(x) for x in v.split()]


def permuted(cvtree, rng, name):
    """every group lists its atoms in a random order; constants given per atom follow.
    Returns (tree, outperm) where outperm maps the value of vector-valued components back."""
    t = rename(cvtree, name)
    outperm = None
    changed = False
    for ctype, cb in comp_blocks(t):
        perms = {}
        for k, gb in cb:
            if not (isinstance(gb, list) and k in GROUP_KEYS):
                continue
            ids = _ids_of(gb)
            if ids is None:
                continue
            p = list(range(len(ids)))
            rng.shuffle(p)
            if len(ids) > 1 and p == sorted(p):
                p = p[1:] + p[:1]
            perms[k] = p
            changed = changed or p != sorted(p)
            set_key(gb, "atomNumbers", " ".join(str(ids[i]) for i in p))
            fg = G.tsub(gb, "fittingGroup")
            rp = G.tget(gb, "refPositions")
            if fg is not None:
                fids = _ids_of(fg)
                fp = list(range(len(fids)))
                rng.shuffle(fp)
                set_key(fg, "atomNumbers", " ".join(str(fids[i]) for i in fp))
                if rp is not None:
                    r = G.parse_vecs(rp)
                    if len(r) == len(fids):
                        set_key(gb, "refPositions", vecs_str([r[i] for i in fp]))
            elif rp is not None:
                r = G.parse_vecs(rp)
                if len(r) == len(ids):
                    set_key(gb, "refPositions", vecs_str([r[i] for i in p]))
        if "atoms" in perms:
            p = perms["atoms"]
            for key in ("refPositions", "vector"):
                v = G.tget(cb, key)
                if v is not None:
                    r = G.parse_vecs(v)
                    set_key(cb, key, vecs_str([r[i] for i in p]))
        if ctype == "cartesian":
            p = perms["atoms"]
            outperm = [3 * i + d for i in p for d in range(3)]
        if ctype == "distancePairs":
            p1, p2 = perms["group1"], perms["group2"]
            n2 = len(p2)
            outperm = [i * n2 + j for i in p1 for j in p2]
    return t, outperm, changed


def duplicated(cvtree, rng, name):
    """some atoms are listed twice (same keyword line or a second atomNumbers line)"""
    t = rename(cvtree, name)
    n = 0
    for ctype, cb in comp_blocks(t):
        for k, gb in cb:
            if not (isinstance(gb, list) and k in GROUP_KEYS):
                continue
            for blk in (gb, G.tsub(gb, "fittingGroup")):
                if blk is None:
                    continue
                ids = _ids_of(blk)
                if not ids:
                    continue
                extra = [rng.choice(ids) for _ in range(rng.randint(1, 2))]
                n += len(extra)
                if rng.random() < 0.5:
                    set_key(blk, "atomNumbers", " ".join(str(a) for a in ids + extra))
                else:
                    pos = [i for i, (kk, vv) in enumerate(blk) if kk == "atomNumbers"][0]
                    blk.insert(pos + 1, ("atomNumbers", " ".join(str(a) for a in extra)))
    return t, n


def cotransformed(cvtree, R, tvec, name):
    """the configured constants follow the rigid motion x -> R x + t"""
    t = rename(cvtree, name)

    def pts(s):
        return vecs_str([R @ np.array(p) + tvec for p in G.parse_vecs(s)])

    def dirs(s):
        return vecs_str([R @ np.array(p) for p in G.parse_vecs(s)])

    for ctype, cb in comp_blocks(t):
        has_ref2 = G.tsub(cb, "ref2") is not None
        ax = G.tget(cb, "axis")
        if ax is not None:
            set_key(cb, "axis", dirs(ax))
        elif ctype in ("distanceZ", "distanceXY") and not has_ref2:
            cb.append(("axis", G.fmt_vec(R @ np.array([0.0, 0.0, 1.0]))))
        v = G.tget(cb, "refPositions")
        if v is not None:
            set_key(cb, "refPositions", pts(v))
        v = G.tget(cb, "vector")
        if v is not None:
            set_key(cb, "vector", dirs(v))
        v = G.tget(cb, "closestToQuaternion")
        if v is not None:
            c = G.parse_vec(v)
            set_key(cb, "closestToQuaternion", G.fmt_vec([c[0]] + list(R @ np.array(c[1:]))))
        for k, gb in cb:
            if isinstance(gb, list) and k in GROUP_KEYS:
                v = G.tget(gb, "dummyAtom")
                if v is not None:
                    set_key(gb, "dummyAtom", pts(v))
                v = G.tget(gb, "refPositions")
                if v is not None:
                    set_key(gb, "refPositions", pts(v))
    return t


def covariant_law(ctype, vtype, val, R, tvec):
    """expected value of the co-transformed colvar at R x + t, from the base value at x"""
    v = np.array(val, float)
    if vtype == "scalar" or ctype == "distancePairs":
        return list(v)
    if vtype in ("vec3", "unit3"):
        return list(R @ v)
    if ctype == "cartesian":
        return [float(c) for i in range(len(v) // 3) for c in (R @ v[3 * i:3 * i + 3] + tvec)]
    if vtype == "quat":
        return [v[0]] + list(R @ v[1:])
    return None


# ---------------------------------------------------------------------------------------------
# cases
# ---------------------------------------------------------------------------------------------

def jitter(rng, pos, amp):
    return [[x + rng.uniform(-amp, amp) for x in p] for p in pos]


def gen_case(rng, idx, ctype, opts, label, cell, combo=None):
    sysm = corpus.make_system(rng, natoms=26, cell=cell)
    pool = list(range(1, sysm["natoms"] - 1))
    copts = dict(opts)
    if ctype == "eigenvector":
        copts["fit"] = "off" if opts.get("fit") == "off" else "self"
    if copts.get("fit") == "none":
        copts.pop("fit")
    if combo:
        cv = corpus.make_combo_colvar(rng, sysm, pool, "cv1", combo)
        vtype = "scalar"
    else:
        vtype = VTYPE.get(ctype, "scalar")
        coeff = exp = None
        r = rng.random()
        if vtype == "scalar" and ctype not in G.PERIODIC and r < 0.3:
            coeff = round(rng.uniform(-3, 3), 3) or 2.0
            if r < 0.15:
                exp = rng.choice([2, 3])
        for _try in range(50):
            p2 = list(pool)
            if ctype in corpus.EXTRA_COMPONENTS:
                cv = corpus.make_extra_colvar(rng, sysm, p2, "cv1", ctype, copts, (), coeff=coeff, exp=exp)
                break
            cv = corpus.make_colvar(rng, sysm, p2, "cv1", ctype, copts, (), coeff=coeff, exp=exp)
            # corpus silently drops the fit options of groups that are too small: the label must be true
            if copts.get("fit") in ("center", "rotate", "fitgroup", "fitgroup_nograd") and "centerToReference on" not in cv["text"]:
                continue
            break
        else:
            raise RuntimeError("could not generate %s/%s" % (ctype, label))
        vtype = cv["vtype"]
    tree = G.parse_config(cv["text"])
    cvtree = tree[0][1]
    case = dict(idx=idx, sysm=sysm, ctype=cv["ctype"], opts=opts, label=label, cell=cell, vtype=vtype, combo=bool(combo),
                text0=cv["text"], files=cv.get("files", {}),
                names={(r, nm, seg): k - 1 for (k, r, nm, seg) in sysm.get("names", [])})
    # orientation: explicit closestToQuaternion in half of the cases
    if ctype == "orientation":
        cb = comp_blocks(cvtree)[0][1]
        if rng.random() < 0.5:
            cq = corpus.random_quaternion(rng)
            cb.append(("closestToQuaternion", G.fmt_vec(cq)))
            case["label"] = label = "closestToQuaternion"
        else:
            cq = [1.0, 0.0, 0.0, 0.0]
    trees = {"cv1": cvtree}
    X0 = np.array(sysm["pos"])
    # combinations draw their sub-options at random inside corpus: only L2 and (c) are applied to them
    rot_inv, trans_inv = invariance(ctype, opts) if not combo else (False, False)
    geos = [("base", X0)]
    for j in range(2):
        geos.append(("jit%d" % j, np.array(jitter(rng, sysm["pos"], 0.3))))
    # (a) rigid motion of all atoms
    tvec = np.array([rng.uniform(-3, 3) for _ in range(3)])
    R = G.random_rotation(rng) if not cell else np.eye(3)
    case["R"], case["t"] = R, tvec
    if trans_inv:
        if rot_inv and not cell:
            geos.append(("rigid", X0 @ R.T + tvec))
        else:
            geos.append(("translation", X0 + tvec))
    law = axis_rotation_law(ctype, opts) if not combo else None
    if law and not cell:
        if law["axis"] == "z":
            e = np.array([0.0, 0.0, 1.0])
        else:
            a = G.tget(comp_blocks(cvtree)[0][1], "axis")
            e = G.unit(G.parse_vec(a)) if a is not None else np.array([0.0, 0.0, 1.0])
        alpha = rng.uniform(-math.pi, math.pi)
        Ra = G.axis_angle_matrix(e, alpha)
        Xa = X0 @ Ra.T + (tvec if law["translate"] else 0.0)
        geos.append(("axis_rotation", Xa))
        case["alpha_deg"] = math.degrees(alpha)
        case["axis_law"] = law["law"]
    # co-transformed constants
    if not combo and covariant_ok(ctype, opts, cell):
        if opts.get("variant") == "aniso":
            Rc = np.eye(3)
        else:
            Rc = R
        trees["cvr"] = cotransformed(cvtree, Rc, tvec, "cvr")
        geos.append(("covariant", X0 @ Rc.T + tvec))
        case["Rc"] = Rc
    # (b) lattice translations of whole units
    if cell and not combo:
        units = lattice_units(ctype, opts, comp_blocks(cvtree)[0][1])
        if units:
            L = np.array(sysm["cell"])
            Xl = X0.copy()
            moved = 0
            for u in units:
                if rng.random() < 0.7 or moved == 0:
                    n = np.array([rng.randint(-2, 2) for _ in range(3)])
                    if not n.any():
                        n[rng.randrange(3)] = rng.choice([-1, 1])
                    Xl[u] += n * L
                    moved += 1
            geos.append(("lattice", Xl))
    # (c) permutation / duplicates
    if not combo and ctype != "hBond":
        tp, outperm, changed = permuted(cvtree, rng, "cvp")
        if changed:
            trees["cvp"] = tp
            case["outperm"] = outperm
        td, ndup = duplicated(cvtree, rng, "cvd")
        if ndup:
            trees["cvd"] = td
    # (d) opposite hemisphere
    if ctype == "orientation":
        tn = rename(cvtree, "cvn")
        set_key(comp_blocks(tn)[0][1], "closestToQuaternion", G.fmt_vec([-x for x in cq]))
        trees["cvn"] = tn
        case["cq"] = cq
    case["trees"] = trees
    case["geos"] = geos
    return case


def scenario(case):
    s = corpus.scenario_header(case["sysm"])
    s += "emit bias off\nemit atoms off\nmodule\n"
    for name in case["trees"]:
        s += "config <<EOC\n" + G.serialize([("colvar", case["trees"][name])]) + "\nEOC\nclearerr\n"
    s += "init\n"
    for i, (kind, X) in enumerate(case["geos"]):
        s += corpus.pos_line(X.tolist()) + "\n" + ("step\n" if i == 0 else "eval\n")
    return s


# ---------------------------------------------------------------------------------------------
# comparisons
# ---------------------------------------------------------------------------------------------

def circ_diff(a, b, period):
    d = (a - b) % period
    return min(d, period - d)


def max_dev(a, b, period=None):
    if len(a) != len(b):
        return float("inf")
    if period:
        return max(circ_diff(x, y, period) for x, y in zip(a, b))
    return max(abs(x - y) for x, y in zip(a, b))


def model_eval(model, X, case, rng):
    """value, flags, and a sensitivity estimate (change of the value per unit change of coordinates)"""
    sysm = case["sysm"]
    res, ctx = model.evaluate(X, sysm["masses"], sysm["charges"], sysm["cell"], case["names"], case["files"])
    h = 1e-7
    period = model_period(model)
    sens = 0.0
    for _ in range(2):
        d = np.array([[rng.uniform(-1, 1) for _ in range(3)] for _ in range(len(X))]) * h
        r2, _c = model.evaluate(X + d, sysm["masses"], sysm["charges"], sysm["cell"], case["names"], case["files"])
        sens = max(sens, max_dev(res.value, r2.value, period) / h)
    return res, ctx, sens


def model_period(model):
    ct = model.component_types()
    if len(ct) == 1 and ct[0] in G.PERIODIC:
        blk = model.comps[0][1]
        if G.tget(blk, "componentCoeff") is None and G.tget(blk, "componentExp") is None:
            return G.PERIODIC[ct[0]]
    return None


def tolerance(scale, sens):
    return REL * scale + BACKERR * sens


class Tally:
    def __init__(self, c):
        self.c = c
        self.worst = {}
        self.by_type = {}
        self.sampled = set()

    def compare(self, case, kind, obs, exp, sens, files, period=None, detail="", exact=False):
        """returns 'ok', 'viol' or 'inconc'"""
        c = self.c
        key = "%s:%s:%s" % (case["ctype"], case["label"], kind)
        if any(not math.isfinite(x) for x in obs):
            c.violation(key + ":nonfinite", "non-finite value %r %s" % (obs, detail), files, payload=case["text0"])
            return "viol"
        scale = max([1.0] + [abs(x) for x in obs] + [abs(x) for x in exp])
        tol = 0.0 if exact else tolerance(scale, sens)
        if not exact and BACKERR * sens > ILL * scale:
            c.bump("ill_conditioned_comparisons")
            return "inconc"
        dev = max_dev(obs, exp, period)
        rel = dev / scale
        grp = "rotation_derived" if (case["ctype"] in ROT_TYPES or case["ctype"] in ("rmsd", "eigenvector") or
                                      case["opts"].get("fit") in ("rotate", "fitgroup", "fitgroup_nograd")) else "plain"
        w = self.worst.setdefault(grp, [0.0, 0.0])
        if dev <= tol:
            w[0] = max(w[0], rel)
            if tol > 0:
                w[1] = max(w[1], dev / tol)
            c.nontrivial("%s|%s|%s" % (case["ctype"], case["label"], kind))
            c.bump("comparisons_" + kind)
            if not case["combo"]:
                self.by_type.setdefault(case["ctype"], set()).add(kind)
            if kind not in self.sampled:
                self.sampled.add(kind)
                c.sample({"component": case["ctype"], "options": case["label"], "kind": kind, "cell": bool(case["cell"]),
                          "observed": obs[:4], "expected": exp[:4], "deviation": dev, "tolerance": tol}, cap=14)
            return "ok"
        c.violation(key, "observed %s expected %s dev %.3g tol %.3g (sens %.3g) cell=%s %s" % (
            [float("%.15g" % x) for x in obs[:6]], [float("%.15g" % x) for x in exp[:6]], dev, tol, sens,
            bool(case["cell"]), detail), files, payload={"config": case["text0"], "kind": kind})
        return "viol"


def check_case(c, tl, case, r, ev, sp, modelrng):
    files = [sp]
    ctype, label = case["ctype"], case["label"]
    cfgs = [e for e in ev if e.get("ev") == "config"]
    steps = [e for e in ev if e.get("ev") in ("step", "eval")]
    names = list(case["trees"])
    if r["sig"] or r["timeout"] or not r["complete"] or len(cfgs) != len(names):
        c.inconc("run failed %s/%s sig=%s: %s" % (ctype, label, r["sig"], r["err"][-300:]))
        return
    ok_names = []
    for name, cf in zip(names, cfgs):
        if cf["rc"] == 0:
            ok_names.append(name)
        elif name == "cv1":
            c.inconc("base configuration rejected %s/%s: %s" % (ctype, label, str(cf["errs"])[:300]))
            c.note_set("templates_rejected", "%s/%s" % (ctype, label))
            return
        else:
            # a rejected variant is "not applicable", not a pass and not a violation
            c.bump("variant_rejected_" + name)
            c.note_set("variants_rejected", "%s/%s/%s: %s" % (ctype, label, name, str(cf["errs"])[:160]))
    if len(steps) != len(case["geos"]) or any(s["err"] or s["rc"] for s in steps):
        c.inconc("evaluation error %s/%s: %s" % (ctype, label, [s.get("errs") for s in steps if s.get("errs")][:2]))
        return
    sysm = case["sysm"]
    models = {}
    for name in ok_names:
        try:
            models[name] = G.ColvarModel(case["trees"][name])
        except Exception as ex:            # noqa
            c.inconc("model construction failed %s/%s/%s: %r" % (ctype, label, name, ex))
    period = model_period(models["cv1"]) if "cv1" in models else None
    obs = {}
    for (kind, X), s in zip(case["geos"], steps):
        for name in ok_names:
            obs[(kind, name)] = [fl(x) for x in s["cv"][name]["x"]]
            c.count()
    for ct in ([ctype] if not case["combo"] else ctype.split("+")):
        c.note_set("types_evaluated", ct)

    def covered(layer):
        for ct in ([ctype] if not case["combo"] else ctype.split("+")):
            c.note_set("types_" + layer, ct)

    # ---- L2: independent definition at every geometry, every colvar -------------------------
    sens0 = None
    mres = {}
    for (kind, X) in case["geos"]:
        for name in ok_names:
            if name not in models:
                continue
            res, ctx, sens = model_eval(models[name], X, case, modelrng)
            mres[(kind, name)] = (res, ctx, sens)
            if kind == "base" and name == "cv1":
                sens0 = sens
            if res.flags or res.unmodelled:
                c.bump("model_flagged" if res.flags else "model_not_applicable")
                c.note_set("model_flags", "%s/%s: %s" % (ctype, label, "; ".join(res.flags + res.unmodelled)))
                continue
            st = tl.compare(case, "definition", obs[(kind, name)], res.value, sens, files, period,
                            detail="colvar %s geometry %s" % (name, kind))
            if st == "ok":
                covered("L2")
                if ctype in ROT_TYPES or ctype == "rmsd":
                    for lab, Rm in ctx.rotations:
                        ang = math.degrees(math.acos(max(-1, min(1, 0.5 * (np.trace(Rm) - 1)))))
                        c.note_set("rotation_angle_bins_deg", int(ang // 15) * 15)
            elif st == "viol":
                return
    base = obs[("base", "cv1")]
    if sens0 is None or mres[("base", "cv1")][0].flags:
        c.bump("L1_skipped_singular_base")
        return
    sens = sens0

    def sens_of(kind, name="cv1"):
        m = mres.get((kind, name))
        return max(sens, m[2]) if m else sens

    def singular(kind, name="cv1"):
        m = mres.get((kind, name))
        return m is None or bool(m[0].flags)

    # ---- L1 (a) -----------------------------------------------------------------------------
    for kind in ("rigid", "translation"):
        if (kind, "cv1") in obs and not singular(kind):
            if tl.compare(case, kind, obs[(kind, "cv1")], base, sens_of(kind), files, period) == "ok":
                covered("L1")
    if ("axis_rotation", "cv1") in obs and not singular("axis_rotation"):
        exp = list(base)
        if case["axis_law"] == "shift":
            exp = [base[0] + case["alpha_deg"]]
        if tl.compare(case, "axis_rotation_" + case["axis_law"], obs[("axis_rotation", "cv1")], exp,
                      sens_of("axis_rotation"), files, 360.0 if case["axis_law"] == "shift" else period,
                      detail="alpha=%.6f" % case["alpha_deg"]) == "ok":
            covered("L1")
    if ("covariant", "cvr") in obs and not singular("covariant", "cvr"):
        exp = covariant_law(ctype, case["vtype"], base, case["Rc"], case["t"])
        if exp is not None:
            if tl.compare(case, "covariant", obs[("covariant", "cvr")], exp, sens_of("covariant", "cvr"), files, period) == "ok":
                covered("L1")
    else:
        c.bump("not_applicable_covariant")
    # ---- L1 (b) -----------------------------------------------------------------------------
    if ("lattice", "cv1") in obs:
        if not singular("lattice"):
            if tl.compare(case, "lattice", obs[("lattice", "cv1")], base, sens_of("lattice"), files, period) == "ok":
                covered("L1")
    elif case["cell"]:
        c.bump("not_applicable_lattice")
    # ---- L1 (c) -----------------------------------------------------------------------------
    for kind, _X in case["geos"]:
        if kind not in ("base", "jit0"):
            continue
        if singular(kind):
            continue
        b = obs[(kind, "cv1")]
        if "cvp" in ok_names:
            o = obs[(kind, "cvp")]
            e = b
            if case.get("outperm"):
                e = [b[i] for i in case["outperm"]]
            if tl.compare(case, "permutation", o, e, sens_of(kind), files, period) == "ok":
                covered("L1")
        if "cvd" in ok_names:
            # de-duplication keeps the first occurrence: same atoms, same order, same arithmetic
            if tl.compare(case, "duplicate", obs[(kind, "cvd")], b, sens_of(kind), files, period) == "ok":
                covered("L1")
    # ---- L1 (d) -----------------------------------------------------------------------------
    if ctype == "orientation" and "cvn" in ok_names:
        cq = np.array(case["cq"])
        for kind, _X in case["geos"]:
            q = np.array(obs[(kind, "cv1")])
            qn = np.array(obs[(kind, "cvn")])
            ip = float(q @ cq)
            if abs(ip) < 1e-9:
                c.bump("quat_sign_tie")
                continue
            # documented rule: of q and -q the one closer to the reference is returned
            if ip < 0 or float(qn @ cq) > 0:
                c.violation("%s:%s:quat_hemisphere" % (ctype, label),
                            "q=%s reference=%s inner=%.3g; with the opposite reference q=%s" % (list(q), list(cq), ip, list(qn)),
                            files, payload=case["text0"])
                return
            if tl.compare(case, "quat_sign", list(qn), list(-q), 0.0, files, exact=True) == "ok":
                covered("L1")
            c.note_set("reported_q0_signs", "q0>=0" if q[0] >= 0 else "q0<0")
            c.note_set("reported_q0_signs", "q0>=0" if qn[0] >= 0 else "q0<0")
    # ---- optimality of the fitting rotation -------------------------------------------------
    check_optimality(c, tl, case, obs, mres, files, modelrng)


def check_optimality(c, tl, case, obs, mres, files, rng):
    ctype, opts = case["ctype"], case["opts"]
    if case["combo"]:
        return
    cvtree = case["trees"]["cv1"]
    cb = comp_blocks(cvtree)[0][1]
    if G.tget(cb, "componentCoeff") is not None or G.tget(cb, "componentExp") is not None:
        return
    if ctype == "rmsd" and opts.get("fit", "none") == "none":
        g = G.Group(G.tsub(cb, "atoms"))
        ref = np.array(G.parse_vecs(G.tget(cb, "refPositions")))
        fitted = None
    elif ctype == "cartesian" and opts.get("fit") == "rotate":
        g = G.Group(G.tsub(cb, "atoms"))
        ref = g.ref
        fitted = True
    else:
        return
    for kind, X in case["geos"]:
        if kind == "covariant":
            continue
        x = X[g.ids]
        o = obs[(kind, "cv1")]
        if fitted:
            xf = np.array(o).reshape(-1, 3)
            reported = math.sqrt(float(((xf - ref) ** 2).sum()) / len(xf))
        else:
            reported = o[0]
        Rk, gap = G.kabsch(x - x.mean(axis=0), ref - ref.mean(axis=0))
        best = None
        for i in range(400):
            if i < 200:
                Rt = G.random_rotation(rng)
            else:
                Rt = G.random_rotation(rng, max_angle=10.0 ** rng.uniform(-7, -0.5)) @ Rk
            d = G.rms_deviation(Rt, x, ref)
            c.bump("optimality_rotations_tried")
            if best is None or d < best[0]:
                best = (d, i)
        if best[0] < reported - 1e-12:
            c.violation("%s:%s:optimality" % (ctype, case["label"]),
                        "geometry %s: reported deviation %.15g is beaten by %s rotation no. %d with %.15g" % (
                            kind, reported, "a random" if best[1] < 200 else "a perturbed optimal", best[1], best[0]),
                        files, payload=case["text0"])
            return
        # and the SVD optimum itself must not beat it either
        dk = G.rms_deviation(Rk, x, ref)
        if dk < reported - max(1e-12, REL * max(1.0, reported)):
            c.violation("%s:%s:optimality" % (ctype, case["label"]),
                        "geometry %s: reported deviation %.15g exceeds the least-squares optimum %.15g" % (kind, reported, dk),
                        files, payload=case["text0"])
            return
        c.nontrivial("%s|%s|optimality" % (ctype, case["label"]))
        c.bump("comparisons_optimality")
        tl.by_type.setdefault(ctype, set()).add("optimality")


# ---------------------------------------------------------------------------------------------
# plan / run
# ---------------------------------------------------------------------------------------------

def plan(c, tier):
    rng = c.rng
    reps = 4 if tier == "quick" else 40
    cases = []
    idx = 0
    osets = option_sets()
    for rep in range(reps):
        for ctype, opts, label in osets:
            for cell in (False, True):
                cases.append(gen_case(rng, idx, ctype, opts, label, cell))
                idx += 1
        scal = ["distance", "angle", "dihedral", "gyration", "coordNum", "distanceZ", "rmsd", "inertia", "hBond",
                "orientationAngle", "tilt", "dipoleMagnitude"]
        for _ in range(4):
            combo = rng.sample(scal, rng.randint(2, 3))
            cases.append(gen_case(rng, idx, None, {}, "polynomial", rng.random() < 0.5, combo=combo))
            idx += 1
    return cases


def run(tier, replay):
    c = common.Check("C02", tier)
    c.use_flavour("plain")
    c.rule = ("evaluations = colvar values observed (colvar x geometry); distinct_nontrivial = distinct (component type, "
              "option set, transformation kind or 'definition'/'optimality') with at least one conclusive comparison")
    c.assumptions = [
        "tolerance = %g*scale + %g*S, scale = max(1,|values|), S = sensitivity of the model value to the coordinates "
        "(finite perturbation 1e-7): forward error of a backward-stable evaluation with coordinate error %g; the Jacobi "
        "diagonalisation converges to a few ulp of the overlap-matrix norm, so rotation-derived values obey the same bound "
        "(observed worst ratios are in worst_rel_dev); comparisons whose bound exceeds %g*scale are inconclusive" % (
            REL, BACKERR, BACKERR, ILL),
        "pair-list variants (tolerance > 0) are evaluated only at pair-list rebuild steps (all evaluations repeat step 0)",
        "gyration/inertia/inertiaZ with explicit fit options in the atoms block: the manual discourages these options there and "
        "the library logs a warning; no documented function, L1 only",
        "groupCoord is not in the reference manual; its definition is taken from the source (switching function between "
        "the two centres of mass)",
        "distanceZ with ref2: the documented origin (r1+r2)/2 is not invariant under a lattice translation of ref or ref2 "
        "alone, so these two groups are only translated together",
        "the raw sign of the optimal-rotation eigenvector is not observable at the engine boundary: sign-invariant rotation "
        "variables are decided against the quaternion-free model over rotation angles listed in rotation_angle_bins_deg",
        "rotateToReference without centerToReference, differenceVector, normalizeVector, atomPermutation, forceNoPBC, "
        "period/wrapAround of distanceZ are not exercised",
    ]
    common.vbuild.ensure("plain", tools=["esim"])
    cases = plan(c, tier)

    def runner(flavour):
        def f(case):
            wd = os.path.join(c.work, "c%d" % case["idx"])
            os.makedirs(wd, exist_ok=True)
            for fn, content in case["files"].items():
                with open(os.path.join(wd, fn), "w") as fh:
                    fh.write(content)
            return common.run_esim(flavour, scenario(case), os.path.join(c.work, "c%d" % case["idx"]),
                                   "c02_" + flavour, timeout=300 if flavour == "plain" else 600)
        return f

    res = common.pmap(runner("plain"), cases)
    tl = Tally(c)
    modelrng = c.rng.__class__(c.seed * 104729 + 17)
    for case, (r, ev, sp) in zip(cases, res):
        check_case(c, tl, case, r, ev, sp, modelrng)

    # thorough: a sample under ASan+UBSan (different compiler and optimisation level as a bonus)
    if tier == "thorough":
        c.use_flavour("asan")
        common.vbuild.ensure("asan", tools=["esim"])
        sample = c.rng.sample(cases, min(120, len(cases)))
        ares = common.pmap(runner("asan"), sample)
        for case, (r, ev, sp) in zip(sample, ares):
            rep = common.sanitizer_report(r["err"])
            if rep:
                c.note_set("sanitizer_reports", "%s/%s: %s @ %s" % (case["ctype"], case["label"], rep, common.colvars_frame(r["err"])))
                c.inconc("sanitizer report while evaluating %s/%s: %s" % (case["ctype"], case["label"], rep))
                continue
            if not r["complete"]:
                c.inconc("asan run failed %s/%s" % (case["ctype"], case["label"]))
                continue
            c.bump("asan_cases_clean")
            st = [e for e in ev if e.get("ev") in ("step", "eval")]
            pl = [e for e in res[cases.index(case)][1] if e.get("ev") in ("step", "eval")]
            for a, b in zip(st, pl):
                for name in a.get("cv", {}):
                    if name in b.get("cv", {}):
                        va = [fl(x) for x in a["cv"][name]["x"]]
                        vb = [fl(x) for x in b["cv"][name]["x"]]
                        c.count()
                        scale = max([1.0] + [abs(x) for x in va + vb])
                        if max_dev(va, vb) > 1e-7 * scale and not (case["ctype"] in G.PERIODIC):
                            c.violation("%s:%s:flavour" % (case["ctype"], case["label"]),
                                        "plain %s vs asan %s" % (vb[:4], va[:4]), [sp], payload=case["text0"])
                            break

    c.use_flavour("plain")
    c02_files.run_files(c, tier)
    c02_files.run_runtime(c, tier)
    c02_files.run_pairlist(c, tier)
    c02_paths.run_paths(c, tier)

    c.extra["worst_rel_dev"] = {k: {"relative_deviation": v[0], "fraction_of_tolerance": v[1]} for k, v in tl.worst.items()}
    c.extra["conclusive_kinds_by_component_type"] = {k: sorted(v) for k, v in sorted(tl.by_type.items())}
    l2 = sorted(c.extra.get("types_L2", []))
    l1 = sorted(c.extra.get("types_L1", []))
    allc = list(corpus.COMPONENTS) + list(corpus.EXTRA_COMPONENTS) + list(c02_paths.KINDS)
    c.extra["coverage_L2_and_L1"] = sorted(set(l2) & set(l1))
    c.extra["coverage_L2_only"] = sorted(set(l2) - set(l1))
    c.extra["coverage_L1_only"] = sorted(set(l1) - set(l2))
    c.extra["coverage_none"] = sorted(set(allc) - set(l1) - set(l2)) + NOT_IN_CORPUS
    for k in ("types_L1", "types_L2", "types_evaluated"):
        c.extra.pop(k, None)
    ncov = len(set(l1) | set(l2))
    c.extra["component_types_with_conclusive_comparison"] = ncov
    floor = ncov >= 25 and len(c.distinct) >= 150
    return c.finish(floor, "only %d component types / %d distinct comparisons conclusive" % (ncov, len(c.distinct)))
