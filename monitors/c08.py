"""C08 - bias contributions superpose; multiple-time-step scaling conserves impulse.

Positions are imposed by the engine simulator, so every bias that does not read forces evolves
identically whether it runs alone or together with others.

Superposition: a subset of 2-5 named biases on 3 scalar variables (plus a vector variable for the
histogram restraint) that may share atoms.  Runs on one position history: all biases together, each
bias alone, and (when non-biasing members are present) all biases without the non-biasing ones.
  per step and atom   F_joint = sum_b F_b      within (K+3) 2^-52 sum|terms|   (K biases: K-1 roundings of
                      E_joint = sum_b E_b       the joint sum, one per product, K-1 of the reference sum)
  histogram, abf/opes with applyBias off: forces exactly 0, energy exactly 0 alone; joint run bit-identical
  with and without them.
  abf (reads total forces) is combined with others only in the same-step convention, or in the previous-step
  convention with subtractAppliedForce and then only with biases on its own variable (tolerance 1e-12: the
  subtraction leaves a rounding residue in its samples).

MTS: memoryless biases (harmonic / harmonicWalls / linear) with timeStepFactor n in {1,2,3,5,8} on variables
with factor m, started at a random absolute step.  References: each bias alone with factor 1.
  bias awake iff step % n == 0 (absolute step number); when awake its variable force and energy are those of
  the reference (bitwise), each atom receives sum_awake n_b F_b^ref, the reported energy is sum_awake E_b^ref;
  when no bias is awake every atomic force and the energy are exactly 0; a sleeping variable (no awake bias,
  step % m != 0) is not evaluated (value stale) and applies nothing.
"""
import math
import os

import common
import corpus
from common import fnum, fl

EPS = 2.0 ** -52

VKINDS = {
    # kind: (component, width, lower, upper, centre range, periodic)
    "distance": ("distance", 0.5, 0.0, 12.0, (1.0, 6.0), False),
    "distanceZ": ("distanceZ", 0.5, -8.0, 8.0, (-3.0, 3.0), False),
    "angle": ("angle", 5.0, 0.0, 180.0, (30.0, 150.0), False),
    "dihedral": ("dihedral", 10.0, -180.0, 180.0, (-170.0, 170.0), True),
    "gyration": ("gyration", 0.25, 0.0, 8.0, (1.0, 4.0), False),
}
NONBIASING = ("histogram", "abf_off", "opes_off")
BIASING = ("harmonic", "harmonic2", "walls", "linear", "meta_nogrid", "meta_grid", "abmd", "opes", "histrest", "abf_on")


# ---------------------------------------------------------------------------------------------
# variables
# ---------------------------------------------------------------------------------------------

def make_vars(rng, sysm, kinds, extra=None, vec=False):
    """each variable draws its atoms from its own random pool, so variables may share atoms"""
    n = sysm["natoms"]
    out = []
    for i, k in enumerate(kinds):
        comp, w, lo, hi, cr, per = VKINDS[k]
        pool = rng.sample(range(1, n - 1), 14)
        ex = ["width %s" % fnum(w), "lowerBoundary %s" % fnum(lo), "upperBoundary %s" % fnum(hi)] + list((extra or {}).get(i, []))
        o = {"axis": rng.choice(["axis", "default"])} if k == "distanceZ" else {}
        cv = corpus.make_colvar(rng, sysm, pool, "v%d" % (i + 1), comp, o, ex)
        cv.update(kind=k, width=w, lo=lo, hi=hi, crange=cr, periodic=per)
        out.append(cv)
    if vec:
        pool = rng.sample(range(1, n - 1), 10)
        cv = corpus.make_colvar(rng, sysm, pool, "vec", "distancePairs", {}, [])
        cv.update(kind="vector", width=1.0, periodic=False)
        out.append(cv)
    return out


def history(rng, sysm, T, amp=0.2):
    X = [sysm["pos"]]
    for _ in range(T):
        X.append([[x + rng.uniform(-amp, amp) for x in p] for p in X[-1]])
    return X


# ---------------------------------------------------------------------------------------------
# bias templates
# ---------------------------------------------------------------------------------------------

def bias_block(rng, kind, name, vs, tsf=None):
    """vs: list of variable dicts the bias acts on"""
    names = " ".join(v["name"] for v in vs)
    t = "  timeStepFactor %d\n" % tsf if tsf else ""
    if kind in ("harmonic", "harmonic2"):
        return "harmonic {\n  name %s\n  colvars %s\n  centers %s\n  forceConstant %s\n%s}\n" % (
            name, names, " ".join(fnum(rng.uniform(*v["crange"])) for v in vs), fnum(rng.uniform(0.3, 6.0)), t)
    if kind == "walls":
        v = vs[0]
        a, b = sorted([rng.uniform(*v["crange"]), rng.uniform(*v["crange"])])
        mode = rng.choice(["both", "lower", "upper"])
        s = "harmonicWalls {\n  name %s\n  colvars %s\n" % (name, names)
        if mode in ("both", "lower"):
            s += "  lowerWalls %s\n" % fnum(a)
        if mode in ("both", "upper"):
            s += "  upperWalls %s\n" % fnum(b if mode == "both" else a)
        return s + "  forceConstant %s\n%s}\n" % (fnum(rng.uniform(0.5, 8.0)), t)
    if kind == "linear":
        return "linear {\n  name %s\n  colvars %s\n  centers %s\n  forceConstant %s\n%s}\n" % (
            name, names, fnum(rng.uniform(*vs[0]["crange"])), fnum(rng.choice([-1, 1]) * rng.uniform(0.3, 4.0)), t)
    if kind in ("meta_nogrid", "meta_grid"):
        s = "metadynamics {\n  name %s\n  colvars %s\n  hillWeight %s\n  newHillFrequency %d\n  hillWidth %s\n" % (
            name, names, fnum(rng.uniform(0.2, 2.0)), rng.choice([1, 2, 3]), fnum(rng.uniform(1.0, 3.0)))
        if kind == "meta_nogrid":
            s += "  useGrids off\n"
        return s + "}\n"
    if kind == "abmd":
        v = vs[0]
        return "abmd {\n  name %s\n  colvars %s\n  forceConstant %s\n  stoppingValue %s\n}\n" % (
            name, names, fnum(rng.uniform(1.0, 10.0)), fnum(v["hi"] + 50.0))
    if kind in ("opes", "opes_off"):
        v = vs[0]
        return ("opes_metad {\n  name %s\n  colvars %s\n  newHillFrequency 2\n  barrier %s\n  gaussianSigma %s\n  fixedGaussianSigma on\n%s}\n"
                % (name, names, fnum(rng.uniform(3.0, 10.0)), fnum(v["width"] * rng.uniform(0.5, 2.0)),
                   "  applyBias off\n" if kind == "opes_off" else ""))
    if kind == "histrest":
        nb = 10
        ref = [rng.uniform(0.1, 1.0) for _ in range(nb)]
        sm = sum(ref) * 1.0
        ref = [r / sm for r in ref]
        return ("histogramRestraint {\n  name %s\n  colvars %s\n  lowerBoundary 0.0\n  upperBoundary 10.0\n  width 1.0\n"
                "  refHistogram %s\n  forceConstant %s\n}\n" % (name, names, " ".join(fnum(r) for r in ref), fnum(rng.uniform(1.0, 20.0))))
    if kind == "histogram":
        return "histogram {\n  name %s\n  colvars %s\n}\n" % (name, names)
    if kind in ("abf_off", "abf_on"):
        return "abf {\n  name %s\n  colvars %s\n  fullSamples %d\n%s}\n" % (
            name, names, rng.choice([1, 2, 4]), "  applyBias off\n" if kind == "abf_off" else "")
    raise ValueError(kind)


def allowed(kind, v):
    if v["kind"] == "vector":
        return kind == "histrest"
    if kind == "histrest":
        return False
    if kind in ("walls", "linear", "abmd"):
        return not v["periodic"]
    return True


# ---------------------------------------------------------------------------------------------
# superposition
# ---------------------------------------------------------------------------------------------

def gen_super(rng, idx, tier):
    T = 10
    K = rng.choice([2, 2, 3, 3, 4, 5])
    kinds = [rng.choice(NONBIASING) if rng.random() < 0.22 else rng.choice(BIASING) for _ in range(K)]
    if idx % 3 == 0 and not any(k in NONBIASING for k in kinds):
        kinds[-1] = rng.choice(NONBIASING)
    if all(k in NONBIASING for k in kinds):
        kinds[0] = "harmonic"
    forced_prev = (idx % 6 == 1)
    if forced_prev:
        # abf reading previous-step total forces, with subtractAppliedForce, next to a harmonicWalls bias (whose force reaches
        # the variable through the route that bypasses the extended Lagrangian) on the same variable
        kinds = ["abf_on", "walls"] + ([rng.choice(["harmonic", "linear", "meta_nogrid"])] if rng.random() < 0.5 else [])
    n_abf_on = sum(1 for k in kinds if k == "abf_on")
    while n_abf_on > 1:
        kinds[kinds.index("abf_on")] = "harmonic"
        n_abf_on -= 1
    needs_tf = any(k in ("abf_on", "abf_off") for k in kinds)
    tfmode = "off"
    if needs_tf:
        tfmode = "prev" if (rng.random() < 0.35 or forced_prev) else "same"
    sysm = corpus.make_system(rng, natoms=26, cell=(rng.random() < 0.25))
    vkinds = [rng.choice(list(VKINDS)) for _ in range(3)]
    extra = {}
    abf_prev = (tfmode == "prev" and n_abf_on == 1)
    if abf_prev:
        extra[0] = ["subtractAppliedForce on"]       # the abf variable is v1
    if abf_prev:
        # the vector variable of the histogram restraint may share atoms with the abf variable: its forces would
        # legitimately enter the abf samples (only forces applied to the abf variable itself are subtracted)
        kinds = ["harmonic" if k == "histrest" else k for k in kinds]
    vs = make_vars(rng, sysm, vkinds, extra=extra, vec=("histrest" in kinds))
    scal = vs[:3]
    biases = []
    for j, k in enumerate(kinds):
        name = "b%d_%s" % (j + 1, k)
        if k == "histrest":
            on = [vs[-1]]
        elif k == "abf_on" and abf_prev:
            on = [scal[0]]
        elif abf_prev and k in BIASING:
            # previous-step abf with subtractAppliedForce: only forces applied to its own variable are removed
            # from its samples, so the other biasing members act on that variable too
            on = [scal[0]]
            if not allowed(k, scal[0]):
                k = "harmonic"
                name = "b%d_%s" % (j + 1, k)
        else:
            cand = [v for v in scal if allowed(k, v)]
            if not cand:
                k = "harmonic"
                name = "b%d_%s" % (j + 1, k)
                cand = scal
            nv = 2 if (k in ("harmonic2", "histogram") or (k in ("meta_nogrid", "abf_off") and rng.random() < 0.3)) and len(cand) >= 2 else 1
            on = rng.sample(cand, nv)
        biases.append(dict(kind=k, name=name, text=bias_block(rng, k, name, on), on=[v["name"] for v in on]))
    script = None
    if idx % 5 == 2 and not abf_prev:
        # a scripted-force procedure (cv colvar <name> addforce, called before or after the configured biases) next to a
        # configured restraint on the same non-scalar variable: two sources of force of different origin on one variable
        ct = rng.choice(["distanceDir", "orientation", "distanceVec", "distanceDir", "orientation"])
        vx = corpus.make_colvar(rng, sysm, rng.sample(range(1, sysm["natoms"] - 1), 14), "vx", ct, {}, ["width 1.0"])
        vx.update(kind=ct, width=1.0, periodic=False)
        vs.append(vx)
        j = len(biases)
        name = "b%d_hvx" % (j + 1)
        biases.append(dict(kind="harmonic_nonscalar", name=name, on=["vx"],
                           text="harmonic {\n  name %s\n  colvars vx\n  centers %s\n  forceConstant %s\n}\n" % (
                               name, corpus.value_str(vx["vtype"], corpus.random_value(rng, vx)), fnum(rng.uniform(0.5, 4.0)))))
        biases.append(dict(kind="script", name="script", on=["vx"], text=""))
        script = dict(cv="vx", force=fnum(round(rng.uniform(0.1, 0.6), 3)), after=(rng.random() < 0.5))
    X = history(rng, sysm, T)
    F = [[[rng.uniform(-8, 8) for _ in range(3)] for _ in range(sysm["natoms"])] for _ in range(T + 1)]
    return dict(idx=idx, sysm=sysm, vs=vs, biases=biases, X=X, F=F, T=T, tfmode=tfmode, abf_prev=abf_prev,
                temp=300.0, script=script)


def omp_threads(case):
    """a third of the superposition cases with >= 3 biases run the JOINT configuration with the library's own OpenMP loops, on a
    number of threads that does not divide the number of biases (the single-bias references stay serial)"""
    K = len(case["biases"])
    if K < 3 or case["idx"] % 3 != 0:
        return None
    return 2 if K % 2 else (3 if K % 3 else 2)


def scen_super(case, members):
    members = list(members)
    omp = omp_threads(case) if len(members) == len(case["biases"]) else None
    s = corpus.scenario_header(case["sysm"], tfmode=case["tfmode"], extra="dt 1.0\ntemp %s" % fnum(case["temp"]) + ("\nsmp omp" if omp else ""))
    glob = ""
    if case.get("script") and any(case["biases"][j]["kind"] == "script" for j in members):
        s += "forcecb %s %s\n" % (case["script"]["cv"], case["script"]["force"])
        glob = "scriptedColvarForces on\nscriptingAfterBiases %s\n" % ("on" if case["script"]["after"] else "off")
    s += "module\nconfig <<EOC\n" + glob + "\n".join(v["text"] for v in case["vs"]) + "\n" + "".join(case["biases"][j]["text"] for j in members) + "EOC\ninit\n"
    for t in range(case["T"] + 1):
        s += corpus.pos_line(case["X"][t]) + "\n"
        if case["tfmode"] != "off":
            s += corpus.fext_line(case["F"][t]) + "\n"
        s += "step\n"
    return s


def cfg_of(case, members):
    return "\n".join(v["text"] for v in case["vs"]) + "\n" + "".join(case["biases"][j]["text"] for j in members)


def run_ok(r, ev):
    cfg = [e for e in ev if e.get("ev") == "config"]
    if r["sig"]:
        return "signal %s: %s" % (r["sig"], r["err"][-200:])
    if not r["complete"] or not cfg:
        return "incomplete: %s" % r["err"][-200:]
    if cfg[0]["rc"] != 0:
        return "config rejected: %s" % str(cfg[0]["errs"])[:300]
    st = [e for e in ev if e.get("ev") == "step"]
    if any(e["err"] for e in st):
        return "error bits: %s" % str([e.get("errs") for e in st if e.get("errs")][:1])[:300]
    return None


def steps(ev):
    return [e for e in ev if e.get("ev") == "step"]


def energy(e):
    return sum(fl(x) for x in e["en"])


def viol(c, key, text, files=None, payload=None):
    seen = c.extra.setdefault("_seen_keys", {})
    if key in seen:
        c.bump("repeated_violation_instances")
        return seen[key]
    seen[key] = c.violation(key, text, files, payload)
    return seen[key]


def check_super(c, case, res):
    """res: dict label -> (r, ev, sp); labels: "joint", "j<k>" singles, optionally "biasing" (joint without non-biasing)"""
    K = len(case["biases"])
    kinds = [b["kind"] for b in case["biases"]]
    kkey = "+".join(sorted(set(kinds)))
    files = [res[k][2] for k in res]
    payload = {"config": cfg_of(case, range(K)), "tfmode": case["tfmode"]}
    for lab, (r, ev, sp) in res.items():
        bad = run_ok(r, ev)
        if bad:
            if r["sig"]:
                viol(c, "crash:" + kkey, bad, [sp], payload)
            else:
                c.inconc("%s run of {%s}: %s" % (lab, kkey, bad))
                c.note_set("subsets_rejected", kkey + ": " + bad[:120])
            return False
    joint = steps(res["joint"][1])
    singles = [steps(res["j%d" % j][1]) for j in range(K)]
    n = case["sysm"]["natoms"]
    tolf = (K + 3) * EPS
    tabs = 0.0
    if case["abf_prev"]:
        # the abf samples are (total force - applied force): the subtraction leaves a residue of the order of
        # 2^-52 x |applied force| (forces up to ~1e3 here) that depends on which other biases are present
        tolf = 1e-12
        tabs = 1e-12
    if case.get("script"):
        # forces on a unit-vector / quaternion variable reach the atoms as sums over its components of products that partly
        # cancel: (f1 + f2).grad and f1.grad + f2.grad differ by rounding of the size of the partial products
        tolf = max(tolf, 1e-11)
        tabs = max(tabs, 1e-13)
    nonzero = False
    for t in range(case["T"] + 1):
        ej = joint[t]
        # non-biasing members alone: exactly nothing
        for j, k in enumerate(kinds):
            if k in NONBIASING:
                es = singles[j][t]
                if any(fl(x) != 0.0 for f in es["af"] for x in f):
                    if viol(c, "zero_contribution_force:" + k, "step %d: %s alone applies atomic forces" % (t, case["biases"][j]["name"]), files, payload):
                        return False
                if energy(es) != 0.0:
                    # keyed per bias kind; the remaining checks do not depend on it
                    viol(c, "zero_contribution_energy:" + k, "step %d: %s (declared non-biasing) alone reports energy %.17g to the engine" % (
                        t, case["biases"][j]["name"], energy(es)), files, payload)
                c.bump("zero_contribution_checks")
        # energy
        terms = [energy(s[t]) for s in singles]
        E = energy(ej)
        if not (abs(E - sum(terms)) <= tolf * sum(abs(x) for x in terms) + tabs):
            # is the discrepancy entirely the energy of the non-biasing members (which should not be reported at all)?
            nbj = [j for j, k in enumerate(kinds) if k in NONBIASING]
            E_b = E - sum(fl(ej["bias"][case["biases"][j]["name"]]["e"]) for j in nbj)
            tb = [x for j, x in enumerate(terms) if j not in nbj]
            if nbj and abs(E_b - sum(tb)) <= (tolf + 4 * EPS) * (sum(abs(x) for x in tb) + abs(E)):
                viol(c, "zero_contribution_energy:" + "+".join(sorted(set(kinds[j] for j in nbj if fl(ej["bias"][case["biases"][j]["name"]]["e"]) != 0.0))),
                     "step %d: joint energy %.17g contains the energies of non-biasing members %s" % (
                         t, E, [(case["biases"][j]["name"], ej["bias"][case["biases"][j]["name"]]["e"]) for j in nbj]), files, payload)
            elif viol(c, "superposition_energy:" + kkey, "step %d: joint energy %.17g, sum of separate energies %.17g (%s)" % (t, E, sum(terms), terms), files, payload):
                return False
        # forces
        for a in range(n):
            for d in range(3):
                ft = [fl(s[t]["af"][a][d]) for s in singles]
                Fj = fl(ej["af"][a][d])
                scale = sum(sum(abs(fl(s[t]["af"][a][dd])) for dd in range(3)) for s in singles)
                if Fj != 0.0:
                    nonzero = True
                if not math.isfinite(Fj) or abs(Fj - sum(ft)) > tolf * scale + tabs:
                    if viol(c, "superposition_force:" + kkey, "step %d atom %d coord %d: joint force %.17g, sum of separate forces %.17g (%s)" % (
                            t, a + 1, d, Fj, sum(ft), ft), files, payload):
                        return False
                    break
        c.bump("steps_compared")
    # joint run with and without the non-biasing members: bit-identical
    if "biasing" in res:
        jb = steps(res["biasing"][1])
        for t in range(case["T"] + 1):
            # name the non-biasing members whose own energy is not zero at this step (all of them if none is)
            nbk = sorted(set(k for j, k in enumerate(kinds) if k in NONBIASING and fl(joint[t]["bias"][case["biases"][j]["name"]]["e"]) != 0.0))
            nb = "+".join(nbk or sorted(set(k for k in kinds if k in NONBIASING)))
            if jb[t]["af"] != joint[t]["af"]:
                if viol(c, "zero_contribution_joint_force:" + nb, "step %d: atomic forces of the joint run change when %s is removed" % (t, nb), files, payload):
                    return False
                break
            if energy(jb[t]) != energy(joint[t]):
                if viol(c, "zero_contribution_energy:" + nb, "step %d: energy of the joint run changes when %s is removed (%.17g vs %.17g)" % (
                        t, nb, energy(joint[t]), energy(jb[t])), files, payload):
                    return False
                break
        c.bump("joint_without_nonbiasing_checks")
    if not nonzero:
        c.bump("subsets_all_zero")
        return False
    return True


# ---------------------------------------------------------------------------------------------
# MTS
# ---------------------------------------------------------------------------------------------

FACTORS = [1, 2, 3, 5, 8]


def gen_mts(rng, idx, tier):
    T = 20
    sysm = corpus.make_system(rng, natoms=26, cell=(rng.random() < 0.2))
    nv = rng.choice([1, 2, 2, 3])
    vkinds = [rng.choice(["distance", "distanceZ", "angle", "gyration", "dihedral"]) for _ in range(nv)]
    K = 1 if idx % 4 == 0 else rng.choice([2, 3, 4])
    # which variable each bias acts on, and its factor
    plan = []
    for j in range(K):
        plan.append(dict(v=rng.randrange(nv), n=rng.choice(FACTORS), kind=rng.choice(["harmonic", "walls", "linear"])))
    # variable factors: a divisor of the factors of all its biases ("on schedule"), or -- in a separate class of
    # cases -- a factor some bias is not a multiple of
    off_schedule = (idx % 5 == 4)
    vf = []
    for i in range(nv):
        ns = [p["n"] for p in plan if p["v"] == i]
        if not ns:
            vf.append(rng.choice(FACTORS))
            continue
        g = 0
        for x in ns:
            g = math.gcd(g, x)
        divs = [m for m in FACTORS if g % m == 0]
        if off_schedule:
            cand = [m for m in FACTORS if m > 1 and any(x % m for x in ns)]
            vf.append(rng.choice(cand) if cand else rng.choice(divs))
        else:
            vf.append(rng.choice(divs))
    extra = {i: (["timeStepFactor %d" % m] if m > 1 else []) for i, m in enumerate(vf)}
    vs = make_vars(rng, sysm, vkinds, extra=extra)
    vs1 = []
    for v in vs:
        v1 = dict(v)
        v1["text"] = v["text"].replace("  timeStepFactor %d\n" % vf[len(vs1)], "")
        vs1.append(v1)
    biases = []
    for j, p in enumerate(plan):
        v = vs[p["v"]]
        k = p["kind"] if allowed(p["kind"], v) else "harmonic"
        name = "m%d_%s" % (j + 1, k)
        st = rng.getstate()
        text_n = bias_block(rng, k, name, [v], tsf=(p["n"] if p["n"] > 1 else None))
        rng.setstate(st)
        text_1 = bias_block(rng, k, name, [v])
        b = dict(kind=k, name=name, n=p["n"], v=p["v"], text=text_n, text1=text_1)
        if rng.random() < 0.3:
            # scaledBiasingForce: the force handed to the variable is the bias force times a tabulated factor (1 outside the table);
            # the time-step factor multiplies that product
            # the table lives on the variable's own grid (boundaries and width)
            npt = int(math.floor((v["hi"] - v["lo"]) / v["width"] + 0.5))
            vals = [rng.choice([0.25, 0.5, 2.0, 3.0]) for _ in range(npt)]
            b["scale"] = dict(file="scale_%s.dat" % name, vals=vals,
                              text="# 1\n# %s %s %d %d\n\n" % (fnum(v["lo"]), fnum(v["width"]), npt, 1 if v["periodic"] else 0) +
                                   "".join("%s %s\n" % (fnum(v["lo"] + (k + 0.5) * v["width"]), fnum(x)) for k, x in enumerate(vals)))
            add = "  scaledBiasingForce on\n  scaledBiasingForceFactorsGrid %s\n}\n" % b["scale"]["file"]
            b["text"] = b["text"][:-2] + add
            b["text1"] = b["text1"][:-2] + add
        biases.append(b)
    start = rng.choice([0, 0, rng.randint(1, 40)])
    return dict(idx=idx, sysm=sysm, vs=vs, vs1=vs1, vf=vf, biases=biases, X=history(rng, sysm, T), T=T, start=start,
                off_schedule=off_schedule and any(b["n"] % vf[b["v"]] for b in biases))


def scen_mts(case, which):
    """which: "mts" (all biases and variables with their factors) or an integer j (bias j alone, every factor 1)"""
    s = corpus.scenario_header(case["sysm"], tfmode="off", extra="dt 1.0\ntemp 300.0")
    if which == "mts":
        cfg = "\n".join(v["text"] for v in case["vs"]) + "\n" + "".join(b["text"] for b in case["biases"])
    else:
        cfg = "\n".join(v["text"] for v in case["vs1"]) + "\n" + case["biases"][which]["text1"]
    s += "module\n"
    if case["start"]:
        s += "setstep %d\n" % case["start"]
    s += "config <<EOC\n" + cfg + "EOC\ninit\n"
    for t in range(case["T"] + 1):
        s += corpus.pos_line(case["X"][t]) + "\nstep\n"
    return s, cfg


def check_mts(c, case, res):
    K = len(case["biases"])
    files = [res[k][2] for k in res]
    payload = {"config": scen_mts(case, "mts")[1], "first_step": case["start"]}
    for lab, (r, ev, sp) in res.items():
        bad = run_ok(r, ev)
        if bad:
            if r["sig"]:
                viol(c, "crash:mts", bad, [sp], payload)
            elif lab == "mts" and case["off_schedule"] and "config rejected" in bad and "multiple of" in bad:
                # a bias whose factor is not a multiple of its variable's factor cannot honour the variable's
                # schedule: refusing the configuration is consistent with the property
                c.bump("mts_inconsistent_factors_refused")
            else:
                c.inconc("MTS %s run: %s" % (lab, bad))
            return False
    M = steps(res["mts"][1])
    R = [steps(res["r%d" % j][1]) for j in range(K)]
    n = case["sysm"]["natoms"]
    nv = len(case["vs"])
    if len(M) != case["T"] + 1 or any(len(r) != len(M) for r in R):
        c.inconc("MTS: unexpected number of steps")
        return False
    last_awake_x = {}
    tuples = set()
    for t in range(len(M)):
        e = M[t]
        it = e["it"]
        if it != case["start"] + t or any(r[t]["it"] != it for r in R):
            c.inconc("MTS: step numbering differs from the scenario (%s vs %s)" % (it, case["start"] + t))
            return False
        awake = [it % b["n"] == 0 for b in case["biases"]]
        cls = "n%s" % "_".join(str(b["n"]) for b in case["biases"]) if K == 1 else "multi"
        tainted = False
        for j, b in enumerate(case["biases"]):
            eb = e["bias"][b["name"]]
            rb = R[j][t]["bias"][b["name"]]
            if (eb["on"] == 1) != awake[j]:
                first_multiple = -(-case["start"] // b["n"]) * b["n"]
                if eb["on"] == 1 and it < first_multiple:
                    # run started between two multiples of n: keyed apart, the rest of this step is not examined
                    viol(c, "mts_awake_before_first_multiple:bias",
                         "run started at absolute step %d; at step %d bias %s with timeStepFactor %d is active, applies variable force %s x %d "
                         "(first multiple of %d is step %d)" % (case["start"], it, b["name"], b["n"], eb["f"], b["n"], b["n"], first_multiple), files, payload)
                    c.bump("mts_steps_before_first_multiple")
                    tainted = True
                    continue
                if viol(c, "mts_sleep:bias_awake_schedule:%s:n%d" % (b["kind"], b["n"]),
                        "absolute step %d (relative %d): bias %s with timeStepFactor %d is %s" % (it, e["rel"], b["name"], b["n"], "active" if eb["on"] else "asleep"),
                        files, payload):
                    return False
                tainted = True
                continue
            if awake[j]:
                if eb["f"] != rb["f"] or eb["e"] != rb["e"]:
                    if viol(c, "mts_force:bias_instantaneous_force:%s:n%d" % (b["kind"], b["n"]),
                            "step %d: awake bias %s force/energy %s/%s differ from the factor-1 reference %s/%s" % (it, b["name"], eb["f"], eb["e"], rb["f"], rb["e"]),
                            files, payload):
                        return False
        if tainted:
            continue
        # per variable
        for i, v in enumerate(case["vs"]):
            ev_ = e["cv"][v["name"]]
            mine = [j for j, b in enumerate(case["biases"]) if b["v"] == i]
            any_awake = any(awake[j] for j in mine)
            own = (it % case["vf"][i] == 0)
            on_sched = all(case["biases"][j]["n"] % case["vf"][i] == 0 for j in mine)
            terms = []
            for j in mine:
                if not awake[j]:
                    continue
                bj = case["biases"][j]
                fj = fl(R[j][t]["bias"][bj["name"]]["f"][0][0])
                if bj.get("scale"):
                    # factor-1 reference with this bias alone: the variable receives (tabulated factor) x (bias force);
                    # the factor itself is recomputed here from the table and the variable's value
                    x = fl(R[j][t]["cv"][v["name"]]["x"][0])
                    k = int(math.floor((x - v["lo"]) / v["width"]))
                    sc = bj["scale"]["vals"][k] if 0 <= k < len(bj["scale"]["vals"]) else 1.0
                    edge = abs((x - v["lo"]) / v["width"] - round((x - v["lo"]) / v["width"])) < 1e-9
                    fref = fl(R[j][t]["cv"][v["name"]]["fa"][0])
                    if not edge and abs(fref - sc * fj) > 4 * EPS * abs(sc * fj):
                        if viol(c, "mts_force:scaled_reference:%s" % bj["kind"],
                                "step %d: bias %s alone (factor 1, scaledBiasingForce): variable %s = %.17g receives %.17g; bias force %.17g x tabulated "
                                "factor %g = %.17g" % (it, bj["name"], v["name"], x, fref, fj, sc, sc * fj), files, payload):
                            return False
                    c.bump("mts_scaled_force_terms")
                    fj = fref
                terms.append(bj["n"] * fj)
            fa = fl(ev_["fa"][0])
            if abs(fa - sum(terms)) > (len(terms) + 3) * EPS * sum(abs(x) for x in terms):
                kind = "mts_force:variable_force"
                if terms and abs(fa - sum(terms) * case["vf"][i]) <= 1e-12 * abs(fa):
                    kind = "mts_force:variable_factor_applied_too"
                if viol(c, "%s:%s:m%d" % (kind, v["kind"], case["vf"][i]),
                        "step %d: variable %s (timeStepFactor %d) applies %.17g; sum over awake biases of n x instantaneous force = %.17g (%s)" % (
                            it, v["name"], case["vf"][i], fa, sum(terms), terms), files, payload):
                    return False
            should_sleep = (not any_awake) and (not own)
            if should_sleep:
                if ev_["on"] != 0:
                    first_multiple = -(-case["start"] // case["vf"][i]) * case["vf"][i]
                    if it < first_multiple:
                        viol(c, "mts_awake_before_first_multiple:variable",
                             "run started at absolute step %d; at step %d variable %s with timeStepFactor %d and no awake bias is active (first multiple: step %d)" % (
                                 case["start"], it, v["name"], case["vf"][i], first_multiple), files, payload)
                    elif viol(c, "mts_sleep:variable_awake:%s:m%d" % (v["kind"], case["vf"][i]),
                              "step %d: variable %s with timeStepFactor %d and no awake bias is active" % (it, v["name"], case["vf"][i]), files, payload):
                        return False
                elif v["name"] in last_awake_x and ev_["x"] != last_awake_x[v["name"]]:
                    if viol(c, "mts_sleep:variable_value_not_stale:%s" % v["kind"],
                            "step %d: sleeping variable %s changed its value %s -> %s" % (it, v["name"], last_awake_x[v["name"]], ev_["x"]), files, payload):
                        return False
                else:
                    c.bump("mts_variable_sleep_checks")
            elif any_awake:
                # a bias acts on it at this step: evaluated, with the value of the reference run
                if ev_["on"] != 1:
                    if viol(c, "mts_sleep:variable_asleep_under_awake_bias:%s:m%d" % (v["kind"], case["vf"][i]),
                            "step %d: variable %s (timeStepFactor %d) is not active although a bias acting on it is awake" % (it, v["name"], case["vf"][i]), files, payload):
                        return False
                elif ev_["x"] != R[0][t]["cv"][v["name"]]["x"]:
                    if viol(c, "mts_sleep:awake_variable_value:%s" % v["kind"], "step %d: variable %s value %s, reference %s" % (
                            it, v["name"], ev_["x"], R[0][t]["cv"][v["name"]]["x"]), files, payload):
                        return False
            if ev_["on"] == 1:
                last_awake_x[v["name"]] = ev_["x"]
            # a variable with factor m is evaluated only on multiples of m: biases whose factor is not a multiple of
            # m wake it up in between (keyed separately)
            if not own and ev_["on"] == 1 and any_awake and not on_sched:
                viol(c, "mts_variable_awake_off_schedule:bias_factor_not_multiple",
                     "absolute step %d: variable %s has timeStepFactor %d but is evaluated (value %s) and applies force %.17g because bias(es) %s with factor(s) %s are awake" % (
                         it, v["name"], case["vf"][i], ev_["x"], fa, [case["biases"][j]["name"] for j in mine if awake[j]],
                         [case["biases"][j]["n"] for j in mine if awake[j]]), files, payload)
                c.bump("mts_off_schedule_wakeups")
        # energy
        terms = [energy(R[j][t]) for j in range(K) if awake[j]]
        E = energy(e)
        if abs(E - sum(terms)) > (len(terms) + 3) * EPS * sum(abs(x) for x in terms):
            kind = "mts_energy:sleeping_bias_counted" if any(not a for a in awake) else "mts_energy:sum"
            if viol(c, "%s:%s" % (kind, cls), "step %d: reported energy %.17g, sum of the awake biases' reference energies %.17g (awake: %s)" % (it, E, sum(terms), awake), files, payload):
                return False
        # atoms
        for a in range(n):
            for d in range(3):
                ts = [case["biases"][j]["n"] * fl(R[j][t]["af"][a][d]) for j in range(K) if awake[j]]
                scale = sum(case["biases"][j]["n"] * sum(abs(fl(R[j][t]["af"][a][dd])) for dd in range(3)) for j in range(K) if awake[j])
                Fm = fl(e["af"][a][d])
                if not math.isfinite(Fm) or abs(Fm - sum(ts)) > (len(ts) + 3) * EPS * scale:
                    kind = "mts_force:atom_force_while_all_asleep" if not ts else "mts_force:atom_force"
                    if viol(c, "%s:%s" % (kind, cls), "step %d atom %d coord %d: force %.17g, sum over awake biases of n x reference force %.17g (%s; awake %s)" % (
                            it, a + 1, d, Fm, sum(ts), ts, awake), files, payload):
                        return False
                    break
        c.bump("mts_steps_checked")
        if not any(awake):
            c.bump("mts_all_asleep_steps")
    for b in case["biases"]:
        tuples.add((b["kind"], b["n"], case["vs"][b["v"]]["kind"], case["vf"][b["v"]]))
    return tuples


# ---------------------------------------------------------------------------------------------

def run(tier, replay):
    c = common.Check("C08", tier)
    c.use_flavour("plain")
    c.rule = ("superposition: subsets of 2-5 biases (harmonic, harmonicWalls, linear, metadynamics with/without grids, abmd, opes_metad, histogramRestraint, "
              "abf; non-biasing: histogram, abf/opes_metad with applyBias off) on variables that may share atoms, joint run vs each bias alone on one "
              "position history, per step and atom; distinct = multiset of bias kinds of a subset whose joint forces are non-zero.  MTS: tuples "
              "(bias kind, bias factor, variable kind, variable factor) checked against factor-1 single-bias references over 21 steps from a random first step")
    c.assumptions = ["positions are imposed, so history-dependent biases that do not read forces evolve identically alone and together",
                     "abf is combined with other biases only in the same-step convention, or with subtractAppliedForce and biases on its own variable "
                     "(then with relative and absolute tolerance 1e-12, the residue of the subtraction in its samples)",
                     "tolerance (K+3) 2^-52 sum|terms| for K summed contributions (one rounding per product and per addition on either side)"]
    common.vbuild.ensure("plain", tools=["esim"])
    nsup = 160 if tier == "quick" else 2500
    nmts = 60 if tier == "quick" else 1200
    sup = [gen_super(c.rng, i, tier) for i in range(nsup)]
    mts = [gen_mts(c.rng, i, tier) for i in range(nmts)]

    def do_super(case):
        wd = os.path.join(c.work, "s%d" % case["idx"])
        K = len(case["biases"])
        nt = omp_threads(case)
        res = {"joint": common.run_esim("plain", scen_super(case, range(K)), wd, "joint", timeout=300, env=({"OMP_NUM_THREADS": str(nt)} if nt else None))}
        for j in range(K):
            res["j%d" % j] = common.run_esim("plain", scen_super(case, [j]), wd, "only%d" % j, timeout=300)
        nb = [j for j in range(K) if case["biases"][j]["kind"] in NONBIASING]
        if nb:
            res["biasing"] = common.run_esim("plain", scen_super(case, [j for j in range(K) if j not in nb]), wd, "biasing", timeout=300)
        return res

    def do_mts(case):
        wd = os.path.join(c.work, "m%d" % case["idx"])
        os.makedirs(wd, exist_ok=True)
        for b in case["biases"]:
            if b.get("scale"):
                with open(os.path.join(wd, b["scale"]["file"]), "w") as f:
                    f.write(b["scale"]["text"])
        res = {"mts": common.run_esim("plain", scen_mts(case, "mts")[0], wd, "mts", timeout=300)}
        for j in range(len(case["biases"])):
            res["r%d" % j] = common.run_esim("plain", scen_mts(case, j)[0], wd, "ref%d" % j, timeout=300)
        return res

    c.bump("joint_runs_on_openmp_threads", sum(1 for case in sup if omp_threads(case)))
    for case, res in zip(sup, common.pmap(do_super, sup)):
        c.count()
        if check_super(c, case, res):
            kinds = sorted(b["kind"] for b in case["biases"])
            c.nontrivial("super|" + "+".join(kinds) + "|" + case["tfmode"])
            c.bump("subsets_passed")
            for k in kinds:
                c.note_set("bias_kinds_in_subsets", k)
            c.sample({"biases": [(b["kind"], b["on"]) for b in case["biases"]], "variables": [v["kind"] for v in case["vs"]], "timing": case["tfmode"]})

    tuples = set()
    for case, res in zip(mts, common.pmap(do_mts, mts)):
        c.count()
        tp = check_mts(c, case, res)
        if tp:
            tuples |= tp
            c.bump("mts_cases_passed")
            for b in case["biases"]:
                c.note_set("mts_factors_seen", b["n"])
            if case["start"]:
                c.bump("mts_cases_nonzero_first_step")
    for tp in tuples:
        c.nontrivial("mts|%s|n%d|%s|m%d" % tp)
    c.extra["mts_tuples"] = len(tuples)
    floor = (c.extra.get("subsets_passed", 0) >= 80 and len(tuples) >= 40 and c.extra.get("zero_contribution_checks", 0) >= 50
             and c.extra.get("mts_all_asleep_steps", 0) >= 20 and c.extra.get("mts_variable_sleep_checks", 0) >= 20)
    return c.finish(floor, "bias subsets passed %s (need 80), MTS tuples %s (need 40), zero-contribution checks %s, all-asleep steps %s, sleeping-variable checks %s" % (
        c.extra.get("subsets_passed", 0), len(tuples), c.extra.get("zero_contribution_checks", 0), c.extra.get("mts_all_asleep_steps", 0),
        c.extra.get("mts_variable_sleep_checks", 0)))
