"""C15, second half - grid files round-trip.

  "A grid written in multicolumn, restart or raw form and read back has the same sizes, boundaries,
   periodicity flags and data."

The library side is driven by harness/h_grids.cpp: 1-3 scalar variables defined by configuration
(distanceZ with / without `period`), a grid of kind count | scalar | gradient | gradient_c (gradient with
an attached count grid, as ABF keeps it) holding the data generated here, written by the library and
read back by the library into a FRESH grid object.  Everything that decides is Python code below.

What is compared, per writer/reader pair (O = original grid, R = read-back grid):

  raw_text         write_raw(ostream, n per line) -> read_raw(istream); stream formatted as
                   colvarbias::write_state does ("sci": scientific, precision 14 = 15 significant digits) or
                   as ABF / histogram do before write_raw ("gen": default float format, precision 14 = 14
                   significant digits).  R is built from the same variables and grid block: the reader only
                   fills data.
  raw_bin          write_raw(memory_stream) -> read_raw(memory_stream), R built like O.
  restart_text     write_restart(ostream) -> read_restart(istream).  R is built from the variables alone
  restart_bin      (WITHOUT the custom grid block O was built with): the reader carries its own parameters
                   and must turn R into O's geometry.  Same through cvm::memory_stream.
  multicol_stream  write_multicol(ostream) -> read_multicol(istream, add=false), R built like O.
  multicol_file    the file-name variants of both, R built like O; return codes must be COLVARS_OK.
  multicol_ctor    write_multicol(file) -> colvar_grid_scalar(file) / colvar_grid_gradient(file): R is built
                   from the file alone (kinds scalar and gradient only; this is what colvartools'
                   poisson_integrator does).
  multicol_add     the documented "incrementing if add is true": the same file(s) read twice with add=true
                   into an empty grid built like O (count file before gradient file, as ABF's inputPrefix):
                   counts must be 2 x O's, values without a count grid 2 x the printed value, means with a
                   count grid unchanged.

  For every pair:  nd, sizes nx[], multiplicity, lower boundaries, upper boundaries, widths and the first nd
  periodicity flags of R equal those of O *as the library built O* - for shapes where upper-lower is not
  a multiple of the width this is the grid with the ADJUSTED upper boundary.  Geometry must be equal
  exactly (==) whenever it does not travel as text (raw_*, multicol_stream/file/add) or is dyadic with at
  most 15 significant digits (classes "coarse" and "fine"); a non-dyadic geometry that travels as text
  (restart_*, whose parameter block is text also in the binary form, and multicol_ctor) must agree to the
  precision the library prints state with (cvm::cv_prec = 14 -> 15 significant digits -> 6e-15 relative).
  For multicol_ctor the upper boundary expected is O's (lower + nx*width).
  Data: count grids == (integers).  scalar / gradient: R == O exactly when the data are dyadic (multiples
  of 2^-10: printed exactly) or the format is binary; otherwise |R-O| <= tol*|O| with tol = 6e-15 (15
  significant digits: "sci", multicol) or 6e-14 (14 significant digits: "gen").  gradient_c: a gradient grid
  with a count grid stores SUMS and prints MEANS (value_output); the reader multiplies by the count it
  finds in the attached (already read) count grid.  The law is therefore on the printed quantity:
  counts equal exactly, and mean_R = sum_R/count_R equals mean_O = sum_O/count_O (0 in an empty bin)
  exactly for dyadic means, to the printed precision plus 4 ulp otherwise (binary: 4 ulp).
  A reader that reports failure (fail/bad bit on the stream, a return code, or library error bits) on
  what the library itself has just written is a violation as well ("reader_error").
  Hard-boundary flags are not part of the statement and travel in no format: differences are counted
  as an observation only.  Likewise the `periodic` vector being longer than nd (custom grid block) and
  unread bytes after a successful read are only counted.

Independent of any reader, two written forms are parsed here: the multicolumn file (header and every row:
bin centres lower+(i+1/2)width and printed values; "multicol_written") and the OpenDX file (sizes, origin,
deltas, item count and values at the 6 digits of a default stream; "opendx"; write-only format).

Violation keys: roundtrip:<kind>:<format>:<what differs>:<nd>d:<periodicity pattern>, where <what differs>
is the first of reader_error, nd, nx, mult, lower, upper, widths, periodic, counts, data (suffix _noncomm
when the shape is not commensurate with the width and the difference is in nx / upper / periodic);
roundtrip_sanitizer:<frame> for sanitizer reports and crashes of the harness.
"""
import json
import math
import os
import shutil
import sys

_here = os.path.dirname(os.path.abspath(__file__))
for _p in (os.path.dirname(_here), os.path.join(os.path.dirname(_here), "vlib")):
    if _p not in sys.path:
        sys.path.insert(0, _p)

import numpy as np   # noqa: E402

import common        # noqa: E402
from common import fnum, vbuild   # noqa: E402

KINDS = ["count", "scalar", "gradient", "gradient_c"]
RT_FORMATS = ["raw_text", "raw_bin", "restart_text", "restart_bin", "multicol_stream", "multicol_file",
              "multicol_ctor", "multicol_add"]
ALL_FORMATS = RT_FORMATS + ["opendx", "restart_default"]
SAMPLE_PLAN = [("count", "restart_text"), ("scalar", "multicol_ctor"), ("gradient", "raw_text"),
               ("gradient_c", "restart_bin"), ("count", "multicol_add"), ("gradient_c", "multicol_file")]
TEXT_GEOMETRY = ("restart_text", "restart_bin", "multicol_ctor")
DYW = [0.125, 0.25, 0.375, 0.5, 0.75, 1.0, 1.5, 2.0, 3.0]
U = 2.0 ** -53
TOL15 = 6e-15     # 15 significant digits: half a unit of the 15th digit is <= 5e-15 relative
TOL14 = 6e-14     # 14 significant digits
TOL6 = 6e-6       # default stream precision (OpenDX files)


def pat(per):
    return "".join("P" if p else "N" for p in per)


# ---------------------------------------------------------------------------------------------
# case generation
# ---------------------------------------------------------------------------------------------

def gen_dim(rng, gclass, shape, periodic, nrange):
    """returns dict(lower, upper, width, n, period, wrap) of a grid dimension (before the library adjusts it)"""
    n = 1 if shape == "onebin" else rng.randint(*nrange)
    if gclass == "coarse":          # at most 6 significant digits
        w = rng.choice(DYW)
        lo = rng.randint(-40, 40) * 0.25
    elif gclass == "fine":          # dyadic, up to 13 significant digits
        w = rng.randint(64, 3072) / 1024.0
        lo = rng.randint(-20480, 20480) / 1024.0
    else:                           # non-dyadic
        w = rng.choice([0.1, 0.3, 0.05, 0.7, rng.uniform(0.05, 3.0)])
        lo = rng.choice([rng.uniform(-20, 20), round(rng.uniform(-20, 20), 1), -math.pi, 1.0 / 3.0])
    if shape == "noncomm":
        f = rng.choice([0.25, -0.25, 0.375, -0.375, 0.125, 0.3125])
        up = lo + (n + f) * w
    else:
        up = lo + n * w
    d = dict(lower=lo, upper=up, width=w, n=n, period=0.0, wrap=0.0)
    if periodic:
        d["period"] = up - lo
        d["wrap"] = lo + 0.5 * (up - lo)
    return d


def gen_values(rng, dclass, n):
    if dclass == "dyadic":
        return [rng.randint(-8192, 8192) / 1024.0 for _ in range(n)]
    if dclass == "negative":
        return [-rng.randint(1, 8192) / 1024.0 for _ in range(n)]
    if dclass == "zero":
        return [0.0] * n
    if dclass == "sparse":
        return [rng.randint(-8192, 8192) / 1024.0 if rng.random() < 0.2 else 0.0 for _ in range(n)]
    if dclass == "generic":
        return [rng.uniform(-30.0, 30.0) for _ in range(n)]
    if dclass == "wide":            # mixed magnitudes
        return [rng.uniform(-10.0, 10.0) * 10.0 ** rng.randint(-30, 30) for _ in range(n)]
    raise ValueError(dclass)


EXACT_DATA = ("dyadic", "negative", "zero", "sparse")


def gen_case(rng, idx, shape_override=None):
    nd = [1, 2, 3][idx % 3]
    kind = KINDS[(idx // 3) % 4]
    gclass = ["coarse", "fine", "nondyadic", "coarse", "fine"][(idx // 12) % 5]
    custom = rng.random() < 0.4
    dims, shapes = [], []
    if shape_override == "large":
        nd = 3
        big = [40, 30, 7]
        rng.shuffle(big)
    for d in range(nd):
        if shape_override == "large":
            shape = "comm"
            nrange = (big[d], big[d])
        else:
            shape = rng.choice(["comm", "comm", "comm", "noncomm", "onebin"])
            nrange = {1: (2, 60), 2: (2, 14), 3: (2, 7)}[nd]
        periodic = rng.random() < 0.5
        D = gen_dim(rng, gclass, shape, periodic, nrange)
        D["shape"] = shape
        D["hardl"] = int(rng.random() < 0.25)
        D["hardu"] = int(rng.random() < 0.25)
        if custom:
            # the variable's own boundaries and width are something else; only the period is the grid's
            cw = rng.choice(DYW)
            cl = rng.randint(-40, 40) * 0.25
            D["cv"] = (cl, cl + rng.randint(1, 12) * cw, cw)
        dims.append(D)
        shapes.append(shape)
    nb = 1
    for D in dims:
        nb *= D["n"]
    mult = nd if kind.startswith("gradient") else 1
    case = dict(idx=idx, name="g%d" % idx, nd=nd, kind=kind, gclass=gclass, custom=custom, dims=dims,
                fmtvar=rng.choice(["sci", "gen"]), bufsize=rng.choice([1, 3, 3, 5, 8, 8]))
    if shape_override == "large":
        case["shape"] = "large"
    elif "noncomm" in shapes:
        case["shape"] = "noncomm"
    elif "onebin" in shapes:
        case["shape"] = "onebin"
    else:
        case["shape"] = "regular"
    if kind == "count":
        dclass = rng.choice(["small", "small", "empty", "large", "sparse"])
        if dclass == "small":
            data = [rng.randint(0, 20) for _ in range(nb)]
        elif dclass == "empty":
            data = [0] * nb
        elif dclass == "large":
            data = [rng.randint(0, 2 ** 40) for _ in range(nb)]
        else:
            data = [rng.randint(1, 500) if rng.random() < 0.15 else 0 for _ in range(nb)]
        case.update(dclass=dclass, data=data, exact=True)
    else:
        dclass = rng.choice(["dyadic", "dyadic", "generic", "wide", "negative", "zero", "sparse"])
        vals = gen_values(rng, dclass, nb * mult)
        case.update(dclass=dclass, exact=dclass in EXACT_DATA)
        if kind == "gradient_c":
            cclass = rng.choice(["some_empty", "some_empty", "full", "empty"])
            if cclass == "some_empty":
                counts = [rng.choice([0, 1, 2, 3, 7, 30]) for _ in range(nb)]
            elif cclass == "full":
                counts = [rng.randint(1, 30) for _ in range(nb)]
            else:
                counts = [0] * nb
            # stored quantity: sum = mean * count (exact for dyadic means); nothing is stored in an empty bin
            data = [vals[k] * counts[k // mult] for k in range(nb * mult)]
            case.update(counts=counts, cclass=cclass, data=data)
        else:
            case.update(data=vals)
    return case


def case_text(case, formats):
    L = ["case %s" % case["name"], "nd %d" % case["nd"]]
    for D in case["dims"]:
        lo, up, w = D["cv"] if case["custom"] else (D["lower"], D["upper"], D["width"])
        L.append("cv %s %s %s %s %s %d %d" % (fnum(lo), fnum(up), fnum(w), fnum(D["period"]), fnum(D["wrap"]),
                                              D["hardl"], D["hardu"]))
    if case["custom"]:
        L.append("custom 1 " + " ".join("%s %s %s" % (fnum(D["lower"]), fnum(D["upper"]), fnum(D["width"]))
                                        for D in case["dims"]))
    else:
        L.append("custom 0")
    L.append("kind %s" % case["kind"])
    L.append("fmt %s %d" % (case["fmtvar"], case["bufsize"]))
    if case["kind"] == "count":
        L.append("data %d " % len(case["data"]) + " ".join(str(int(v)) for v in case["data"]))
    else:
        L.append("data %d " % len(case["data"]) + " ".join(fnum(v) for v in case["data"]))
    if case["kind"] == "gradient_c":
        L.append("counts %d " % len(case["counts"]) + " ".join(str(int(v)) for v in case["counts"]))
    L.append("formats " + ",".join(formats))
    L.append("run")
    return "\n".join(L) + "\n"


def formats_for(case):
    out = []
    for f in ALL_FORMATS:
        if f == "multicol_ctor" and case["kind"] not in ("scalar", "gradient"):
            continue        # only these two classes have a constructor from a file
        if f == "restart_default" and case["kind"] == "gradient_c":
            continue
        out.append(f)
    return out


# ---------------------------------------------------------------------------------------------
# evaluation
# ---------------------------------------------------------------------------------------------

def farr(x):
    return np.array([common.fl(v) for v in x], dtype=float)


def means_of(sums, counts, mult):
    s = np.asarray(sums, dtype=float).reshape(-1, mult)
    c = np.asarray(counts, dtype=float).reshape(-1, 1)
    with np.errstate(divide="ignore", invalid="ignore"):
        m = np.where(c > 0, s / np.where(c > 0, c, 1.0), 0.0)
    return m.reshape(-1)


def close(a, b, tol):
    """elementwise |a-b| <= tol*max(|a|,|b|) (tol 0: ==); returns index of the first offender or -1"""
    a = np.asarray(a, dtype=float)
    b = np.asarray(b, dtype=float)
    if a.shape != b.shape:
        return 0
    if tol == 0.0:
        bad = np.nonzero(a != b)[0]
    else:
        bad = np.nonzero(np.abs(a - b) > tol * np.maximum(np.abs(a), np.abs(b)))[0]
    return int(bad[0]) if bad.size else -1


def geometry_diff(case, fmt, Og, Rg, role=""):
    """first attribute of the geometry in which R differs from O, or None.  Returns (what, text)."""
    nd = Og["nd"]
    if Rg["nd"] != nd:
        return "nd", "%snd %s, original %s" % (role, Rg["nd"], nd)
    if list(Rg["nx"]) != list(Og["nx"]):
        return "nx", "%ssizes %s, original %s" % (role, Rg["nx"], Og["nx"])
    if Rg["mult"] != Og["mult"]:
        return "mult", "%smultiplicity %s, original %s" % (role, Rg["mult"], Og["mult"])
    text_geom = fmt in TEXT_GEOMETRY and case["gclass"] == "nondyadic"
    tol = TOL15 if text_geom else 0.0
    for what in ("lower", "upper", "widths"):
        o, r = farr(Og[what]), farr(Rg[what])
        if len(r) != nd:
            return what, "%s%s has %d entries for %d dimensions (original %s)" % (role, what, len(r), nd, o[:nd].tolist())
        if what == "upper" and tol:
            # an upper boundary rebuilt as lower + n*width carries the error of both
            scale = np.abs(farr(Og["lower"])[:nd]) + np.abs(o[:nd]) + 1e-300
            bad = np.nonzero(np.abs(r[:nd] - o[:nd]) > 2 * tol * scale)[0]
            k = int(bad[0]) if bad.size else -1
        else:
            k = close(r[:nd], o[:nd], tol)
        if k >= 0:
            return what, "%s%s[%d] = %r, original %r (%s)" % (
                role, what, k, float(r[k]), float(o[k]), "must be equal" if not tol else "relative tolerance %g" % tol)
    if len(Rg["periodic"]) < nd or list(Rg["periodic"][:nd]) != list(Og["periodic"][:nd]):
        return "periodic", "%speriodic flags %s, original %s" % (role, Rg["periodic"][:nd], Og["periodic"][:nd])
    return None


def data_tol(case, fmt):
    """relative tolerance on the printed quantity"""
    if case["exact"]:
        return 0.0
    if fmt in ("raw_bin", "restart_bin"):
        return 0.0
    if fmt in ("raw_text", "restart_text") and case["fmtvar"] == "gen":
        return TOL14
    return TOL15


def head_of(path, n=7):
    try:
        with open(path) as f:
            return "".join(f.readlines()[:n])
    except OSError:
        return ""


def check_roundtrip(case, O, ev, wd):
    """returns (status, what, text): status ok | viol | observe(restart_default refused)"""
    fmt = ev["fmt"]
    kind = case["kind"]
    nd = case["nd"]
    # 1. did the reader (or the writer) report a failure on the library's own output?
    problems = []
    for tag in ("x", "xc"):
        x = ev.get(tag)
        if not x or not x.get("done"):
            continue
        if x["wrc"]:
            problems.append("writer returned %s" % x["wrc"])
        if x["rrc"]:
            problems.append("reader returned %s" % x["rrc"])
        if "fail" in x["state"] or "bad" in x["state"]:
            problems.append("stream state after reading: %s" % x["state"])
    if ev.get("err"):
        problems.append("library error bits %s %s" % (ev["err"], " / ".join(ev.get("errs", []))[:300]))
    if fmt == "restart_default":
        # a default-constructed grid has no variables: the reader checks n_colvars against the object and
        # refuses.  Refusing is not a round-trip failure (the message states the contract); succeeding would
        # have to reproduce O.
        if problems:
            return "observe", "restart_into_default_constructed_grid_refused", ""
    if problems:
        return "viol", "reader_error", "; ".join(problems)
    # 2. geometry
    g = geometry_diff(case, fmt, O["geom"], ev["geom"])
    if g is None and kind == "gradient_c":
        g = geometry_diff(case, fmt, O["cgeom"], ev["cgeom"], "count grid: ")
    if g is not None:
        what, text = g
        if case["shape"] == "noncomm" and what in ("nx", "upper", "periodic") and " entries for " not in text:
            what += "_noncomm"      # a value differs (not: is missing) on a shape the library had to adjust
        if fmt == "restart_text" and ev["x"]["file"]:
            text += "; parameter block written: " + " | ".join(
                l.strip() for l in head_of(os.path.join(wd, ev["x"]["file"])).splitlines()[1:6])
        return "viol", what, text
    # 3. data
    factor = 2.0 if fmt == "multicol_add" else 1.0
    tol = data_tol(case, fmt)
    if kind == "count":
        o = [int(v) * int(factor) for v in O["data"]]
        r = [int(v) for v in ev["data"]]
        if o != r:
            k = next((i for i in range(min(len(o), len(r))) if o[i] != r[i]), min(len(o), len(r)))
            return "viol", "data", "count[%d] = %s, expected %s (%d values, %d expected)" % (
                k, r[k] if k < len(r) else "-", o[k] if k < len(o) else "-", len(r), len(o))
        return "ok", "", ""
    rd = farr(ev["data"])
    od = farr(O["data"])
    if rd.shape != od.shape:
        return "viol", "data", "%d values, original %d" % (rd.size, od.size)
    if kind == "gradient_c":
        oc = [int(v) * int(factor) for v in O["counts"]]
        rc = [int(v) for v in ev["counts"]]
        if oc != rc:
            k = next((i for i in range(min(len(oc), len(rc))) if oc[i] != rc[i]), 0)
            return "viol", "counts", "attached count[%d] = %s, expected %s" % (k, rc[k] if k < len(rc) else "-", oc[k])
        om = means_of(od, O["counts"], nd)
        rm = means_of(rd, rc, nd)
        t = tol + (4 * U if not case["exact"] else 0.0)
        k = close(rm, om, t)
        if k >= 0:
            return "viol", "data", ("mean[%d] = %r (sum %r / count %s), original %r (sum %r / count %s); %s" % (
                k, float(rm[k]), float(rd[k]), rc[k // nd], float(om[k]), float(od[k]), O["counts"][k // nd],
                "must be equal" if not t else "relative tolerance %g" % t))
        return "ok", "", ""
    k = close(rd, od * factor, tol)
    if k >= 0:
        return "viol", "data", "value[%d] = %r, expected %r; %s" % (
            k, float(rd[k]), float(od[k] * factor), "must be equal" if not tol else "relative tolerance %g" % tol)
    return "ok", "", ""


def output_quantity(case, O):
    """what the writers print, per (bin, imult): counts, values, or means"""
    if case["kind"] == "count":
        return np.array([float(int(v)) for v in O["data"]])
    if case["kind"] == "gradient_c":
        return means_of(farr(O["data"]), O["counts"], case["nd"])
    return farr(O["data"])


def check_multicol_written(case, O, path, counts_file=False):
    """independent parse of a multicolumn file written by the library.  Returns (what, text) or None."""
    g = O["cgeom"] if counts_file else O["geom"]
    nd = g["nd"]
    nx = list(g["nx"])
    mult = g["mult"]
    hdr = []
    with open(path) as f:
        for line in f:
            s = line.strip()
            if s.startswith("#"):
                hdr.append(s[1:].split())
            elif s:
                break
    if not hdr or len(hdr[0]) != 1 or int(hdr[0][0]) != nd:
        return "nd", "first header line %r for %d dimensions" % (hdr[:1], nd)
    if len(hdr) != nd + 1 or any(len(h) != 4 for h in hdr[1:]):
        return "nd", "%d header lines for %d dimensions" % (len(hdr), nd)
    tolg = 0.0 if case["gclass"] != "nondyadic" else TOL15
    lo = farr(g["lower"])[:nd]
    w = farr(g["widths"])[:nd]
    for d in range(nd):
        hl, hw, hn, hp = float(hdr[d + 1][0]), float(hdr[d + 1][1]), int(hdr[d + 1][2]), int(hdr[d + 1][3])
        if hn != nx[d]:
            return "nx", "header of dimension %d says %d points, grid has %d" % (d, hn, nx[d])
        if close([hl], [lo[d]], tolg) >= 0:
            return "lower", "header of dimension %d says lower boundary %r, grid has %r" % (d, hl, float(lo[d]))
        if close([hw], [w[d]], tolg) >= 0:
            return "widths", "header of dimension %d says width %r, grid has %r" % (d, hw, float(w[d]))
        if hp != int(g["periodic"][d]):
            return "periodic", "header of dimension %d says periodic %d, grid has %s" % (d, hp, g["periodic"][d])
    try:
        a = np.loadtxt(path, comments="#", ndmin=2)
    except ValueError as ex:
        return "data", "rows cannot be parsed: %s" % ex
    nb = int(np.prod(nx))
    if a.shape != (nb, nd + mult):
        return "data", "%s rows x columns written, expected %s" % (a.shape, (nb, nd + mult))
    idx = np.array(np.unravel_index(np.arange(nb), nx)).T
    centres = lo[None, :] + (idx + 0.5) * w[None, :]
    scale = np.abs(lo)[None, :] + np.abs(w)[None, :] * (np.array(nx)[None, :] + 1)
    bad = np.nonzero(np.abs(a[:, :nd] - centres) > 1e-14 * scale)
    if bad[0].size:
        r, d = int(bad[0][0]), int(bad[1][0])
        return "coords", "row %d: coordinate %d written as %r, bin centre lower+(i+1/2)width is %r" % (
            r, d, float(a[r, d]), float(centres[r, d]))
    if counts_file:
        q = np.array([float(int(v)) for v in O["counts"]])
        tol = 0.0
    else:
        q = output_quantity(case, O)
        tol = 0.0 if case["exact"] or case["kind"] == "count" else TOL15
    k = close(a[:, nd:].reshape(-1), q, tol)
    if k >= 0:
        return "data", "row %d column %d: %r written, grid prints %r" % (k // mult, nd + k % mult,
                                                                        float(a[:, nd:].reshape(-1)[k]), float(q[k]))
    return None


def check_opendx(case, O, path):
    """OpenDX is write-only: sizes, origin, deltas, number of items and values, at the 6 digits of a default
    stream.  Returns (what, text) or None; second value: list of observations."""
    g = O["geom"]
    nd = g["nd"]
    nx = list(g["nx"])
    lo = farr(g["lower"])[:nd]
    w = farr(g["widths"])[:nd]
    with open(path) as f:
        lines = f.read().splitlines()
    obs = []
    if not lines or not lines[0].startswith("object 1 class gridpositions counts"):
        return ("nd", "first line %r" % (lines[:1],)), obs
    sizes = [int(x) for x in lines[0].split()[5:]]
    if sizes != nx:
        return ("nx", "gridpositions counts %s, grid sizes %s" % (sizes, nx)), obs
    if not lines[1].startswith("origin"):
        return ("lower", "no origin line"), obs
    org = [float(x) for x in lines[1].split()[1:]]
    if len(org) != nd or close(org, lo + 0.5 * w, TOL6) >= 0:
        return ("lower", "origin %s, first bin centre is %s" % (org, (lo + 0.5 * w).tolist())), obs
    for d in range(nd):
        p = lines[2 + d].split()
        dl = [float(x) for x in p[1:]]
        exp = [float(w[d]) if e == d else 0.0 for e in range(nd)]
        if p[0] != "delta" or len(dl) != nd or close(dl, exp, TOL6) >= 0:
            return ("widths", "delta line %d is %r, expected %s" % (d, lines[2 + d], exp)), obs
    k = 2 + nd
    if [int(x) for x in lines[k].split()[5:]] != nx:
        return ("nx", "gridconnections counts differ from the grid sizes: %r" % lines[k]), obs
    k += 1
    items = int(lines[k].split("items")[1].split()[0])
    nb = int(np.prod(nx))
    if g["mult"] == 1:
        if items != nb:
            return ("data", "%d items announced for %d grid points" % (items, nb)), obs
    elif items != nb:
        obs.append("opendx_of_gradient_grid_announces_nd_times_npoints_scalar_items")
    vals = []
    for line in lines[k + 1:]:
        if line.startswith("object"):
            break
        vals.extend(line.split())
    q = output_quantity(case, O)
    if len(vals) != q.size:
        return ("data", "%d values written, grid prints %d" % (len(vals), q.size)), obs
    v = np.array([float(x) for x in vals])
    kk = close(v, q, 0.0 if case["kind"] == "count" else TOL6)
    if kk >= 0:
        return ("data", "value %d written as %r, grid prints %r" % (kk, float(v[kk]), float(q[kk]))), obs
    return None, obs


# ---------------------------------------------------------------------------------------------
# running
# ---------------------------------------------------------------------------------------------

def run_chunk(root, flavour, chunk, idx, timeout):
    exe = vbuild.tool(flavour, "h_grids")
    wd = os.path.join(root, "%s_%04d" % (flavour, idx))
    shutil.rmtree(wd, ignore_errors=True)
    os.makedirs(wd, exist_ok=True)
    path = os.path.join(wd, "cases.txt")
    with open(path, "w") as f:
        for case in chunk:
            f.write(case_text(case, formats_for(case)))
    r = common.run_proc([exe, path], timeout=timeout, cwd=wd)
    ev = common.parse_events(r["out"])
    by = {}
    for e in ev:
        if "case" in e:
            by.setdefault(e["case"], []).append(e)
    done = bool(ev) and ev[-1].get("ev") == "done"
    fail = None
    if not done or r["rc"] != 0:
        san = common.sanitizer_report(r["err"])
        fail = dict(timeout=r["timeout"], rc=r["rc"], sig=r["sig"], san=san,
                    frame=common.colvars_frame(r["err"]) if (san or r["sig"]) else "", err=r["err"][-2500:])
    return by, fail, wd, path


def process(root, flavour, cases, group, timeout):
    chunks = [cases[i:i + group] for i in range(0, len(cases), group)]

    def one(args):
        i, chunk = args
        by, fail, wd, path = run_chunk(root, flavour, chunk, i, timeout)
        out = []
        if fail and len(chunk) > 1:
            # attribute the failure: one process per case
            for k, case in enumerate(chunk):
                by1, fail1, wd1, path1 = run_chunk(root, flavour, [case], 100000 + i * 100 + k, timeout)
                out.append((case, by1.get(case["name"], []), fail1, wd1, path1))
            shutil.rmtree(wd, ignore_errors=True)
        else:
            for case in chunk:
                out.append((case, by.get(case["name"], []), fail, wd, path))
        return out

    res = []
    for batch in common.pmap(one, list(enumerate(chunks))):
        res.extend(batch)
    return res


class _State:
    def __init__(self):
        self.shapes = set()
        self.by_key = {}
        self.sampled = set()


def _violate(c, st, case, flavour, key, text, wd, path, files=()):
    st.by_key[key] = st.by_key.get(key, 0) + 1
    vb = c.extra.setdefault("roundtrip_violations_by_key", {})
    vb[key] = vb.get(key, 0) + 1
    if st.by_key[key] > 1:          # one witness per class is kept, the rest only counted
        return
    jf = os.path.join(wd, "case_%s.json" % case["name"])
    with open(jf, "w") as f:
        json.dump(dict(case=case, flavour=flavour), f)
    cf = os.path.join(wd, "case_%s.txt" % case["name"])
    with open(cf, "w") as f:
        f.write(case_text(case, formats_for(case)))
    slim = {k: v for k, v in case.items() if k not in ("data", "counts")}
    new = c.violation(key, "[case %s, %s] %s" % (case["name"], flavour, text),
                      files=[jf, cf] + [os.path.join(wd, x) for x in files if x], payload=slim)
    c.sample(dict(verdict="violation" if new else "known-finding", key=key, case=case["name"], text=text[:240]), cap=40)


def evaluate(c, st, flavour, case, events, fail, wd, path):
    kind, nd = case["kind"], case["nd"]
    if fail and (fail["san"] or fail["sig"]):
        key = "roundtrip_sanitizer:%s" % (fail["frame"] or "?")
        last = events[-1].get("fmt", events[-1].get("ev")) if events else "-"
        _violate(c, st, case, flavour, key, "harness died (signal %s) after event '%s' of a %s grid: %s" % (
            fail["sig"], last, kind, fail["san"] or fail["err"][-400:]), wd, path)
        return
    orig = next((e for e in events if e.get("ev") == "orig"), None)
    if fail or orig is None or not any(e.get("ev") == "end" for e in events):
        why = [e for e in events if e.get("ev") == "fail"]
        c.inconc("%s [%s]: harness did not complete the case: %s" % (
            case["name"], flavour, json.dumps(why[:1])[:300] if why else (fail or {}).get("err", "")[-300:]))
        return
    if orig.get("err"):
        c.inconc("%s: errors while building the grid: %s" % (case["name"], orig.get("errs")))
        return
    og = orig["geom"]
    # the grid the library built is the reference; it must be the requested shape (commensurate dimensions)
    want = [D["n"] for D in case["dims"]]
    if list(og["nx"]) != want:
        c.inconc("%s: grid built with sizes %s, requested %s" % (case["name"], og["nx"], want))
        return
    P = pat(og["periodic"][:nd])
    D = "%dd" % nd
    # what was stored is what the grid holds, in the documented layout (last index fastest, multiplicity innermost)
    if kind == "count":
        same = [int(v) for v in orig["data"]] == [int(v) for v in case["data"]]
    else:
        same = close(farr(orig["data"]), np.array(case["data"], dtype=float), 0.0) < 0
        if same and kind == "gradient_c":
            same = [int(v) for v in orig["counts"]] == [int(v) for v in case["counts"]]
    if not same:
        _violate(c, st, case, flavour, "roundtrip:%s:memory:layout:%s:%s" % (kind, D, P),
                 "values stored with set_value(ix, v, imult) are not found at row-major positions of the raw data "
                 "(sizes %s, strides %s)" % (og["nx"], og["nxc"]), wd, path)
        return
    if len(og["periodic"]) != nd:
        c.bump("observed_periodic_vector_longer_than_nd")
    st.shapes.add(tuple(og["nx"]))
    for ev in events:
        if ev.get("ev") == "rt":
            fmt = ev["fmt"]
            try:
                status, what, text = check_roundtrip(case, orig, ev, wd)
            except Exception as ex:       # evaluation must never turn into a verdict
                c.inconc("%s %s: evaluation failed: %r" % (case["name"], fmt, ex))
                continue
            if status == "observe":
                c.bump("observed_" + what)
                continue
            if fmt == "restart_default":
                c.bump("restart_into_default_constructed_grid_accepted")
            c.count()
            c.bump("grid_roundtrips")
            c.bump("grid_roundtrips_" + fmt)
            if ev.get("x", {}).get("rest", 0) > 0 or ev.get("xc", {}).get("rest", 0) > 0:
                c.bump("observed_unread_data_after_read")
            if status == "ok":
                c.nontrivial("rt|%s|%s|%s|%s|%s" % (kind, fmt, D, P, case["shape"]))
                rg = ev["geom"]
                if list(rg.get("hardl", [])) != list(og["hardl"]) or list(rg.get("hardu", [])) != list(og["hardu"]):
                    c.bump("observed_hard_boundary_flags_not_carried_" + fmt)
                if len(st.sampled) < len(SAMPLE_PLAN) and (kind, fmt) == SAMPLE_PLAN[len(st.sampled)]:
                    st.sampled.add((kind, fmt))
                    c.sample(dict(roundtrip=fmt, kind=kind, sizes=og["nx"], periodic=P, shape=case["shape"],
                                  geometry=case["gclass"], data=case["dclass"], custom_grid_block=case["custom"],
                                  flavour=flavour, verdict="held"), cap=40)
            else:
                files = [ev.get("x", {}).get("file"), ev.get("xc", {}).get("file")]
                _violate(c, st, case, flavour, "roundtrip:%s:%s:%s:%s:%s" % (kind, fmt, what, D, P),
                         "%s -> read back: %s (sizes %s, shape class %s, geometry class %s, data class %s%s)" % (
                             fmt, text, og["nx"], case["shape"], case["gclass"], case["dclass"],
                             ", custom grid block" if case["custom"] else ""), wd, path, files)
        elif ev.get("ev") == "wr" and ev.get("fmt") == "opendx":
            try:
                res, obs = check_opendx(case, orig, os.path.join(wd, ev["x"]["file"]))
            except Exception as ex:
                c.inconc("%s opendx: evaluation failed: %r" % (case["name"], ex))
                continue
            for o in obs:
                c.bump("observed_" + o)
            c.bump("grid_written_files_parsed")
            if ev["x"]["wrc"] or ev.get("err"):
                res = ("reader_error", "write_opendx returned %s, error bits %s" % (ev["x"]["wrc"], ev.get("err")))
            if res is None:
                c.nontrivial("wr|%s|opendx|%s|%s|%s" % (kind, D, P, case["shape"]))
            else:
                _violate(c, st, case, flavour, "roundtrip:%s:opendx:%s:%s:%s" % (kind, res[0], D, P),
                         "OpenDX file: " + res[1], wd, path, [ev["x"]["file"]])
    # the written multicolumn file, parsed here
    mf = next((e for e in events if e.get("ev") == "rt" and e.get("fmt") == "multicol_file"), None)
    if mf is not None and not mf["x"]["wrc"]:
        todo = [(mf["x"]["file"], False)]
        if kind == "gradient_c":
            todo.append((mf["xc"]["file"], True))
        for fn, is_counts in todo:
            try:
                res = check_multicol_written(case, orig, os.path.join(wd, fn), is_counts)
            except Exception as ex:
                c.inconc("%s multicol file: evaluation failed: %r" % (case["name"], ex))
                continue
            c.bump("grid_written_files_parsed")
            if res is None:
                c.nontrivial("wr|%s|multicol|%s|%s|%s" % ("count" if is_counts else kind, D, P, case["shape"]))
            else:
                _violate(c, st, case, flavour, "roundtrip:%s:multicol_written:%s:%s:%s" % (kind, res[0], D, P),
                         "multicolumn file %s: %s" % ("of the attached count grid" if is_counts else "", res[1]),
                         wd, path, [fn])


def plan(c, tier):
    rng = c.rng
    th = tier == "thorough"
    n = 1250 if th else 46
    cases = [gen_case(rng, i) for i in range(n)]
    nlarge = 8 if th else 1
    for k in range(nlarge):
        cases.append(gen_case(rng, 15 * k + 2, shape_override="large"))      # kind k % 4, geometry class varies
        cases[-1]["name"] = "L%d" % k
    return cases


def run_roundtrips(c, tier, replay=None):
    """Runs the round trips and records verdicts and evidence in the Check object c.  Returns a summary dict."""
    root = os.path.join(c.work, "grids")
    os.makedirs(root, exist_ok=True)
    c.extra["rule_roundtrips"] = (
        "one round trip = one (grid, writer/reader pair): the library writes the grid, the library reads it into a "
        "fresh object, sizes / boundaries / widths / periodic flags / data compared as stated in monitors/c15_grids.py; "
        "distinct round-trip classes = (kind, writer/reader pair, dimension, periodicity pattern, shape class) with a "
        "conclusive 'held'")
    st = _State()
    if replay:
        cases = []
        for f in sorted(os.listdir(replay)):
            if f.startswith("case_") and f.endswith(".json"):
                d = json.load(open(os.path.join(replay, f)))
                cases.append((d.get("flavour", "plain"), d["case"]))
        for flavour, case in cases:
            c.use_flavour(flavour)
            for item in process(root, flavour, [case], 1, 600):
                evaluate(c, st, flavour, *item)
        return dict(roundtrips=c.extra.get("grid_roundtrips", 0))
    cases = plan(c, tier)
    th = tier == "thorough"
    c.use_flavour("plain")
    vbuild.tool("plain", "h_grids")
    results = [("plain", item) for item in process(root, "plain", cases, 8 if th else 4, 900)]
    # a sample under ASan + UBSan, reports fatal
    try:
        vbuild.tool("asan", "h_grids")
        c.use_flavour("asan")
        nas = 96 if th else 12
        sample = [cs for cs in cases if cs.get("shape") != "large"][:nas]
        results += [("asan", item) for item in process(root, "asan", sample, 4, 1200)]
        c.bump("grid_cases_under_asan", len(sample))
    except RuntimeError as ex:
        c.inconc("asan flavour of h_grids not available: %s" % ex)
    for flavour, item in results:
        evaluate(c, st, flavour, *item)
    c.extra["grid_roundtrip_distinct_shapes"] = len(st.shapes)
    c.extra["grid_roundtrip_cases"] = len(results)
    shutil.rmtree(root, ignore_errors=True)
    return dict(roundtrips=c.extra.get("grid_roundtrips", 0), shapes=len(st.shapes))


if __name__ == "__main__":
    os.environ.setdefault("VERIF_SCRATCH_TAG", "c15grids")
    a = common.main_args(sys.argv[1:])
    chk = common.Check("C15", a.tier)
    chk.rule = "round-trip half of C15 run standalone (see rule_roundtrips)"
    s = run_roundtrips(chk, a.tier, a.replay)
    need = 100 if not a.replay else 1
    sys.exit(chk.finish(s["roundtrips"] >= need, "only %d round trips evaluated" % s["roundtrips"]))
