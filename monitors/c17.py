"""C17 - extended-Lagrangian coordinates follow the documented integrator.

The actual value of a variable is imposed exactly through atom positions (vlib/ctl.py); the variable
carries a fictitious particle.  Observed per step at the engine boundary: the reported value (the
particle's coordinate), reported velocity, energies, total force, applied force, the forces handed to
the atoms, each bias' force, the Gaussian numbers the engine handed out, and (guarded accessor) the
particle's internal state after the step.

Two independent kinds of verdict:
  * lock-step: refmodel/extlag.py (manual + the BAOA scheme the source cites) is run on the same
    inputs (actual values, observed bias forces, the logged Gaussians) and compared each step;
  * model-free laws on the observed columns: (i) energy of the undamped oscillator has no drift and
    fluctuates at second order in the step, (ii) never outside a reflecting wall, (iii) a repeated
    step does not advance the particle (in-process new run: bitwise; restart from a state: 1e-10),
    (iv) value / velocity / energies / total force of one step are tied to the same step by the
    one-step identities of the scheme, force routing (atoms feel the spring and bypassing biases
    only), (v, thorough) <m v^2> = k_B T under friction with the seeded Gaussian source.
"""
import json
import math
import os
import re
import shutil

import common
import ctl
from common import fnum, fl

import sys
sys.path.insert(0, os.path.join(common.VERIF, "refmodel"))
import extlag  # noqa: E402

EPS = 2.220446049250313e-16
# validation of the monitor only (mutation runs): C17_SKIP=laws or C17_SKIP=lockstep switches one family of
# verdicts off, to see that the other one decides on its own; such a run is never better than inconclusive
LAWS_ON = "laws" not in os.environ.get("C17_SKIP", "").split(",")
LOCK_ON = "lockstep" not in os.environ.get("C17_SKIP", "").split(",")
RTOL = 1.0e-12          # per integrated step (accumulated rounding), see DESIGN.md C17

VARS = {
    "d1": dict(lo=2.0, hi=8.0, w=0.5, plus=1, minus=0, axis=0),
    "d2": dict(lo=-4.0, hi=4.0, w=0.5, plus=2, minus=3, axis=2),
    "d3": dict(lo=-4.0, hi=4.0, w=0.5, plus=8, minus=9, axis=0),
}
PERIOD = 8.0


# ---------------------------------------------------------------------------------------------
# case generation
# ---------------------------------------------------------------------------------------------

def params_of(case):
    v = VARS[case["var"]]
    return extlag.Params(case["sigma"], case["tau"], case["ext_temp"] if case["ext_temp"] is not None else case["temp"],
                         case["gamma"], case["dt"], case["tsf"], lower=v["lo"], upper=v["hi"],
                         refl_lower=case["refl_lo"], refl_upper=case["refl_hi"],
                         period=(PERIOD if case["periodic"] else 0.0), wrap_center=0.0)


def base_case(rng, idx, group):
    dt = rng.choice([0.5, 1.0, 1.0, 2.0, 0.75, 1.25])
    tsf = rng.choice([1, 1, 1, 2, 2, 3, 4])
    h = dt * tsf
    return dict(idx=idx, group=group, var="d1", periodic=False,
                sigma=ctl.dy(rng, 0.0625, 0.5, 6), tau=h * rng.choice([20, 25, 32, 40, 50, 64, 80]),
                temp=rng.choice([300.0, 300.0, 250.5, 310.25]), ext_temp=None,
                gamma=0.0, gausszero=False, seed=rng.randint(1, 10 ** 6), dt=dt, tsf=tsf,
                refl_lo=False, refl_hi=False, biases=[], subtract=False, T=200, hist=None,
                seg="none", Ks=[], traj=False)


def make_biases(rng, case, kind):
    v = VARS[case["var"]]
    lo, hi = v["lo"], v["hi"]
    n = case["tsf"]
    out = []
    for k in kind.split("+"):
        if k == "none":
            continue
        if k == "harmonic":
            out.append(dict(name="hb", kind="harmonic", bypass=False, K=ctl.dy(rng, 0.25, 6.0, 3),
                            c=ctl.dy(rng, lo + 1.0, hi - 1.0, 3)))
        elif k == "meta":
            out.append(dict(name="mb", kind="meta", bypass=False, W=ctl.dy(rng, 0.125, 1.0, 3), nh=n * rng.choice([1, 2, 3])))
        elif k == "abf":
            out.append(dict(name="ab", kind="abf", bypass=False, full=rng.choice([1, 2, 4])))
        elif k == "walls_bypass":
            out.append(dict(name="wb", kind="walls", bypass=True, K=ctl.dy(rng, 0.5, 8.0, 3), lw=lo + 1.0, uw=hi - 1.0))
        elif k == "walls_ext":
            out.append(dict(name="we", kind="walls", bypass=False, K=ctl.dy(rng, 0.5, 8.0, 3), lw=lo + 1.0, uw=hi - 1.0))
        else:
            raise ValueError(k)
    return out


BIAS_KINDS = ["none", "harmonic", "meta", "abf", "walls_bypass", "walls_ext", "harmonic+walls_bypass", "abf+walls_bypass",
              "meta+walls_bypass", "harmonic+meta"]


def gen_lock(rng, idx, tier, force=None):
    """one lock-step trajectory; `force` pins some of the class attributes so that every class occurs"""
    force = force or {}
    c = base_case(rng, idx, "lock")
    c["T"] = 240 if tier == "quick" else 400
    c["var"] = force.get("var", rng.choice(["d1", "d2", "d3"]))
    c["periodic"] = force.get("periodic", ("boundary" not in force or force["boundary"] == "none") and rng.random() < 0.12)
    if c["periodic"]:
        c["var"] = "d2"
    if "tsf" in force:
        c["tsf"] = force["tsf"]
        c["tau"] = c["dt"] * c["tsf"] * rng.choice([20, 25, 32, 40, 50, 64])
    fric = force.get("fric", rng.choice(["off", "on", "on", "zero_noise"]))
    if fric != "off":
        c["gamma"] = rng.choice([0.5, 1.0, 5.0, 20.0, 62.5, 200.0])
        c["gausszero"] = (fric == "zero_noise")
    if rng.random() < 0.3:
        c["ext_temp"] = rng.choice([150.0, 273.15, 400.0])
    bnd = force.get("boundary", rng.choice(["none", "none", "lower", "upper", "both"]))
    if c["periodic"]:
        bnd = "none"
    c["refl_lo"] = bnd in ("lower", "both")
    c["refl_hi"] = bnd in ("upper", "both")
    kinds = [k for k in BIAS_KINDS if not (c["periodic"] and "walls" in k)]
    kind = force.get("bias", rng.choice(kinds))
    c["bias_kind"] = kind
    c["biases"] = make_biases(rng, c, kind)
    c["subtract"] = (kind in ("harmonic", "harmonic+walls_bypass") and rng.random() < 0.35)
    v = VARS[c["var"]]
    T = c["T"]
    seglen = max(4, int(round(c["tau"] / c["dt"] * rng.choice([0.5, 1.0, 1.5]))))
    if c["periodic"]:
        # drifts across several periods in both directions, so that the particle's coordinate wraps
        x, out = ctl.dy(rng, -3.0, 3.0), []
        drift = rng.choice([-1, 1]) * rng.choice([0.03125, 0.0625, 0.125])
        for t in range(T + 1):
            if t % 80 == 79:
                drift = -drift if rng.random() < 0.4 else drift
            x += drift + ctl.dy(rng, -0.0625, 0.0625, 6)
            out.append(x)
        c["hist"] = out
    elif bnd != "none":
        c["hist"] = ctl.smooth_tour(rng, T, v["lo"], v["hi"], seglen, out_lo=c["refl_lo"] or rng.random() < 0.3,
                                    out_hi=c["refl_hi"] or rng.random() < 0.3)
        if rng.random() < 0.25:
            # start beyond the wall: the particle must start on the wall
            side = "lo" if c["refl_lo"] else "hi"
            c["hist"][0] = (v["lo"] - 0.5) if side == "lo" else (v["hi"] + 0.5)
    else:
        mode = rng.choice(["tour", "walk", "smooth"])
        if mode == "tour":
            c["hist"] = ctl.tour(rng, T, v["lo"], v["hi"])
        elif mode == "walk":
            c["hist"] = ctl.walk(rng, T, v["lo"], v["hi"], step=0.25)
        else:
            c["hist"] = ctl.smooth_tour(rng, T, v["lo"], v["hi"], seglen)
    seg = force.get("seg", rng.choice(["none", "none", "newrun", "newrun", "restart"]))
    c["seg"] = seg
    n = c["tsf"]
    if seg == "newrun":
        ks = sorted(rng.sample(range(0, T - 2), rng.choice([1, 2, 3])))
        if rng.random() < 0.5:
            ks = sorted(set(k - k % n for k in ks))
        c["Ks"] = ks
    elif seg == "restart":
        k = rng.randint(1, T - 3)
        c["Ks"] = [k - k % n]           # resumed at a step at which the variable is updated
        c["run0"] = rng.random() < 0.5  # the resumed process computes its first step twice ("run 0", then "run N")
    elif seg == "restart_between":
        k = rng.randint(n, T - 3 * n)
        k -= k % n
        c["Ks"] = [k + rng.randint(1, n - 1)]
        # the variable's value is held still around the stop: its stored value is as old as its last update, and the
        # library (rightly) refuses a state whose value is far from the one it computes after the resume
        for t in range(k - n, min(T, k + 3 * n) + 1):
            c["hist"][t] = c["hist"][k - n]
    c["traj"] = (idx % 3 == 0)
    # without the optional outputs (velocity, energy, forces: the defaults) the variable keeps less per-step history of its own
    c["outputs"] = force.get("outputs", rng.random() < 0.5)
    # every bias deleted through the script at some step: the variable goes on (spring on the atoms, integration) without them
    c["delete_at"] = None
    if c["biases"] and seg == "none" and (force.get("delete") or rng.random() < 0.25):
        c["delete_at"] = rng.randint(5, T - 5)
    # a third of the single-process sessions without trajectory file define the variable (and its biases) only after the session
    # has run 60 steps with another variable: its first step is not the first step of the run
    c["late"] = 60 if (seg in ("none", "newrun") and not c["traj"] and idx % 3 == 1) else 0
    return c


def klass(case):
    bnd = {(False, False): "open", (True, False): "lower", (False, True): "upper", (True, True): "both"}[(case["refl_lo"], case["refl_hi"])]
    if case["periodic"]:
        bnd = "periodic"
    fr = "nofric" if case["gamma"] == 0.0 else ("fric0noise" if case["gausszero"] else "fric")
    return "%s:%s:%s:%s:%s" % (bnd, fr, case.get("bias_kind", "none") + ("+subtract" if case["subtract"] else ""), case["seg"],
                               "mts" if case["tsf"] > 1 else "tsf1")


# ---------------------------------------------------------------------------------------------
# configuration and scenarios
# ---------------------------------------------------------------------------------------------

def config(case):
    v = VARS[case["var"]]
    ext = ctl.ext_block(case["sigma"], case["tau"], case["gamma"], temp=case["ext_temp"], refl_lower=case["refl_lo"],
                        refl_upper=case["refl_hi"], tsf=case["tsf"], subtract=case["subtract"], outputs=case.get("outputs", True))
    if case["var"] == "d1":
        cv = ctl.cv_d1(extra=ext)
    elif case["var"] == "d2":
        cv = ctl.cv_d2(extra=ext, cvc_extra=("    period %s\n" % fnum(PERIOD) if case["periodic"] else ""))
    else:
        cv = ctl.cv_d3(extra=ext)
    cfg = ("colvarsTrajFrequency 1\n" if case["traj"] else "") + cv
    tsf = ("  timeStepFactor %d\n" % case["tsf"]) if case["tsf"] != 1 else ""
    for b in case["biases"]:
        if b["kind"] == "harmonic":
            cfg += "harmonic {\n  name %s\n  colvars %s\n  centers %s\n  forceConstant %s\n%s}\n" % (
                b["name"], case["var"], fnum(b["c"]), fnum(b["K"]), tsf)
        elif b["kind"] == "meta":
            cfg += "metadynamics {\n  name %s\n  colvars %s\n  hillWeight %s\n  newHillFrequency %d\n  hillWidth 2.0\n%s}\n" % (
                b["name"], case["var"], fnum(b["W"]), b["nh"], tsf)
        elif b["kind"] == "abf":
            cfg += "abf {\n  name %s\n  colvars %s\n  fullSamples %d\n%s}\n" % (b["name"], case["var"], b["full"], tsf)
        elif b["kind"] == "walls":
            cfg += "harmonicWalls {\n  name %s\n  colvars %s\n  lowerWalls %s\n  upperWalls %s\n  forceConstant %s\n%s%s}\n" % (
                b["name"], case["var"], fnum(b["lw"]), fnum(b["uw"]), fnum(b["K"]),
                "" if b["bypass"] else "  bypassExtendedLagrangian off\n", tsf)
    return cfg


def header(case, proc, wd, light=False):
    tfm = "prev" if any(b["kind"] == "abf" for b in case["biases"]) else "off"
    extra = "dt %s\ntemp %s" % (fnum(case["dt"]), fnum(case["temp"]))
    extra += "\nrngseed %d" % (case["seed"] + 7919 * proc)
    if case["gausszero"]:
        extra += "\ngausszero on"
    s = ctl.header(tfm, extra=extra)
    if light:
        s += "emit atoms off\nemit bias off\n"
    s += "module\n"
    if case["traj"] or case["seg"].startswith("restart"):
        s += "prefix p%d\n" % proc              # relative: esim runs in the case's directory (replays stay runnable)
    if case.get("late") and proc == 0:
        other = ctl.cv_d1() if case["var"] != "d1" else ctl.cv_d3()
        s += "config <<EOC\n" + other + "EOC\ninit\n"
        for _ in range(case["late"]):
            s += pos(case, case["hist"][0]) + "step\n"
        s += "config <<EOC\n" + config(case) + "EOC\n"
        return s
    s += "config <<EOC\n" + config(case) + "EOC\n"
    if proc > 0:
        s += "inprefix p%d\n" % (proc - 1)
    s += "init\n"
    return s


def pos(case, x):
    return ctl.pos_line(**{case["var"]: x}) + "\n"


def scenarios(case, wd):
    """list of (scenario text, plan) per process; plan = [(step, repeated)] in the order of the step events"""
    T = case["T"]
    if case["seg"].startswith("restart"):
        K = case["Ks"][0]
        s0, p0 = header(case, 0, wd), []
        for t in range(K + 1):
            s0 += pos(case, case["hist"][t]) + "step\ngauss\n"
            p0.append((t, False))
        s0 += "endrun\nsavestr\n"
        s1, p1 = header(case, 1, wd), []
        s1 += "savestr\n"
        for t in range(K, T + 1):
            s1 += pos(case, case["hist"][t]) + "step\ngauss\n"
            p1.append((t, t == K))
            if t == K and case.get("run0"):
                s1 += "newrun\nstep\ngauss\n"
                p1.append((t, True))
        return [(s0, p0), (s1, p1)]
    s, p = header(case, 0, wd), []
    for t in range(T + 1):
        if case.get("delete_at") == t:
            for b in case["biases"]:
                s += "script " + json.dumps(["cv", "bias", b["name"], "delete"]) + "\n"
        s += pos(case, case["hist"][t]) + "step\ngauss\n"
        p.append((t, False))
        if case["seg"] == "newrun" and t in case["Ks"]:
            s += "newrun\nstep\ngauss\n"
            p.append((t, True))
    s += "savestr\n"
    return [(s, p)]


def run_case(c, case):
    wd = os.path.join(c.work, "%s%d" % (case["group"], case["idx"]))
    outs = []
    for i, (s, plan) in enumerate(scenarios(case, wd)):
        r, ev, sp = common.run_esim(case.get("flavour", "plain"), s, wd, "p%d" % i, timeout=900)
        outs.append(dict(r=r, ev=ev, sp=sp, plan=plan, traj=os.path.join(wd, "p%d.colvars.traj" % i)))
        if not r["complete"]:
            break
    return outs


# ---------------------------------------------------------------------------------------------
# reading the observations
# ---------------------------------------------------------------------------------------------

def steps_of(out, case):
    """[(t, repeated, event, gaussians)] of one process, or None if the log does not match the plan"""
    ev = out["ev"]
    res, i = [], 0
    st = [j for j, e in enumerate(ev) if e["ev"] == "step"]
    off = case.get("late", 0)
    st = st[off:]
    if len(st) != len(out["plan"]):
        return None
    for j, (t, rep) in zip(st, out["plan"]):
        e = ev[j]
        g = ev[j + 1]["g"] if j + 1 < len(ev) and ev[j + 1]["ev"] == "gauss" else []
        if e["it"] != t + off:
            return None
        if off:
            e = dict(e)
            e["it"] = t
        res.append((t, rep, e, [fl(x) for x in g]))
    return res


def state_ext(state, name):
    m = re.search(r"colvar \{\s*name %s\b(.*?)\}" % name, state, re.S)
    if not m:
        return None
    x = re.search(r"extended_x\s+(\S+)", m.group(1))
    v = re.search(r"extended_v\s+(\S+)", m.group(1))
    if not x or not v:
        return None
    return float(x.group(1)), float(v.group(1))


def read_traj(path):
    """[{column: float}] per data line"""
    rows, cols = [], None
    if not os.path.exists(path):
        return None
    for line in open(path):
        if line.startswith("#"):
            cols = line[1:].split()
            continue
        w = line.split()
        if cols and len(w) == len(cols):
            rows.append(dict(zip(cols, [float(x) for x in w])))
    return rows


def bias_force(case, b, x_rep, xa, p):
    """closed form of the biases whose force is a function of the current coordinate only"""
    w = VARS[case["var"]]["w"]
    if b["kind"] == "harmonic":
        return -(b["K"] / (w * w)) * p.mi(x_rep - b["c"])
    if b["kind"] == "walls":
        a = xa if b["bypass"] else x_rep
        if case["periodic"] and abs(p.mi(a - b["lw"])) == abs(p.mi(a - b["uw"])):
            return None         # exactly half-way between the two walls of a periodic variable: either wall is right
        if a > b["uw"]:
            return -(b["K"] / (w * w)) * (a - b["uw"])
        if a < b["lw"]:
            return -(b["K"] / (w * w)) * (a - b["lw"])
        return 0.0
    return None


def close(a, b, tol, scale):
    return abs(a - b) <= tol * max(scale, abs(a), abs(b))


# ---------------------------------------------------------------------------------------------
# lock-step comparison + the per-step laws
# ---------------------------------------------------------------------------------------------

class Verdict(object):
    def __init__(self):
        self.bad = None        # (key, text)
        self.steps = 0
        self.bounces = 0
        self.wraps = 0
        self.iv_events = 0
        self.ii_events = 0
        self.repeats_checked = 0
        self.restart_checked = 0
        self.bias_nonzero = {}
        self.truncated = False
        self.track = []        # (t, repeated, x_rep, ext_x) for the twin comparisons
        self.refl = self.refl_towards = self.refl_last = self.refl_mean = 0
        self.maxdev = 0.0      # largest |observed - model| / tolerance seen in the lock-step comparison


def analyse(c, case, outs):
    """returns Verdict; never raises on malformed logs (verdict.bad = ('harness', ...))"""
    V = Verdict()
    p = params_of(case)
    v = VARS[case["var"]]
    name = case["var"]
    K = klass(case)
    model = extlag.ExtLag(p)
    m1 = extlag.ExtLag(p)
    prev_state = None          # model state before the last integrated step
    n_int = 0                  # number of integrated steps so far (tolerance grows with it)
    vscale = math.sqrt(p.kT / p.m)
    fscale = p.k * p.sigma
    escale = p.kT
    nb = [b for b in case["biases"] if not b["bypass"]]
    byp = [b for b in case["biases"] if b["bypass"]]
    last = None                # observation of the previous active execution
    params_checked = False
    for ip, out in enumerate(outs):
        seq = steps_of(out, case)
        if seq is None:
            V.bad = ("harness", "event log does not match the scenario plan (process %d)" % ip)
            return V
        traj = read_traj(out["traj"]) if case["traj"] else None
        if case["traj"] and (traj is None or len(traj) != len(seq)):
            V.bad = ("harness", "trajectory file has %s lines for %d steps" % (None if traj is None else len(traj), len(seq)))
            return V
        loaded = None
        if ip > 0:
            sv1 = [e for e in outs[ip - 1]["ev"] if e["ev"] == "savestr"]
            sv2 = [e for e in out["ev"] if e["ev"] == "savestr"]
            loaded = state_ext(sv2[0]["state"], name) if sv2 else None
            saved = state_ext(sv1[-1]["state"], name) if sv1 else None
            if loaded is None or saved is None:
                V.bad = ("harness", "no extended_x/extended_v in the saved state")
                return V
            ini = [e for e in out["ev"] if e["ev"] == "init"]
            if ini and (ini[0].get("rc") or ini[0].get("err")):
                V.bad = ("harness", "state load failed: %s" % ini[0].get("errs"))
                return V
        first_in_proc = True
        for si, (t, rep, e, g) in enumerate(seq):
            cv = e["cv"][name]
            active = (t % p.tsf == 0)
            af = e["af"]
            if not active:
                # the variable sleeps: no force reaches the atoms, no random number is consumed
                if any(fl(x) != 0.0 for a in af for x in a):
                    V.bad = ("routing:force_while_asleep:" + K, "step %d: atoms receive a force at a step where the variable is not updated: %s" % (t, af[:4]))
                    return V
                if g:
                    V.bad = ("lockstep:gaussians:" + K, "step %d: %d Gaussian numbers drawn while the variable sleeps" % (t, len(g)))
                    return V
                continue
            xa = p.wrap(case["hist"][t])
            xa_obs = fl(cv["xa"][0])
            if xa_obs != xa:
                V.bad = ("harness", "step %d: actual value %r is not the imposed %r" % (t, xa_obs, xa))
                return V
            x_rep, v_rep = fl(cv["x"][0]), fl(cv["v"][0])
            ft, fa = fl(cv["ft"][0]), fl(cv["fa"][0])
            ext = cv["ext"]
            ex, evv, Ek, Ep = fl(ext["x"][0]), fl(ext["v"][0]), fl(ext["Ek"]), fl(ext["Ep"])
            if not params_checked:
                params_checked = True
                for nm, o, m_ in (("k", fl(ext["k"]), p.k), ("m", fl(ext["m"]), p.m), ("gamma", fl(ext["gamma"]), p.gamma)):
                    if not close(o, m_, 1e-14, 0.0):
                        V.bad = ("parameters:%s:%s" % (nm, "mts" if p.tsf > 1 else "tsf1"), "%s = %.17g, documented formula gives %.17g" % (nm, o, m_))
                        return V
            # ---- bias forces observed at this step -------------------------------------------------
            F_nb, F_byp = 0.0, 0.0
            A_nb, A_byp = 0.0, 0.0      # sums of magnitudes: scale of the rounding of the force sums
            deleted = case.get("delete_at") is not None and t >= case["delete_at"]
            if deleted and any(b["name"] in e["bias"] for b in case["biases"]):
                V.bad = ("harness", "bias still present after its deletion")
                return V
            for b in ([] if deleted else case["biases"]):
                be = e["bias"].get(b["name"])
                if be is None or not be["f"]:
                    V.bad = ("harness", "bias %s not in the event" % b["name"])
                    return V
                fo = fl(be["f"][0][0])
                if fo != 0.0:
                    V.bias_nonzero[b["kind"] + ("_bypass" if b["bypass"] else "")] = V.bias_nonzero.get(b["kind"] + ("_bypass" if b["bypass"] else ""), 0) + 1
                fm = bias_force(case, b, x_rep, xa, p)
                if fm is not None and not close(fo, fm, 1e-13, 1e-3):
                    alt = bias_force(case, b, xa if not b["bypass"] else x_rep, x_rep if b["bypass"] else xa, p) if b["kind"] == "walls" else \
                        bias_force(case, b, xa, xa, p)
                    V.bad = ("bias_argument:%s:%s" % (b["kind"] + ("_bypass" if b["bypass"] else "_ext"), "mts" if p.tsf > 1 else "tsf1"),
                             "step %d: bias %s force %.17g; from the %s coordinate it should be %.17g (from the other coordinate: %.17g)" % (
                                 t, b["name"], fo, "actual" if b["bypass"] else "extended", fm, alt))
                    return V
                if b["bypass"]:
                    F_byp += fo
                    A_byp += abs(fo)
                else:
                    F_nb += fo
                    A_nb += abs(fo)
            # ---- model ---------------------------------------------------------------------------
            # (a variable defined in the middle of a session starts like one defined before the first step: from the actual value)
            fresh = ((e["rel"] == 0 or case.get("late")) and ip == 0 and not rep and model.x is None)
            if model.x is None and not fresh:
                V.bad = ("harness", "first active step is not step 0 of a fresh run")
                return V
            if fresh:
                model.start(xa)
            elif rep:
                if prev_state is None:
                    V.bad = ("harness", "repeated step without a previous one")
                    return V
                model.set_state(*prev_state)
            if first_in_proc and ip > 0:
                # first update of the variable in the resumed process
                if case["seg"] == "restart":
                    # the state written at the end of the previous process must carry (x_K, v_(K-1/2)): the values reported
                    # at the beginning of the step that is going to be repeated
                    chk = []
                    if LAWS_ON and last is not None:
                        chk += [("extended_x", loaded[0], last["x_rep"], 1.0, 1e-13), ("extended_v", loaded[1], last["v_rep"], vscale, 1e-13)]
                    if LOCK_ON:
                        chk += [("extended_x", loaded[0], model.x, 1.0, RTOL * (n_int + 1) + 1e-13), ("extended_v", loaded[1], model.v, vscale, RTOL * (n_int + 1) + 1e-13)]
                    for nm, o, m_, sc, tl in chk:
                        if not close(o, m_, tl, sc):
                            V.bad = ("state:%s:%s" % (nm, K), "resume at step %d: state has %s = %.15g, the particle had %.17g at the beginning of that step" % (
                                t, nm, o, m_))
                            return V
                    model.set_state(loaded[0], loaded[1])
                    V.restart_checked += 1
                else:
                    # resumed between two updates of a multiple-time-step variable: the coordinate that enters the
                    # next update must be the one the last update produced, not an older one
                    for nm, o, m_, sc in (("x", x_rep, model.x, 1.0), ("v", v_rep, model.v, vscale)):
                        if not close(o, m_, 1e-10, sc):
                            V.bad = ("resume_between_slow_steps:%s:mts" % nm, "timeStepFactor %d, state written at step %d (between two updates), resumed: the update "
                                     "at step %d starts from %s = %.17g; the update at step %d had left %.17g" % (
                                         p.tsf, case["Ks"][0], t, nm, o, t - p.tsf, m_))
                            return V
                    model.set_state(x_rep, v_rep)
                    V.restart_checked += 1
            first_in_proc = False
            g1 = 0.0
            if p.gamma > 0.0:
                if len(g) != 1:
                    V.bad = ("lockstep:gaussians:" + K, "step %d: %d Gaussian numbers drawn in one update of a scalar coordinate" % (t, len(g)))
                    return V
                g1 = g[0]
            elif g:
                V.bad = ("lockstep:gaussians:" + K, "step %d: Gaussian numbers drawn without friction" % t)
                return V
            # one update of the documented scheme from the *reported* state of this step (no accumulated history):
            # tells whether this update meets a wall or wraps, for the one-step identities below
            m1.set_state(x_rep, v_rep)
            o1 = m1.step(xa, F_nb, g1, commit=False)
            if o1["margin"] < 1e-9 * max(1.0, abs(o1["x_new"])):
                V.truncated = True     # arrival position within rounding of a wall: cannot tell which branch
                return V
            # ---- model-free, on the observed columns only ------------------------------------------------
            # (ii) inside the reflecting walls, before and after the update
            if p.refl_lower or p.refl_upper:
                V.ii_events += 1
                for nm, xx in (("reported", x_rep), ("after_update", ex)):
                    if (p.refl_lower and xx < p.lower) or (p.refl_upper and xx > p.upper):
                        side = "lower" if (p.refl_lower and xx < p.lower) else "upper"
                        V.bad = ("outside_reflecting_boundary:%s:%s" % (side, K.split(":")[1]),
                                 "step %d: coordinate %s = %.17g outside [%s, %s]" % (t, nm, xx, p.lower if p.refl_lower else "-", p.upper if p.refl_upper else "-"))
                        return V
            if LAWS_ON:
                # (iv) same time origin: one-step identities among the columns of this step
                d_ = p.mi(xa - x_rep)
                spring = p.k * d_
                f_now = spring + F_nb
                t13 = 64 * EPS
                # rounding model of one update: the force sum carries ~eps x (sum of magnitudes) (scaling by the time-step
                # factor and back included), a velocity ~eps x (magnitudes of its terms) plus h/m times the force error
                df = 16 * EPS * (abs(spring) + A_nb)
                if not close(Ep, 0.5 * p.k * d_ * d_, t13, 1e-300):
                    V.bad = ("same_origin:Ep:" + K, "step %d: Ep %.17g is not k/2 (xa - x)^2 = %.17g of the values reported at the same step" % (t, Ep, 0.5 * p.k * d_ * d_))
                    return V
                f_exp = spring if case["subtract"] else f_now
                if abs(ft - f_exp) > df + 1e-300:
                    V.bad = ("same_origin:total_force:" + K, "step %d: total force %.17g; spring%s of the same step gives %.17g (spring %.17g, biases %.17g)" % (
                        t, ft, "" if case["subtract"] else " + biases", f_exp, spring, F_nb))
                    return V
                if abs(fa - F_nb) > 16 * EPS * A_nb + 1e-300:
                    V.bad = ("same_origin:applied_force:" + K, "step %d: applied force %.17g, biases acting on the coordinate %.17g" % (t, fa, F_nb))
                    return V
                kick = 0.5 * p.h * f_now / p.m
                v_on = v_rep + kick
                dv = 16 * EPS * (abs(v_rep) + abs(kick)) + p.h * df / p.m
                if abs(Ek - 0.5 * p.m * v_on * v_on) > p.m * (abs(v_on) + dv) * dv + 16 * EPS * Ek + 1e-300:
                    V.bad = ("same_origin:Ek:" + K, "step %d: Ek %.17g is not m/2 (v + h f/2m)^2 = %.17g with v, f reported at the same step" % (t, Ek, 0.5 * p.m * v_on * v_on))
                    return V
                v1 = v_rep + 2.0 * kick                              # (10a)
                v2 = p.damp * v1 + p.noise * g1                      # (10c) with the Gaussian the engine handed out
                psc = abs(ex) + abs(x_rep) + abs(p.h * v1) + abs(p.h * v2)
                if not o1["bounced"]:
                    lhs = ex - x_rep
                    rhs = 0.5 * p.h * v1 + 0.5 * p.h * evv
                    dev = p.mi(lhs - rhs) if o1["wrapped"] else lhs - rhs
                    if abs(dev) > 16 * EPS * (psc + (p.period if o1["wrapped"] else 0.0)) + p.h * dv:
                        V.bad = ("same_origin:position_update:" + K, "step %d: x_(t+1) - x_t = %.17g but h/2 (v + h f/m) + h/2 v_next = %.17g%s" % (
                            t, lhs, rhs, " (modulo the period)" if o1["wrapped"] else ""))
                        return V
                    if p.period > 0.0 and not (p.wrap_center - 0.5 * p.period <= ex < p.wrap_center + 0.5 * p.period):
                        V.bad = ("periodic_not_wrapped:" + K.split(":")[1], "step %d: coordinate %.17g outside the period centred on %g" % (t, ex, p.wrap_center))
                        return V
                    if abs(evv - v2) > 2.0 * dv + 16 * EPS * (abs(v1) + abs(p.noise * g1)) + 1e-300:
                        V.bad = ("same_origin:velocity_update:" + K, "step %d: v_next %.17g; exp(-gamma h)(v + h f/m) + sqrt(kT(1-exp(-2 gamma h))/m) g = %.17g "
                                 "(v %.17g, f %.17g, g %.17g)" % (t, evv, v2, v_rep, f_now, g1))
                        return V
                else:
                    # reflection: the arrival position is mirrored at the wall, the particle leaves with reversed momentum
                    b_ = p.lower if o1["bounced"] < 0 else p.upper
                    arr = x_rep + 0.5 * p.h * v1 + 0.5 * p.h * v2
                    if abs(ex - (2.0 * b_ - arr)) > 16 * EPS * (psc + abs(b_)) + 2.0 * p.h * dv:
                        V.bad = ("reflection:position:" + K.split(":")[0] + ":" + K.split(":")[1], "step %d: arrival %.17g beyond the wall %g, coordinate after the update %.17g, "
                                 "mirror image %.17g" % (t, arr, b_, ex, 2.0 * b_ - arr))
                        return V
                    V.refl += 1
                    if evv * o1["bounced"] > 0.0:
                        V.refl_towards += 1      # leaves the update moving towards the wall it was reflected from
                    if abs(evv + v2) <= t13 * (abs(v2) + abs(v_rep)) + 2.0 * dv:
                        V.refl_last += 1         # -v_(t+1/2)
                    elif abs(evv + 0.5 * (v_rep + v2)) <= t13 * (abs(v2) + abs(v_rep)) + 2.0 * dv:
                        V.refl_mean += 1         # -(v_(t-1/2) + v_(t+1/2))/2
                    else:
                        V.bad = ("reflection:velocity:" + K.split(":")[0] + ":" + K.split(":")[1], "step %d: arrival velocity %.17g (previous half step %.17g), velocity after "
                                 "reflection %.17g is neither -v_(t+1/2) nor -(v_(t-1/2)+v_(t+1/2))/2" % (t, v2, v_rep, evv))
                        return V
                # routing, model-free: the variable's atoms feel tsf * (k (x - xa) + bypassing biases), nothing else
                F_var = float(p.tsf) * (-spring) + float(p.tsf) * F_byp
                o = fl(af[v["plus"]][v["axis"]])
                if abs(o - F_var) > 16 * EPS * float(p.tsf) * (abs(spring) + A_byp) + 1e-300:
                    what = "routing:bias_on_atoms" if abs(o - (F_var + p.tsf * F_nb)) <= 1e-9 * (abs(o) + 1e-300) and F_nb != 0.0 else "routing:atoms"
                    V.bad = ("%s:%s:%s" % (what, case.get("bias_kind", "none"), "mts" if p.tsf > 1 else "tsf1"),
                             "step %d: force on the variable's atoms %.17g; coupling spring%s of this step: %.17g (biases on the coordinate: %.17g)" % (
                                 t, o, " + bypassing biases" if byp else "", F_var, F_nb))
                    return V
                V.iv_events += 1
                # continuity / repeated step: (iii)
                if last is not None:
                    if rep and not (ip > 0 and last["ip"] != ip):
                        if x_rep != last["x_rep"] or v_rep != last["v_rep"]:
                            V.bad = ("repeated_step_advances:newrun:" + K.split(":")[1] + ":" + ("mts" if p.tsf > 1 else "tsf1"),
                                     "step %d repeated at a run boundary: reported (x, v) = (%.17g, %.17g), first execution (%.17g, %.17g)" % (
                                         t, x_rep, v_rep, last["x_rep"], last["v_rep"]))
                            return V
                        V.repeats_checked += 1
                    elif last["ip"] == ip:
                        if x_rep != last["ex"] or v_rep != last["ev"]:
                            V.bad = ("same_origin:continuity:" + K, "step %d reports (x, v) = (%.17g, %.17g), state after the previous update (%.17g, %.17g)" % (
                                t, x_rep, v_rep, last["ex"], last["ev"]))
                            return V
                    else:
                        # first update after a resume: same time origin as in the process that wrote the state
                        ref = last["x_rep"] if case["seg"] == "restart" else last["ex"]
                        if not close(x_rep, ref, 1e-10, 1.0):
                            V.bad = ("repeated_step_advances:%s:%s:%s" % (case["seg"], K.split(":")[1], "mts" if p.tsf > 1 else "tsf1"),
                                     "resumed from the state of step %d; first update at step %d starts from x = %.17g, uninterrupted value %.17g" % (
                                         case["Ks"][0], t, x_rep, ref))
                            return V
            state_before = (model.x, model.v)
            mo = model.step(xa, F_nb, g1)
            prev_state = state_before
            tol = RTOL * (n_int + 1)
            n_int += 1
            V.steps += 1
            if mo["margin"] < 1e-9 * max(1.0, abs(mo["x_new"])):
                V.truncated = True     # arrival position within rounding of a wall: cannot tell which branch
                return V
            V.bounces += 1 if mo["bounced"] else 0
            V.wraps += 1 if mo["wrapped"] else 0
            vscale = max(vscale, abs(mo["v_new"]), abs(mo["v"]))
            if LOCK_ON:
                F_tot_m = mo["f_spring"] if case["subtract"] else mo["f_total"]
                F_var_m = mo["f_var"] + float(p.tsf) * F_byp
                xs = max(1.0, abs(mo["x"]), abs(xa))
                fsc = p.k * xs + abs(F_nb)
                cmp = [("x", x_rep, mo["x"], xs), ("v", v_rep, mo["v"], vscale),
                       ("Ep", Ep, mo["Ep"], max(escale, p.k * xs * (abs(xa - mo["x"]) + p.sigma))), ("Ek", Ek, mo["Ek"], max(escale, p.m * vscale * vscale)),
                       ("total_force", ft, F_tot_m, fsc),
                       ("applied_force", fa, F_nb, fscale),
                       ("x_next", ex, mo["x_new"], max(1.0, abs(mo["x_new"]))), ("v_next", evv, mo["v_new"], vscale)]
                for law, o, m_, sc in cmp:
                    if abs(o - m_) > V.maxdev * tol * max(sc, abs(m_)):
                        V.maxdev = abs(o - m_) / (tol * max(sc, abs(m_)))
                    if not (abs(o - m_) <= tol * max(sc, abs(m_))):
                        key = "lockstep:%s:%s" % (law, K)
                        if law == "v_next" and mo["bounced"] and abs(ex - mo["x_new"]) <= tol * max(1.0, abs(ex)):
                            key = "lockstep:reflected_velocity:%s" % K
                        V.bad = (key, "step %d%s (%d integrated): %s observed %.17g, documented integrator %.17g (diff %.3g, tol %.3g); bounce=%d; "
                                 "inputs: x_t=%.17g v=%.17g xa=%.17g Fbias=%.17g gauss=%.17g" % (
                                     t, " (repeated)" if rep else "", n_int, law, o, m_, o - m_, tol * max(sc, abs(m_)), mo["bounced"],
                                     mo["x"], mo["v"], xa, F_nb, g1))
                        return V
                # atoms
                for ia, a in enumerate(af):
                    for d in range(3):
                        o = fl(a[d])
                        m_ = 0.0
                        if d == v["axis"] and ia == v["plus"]:
                            m_ = F_var_m
                        elif d == v["axis"] and ia == v["minus"]:
                            m_ = -F_var_m
                        if not (abs(o - m_) <= tol * max(float(p.tsf) * fsc, abs(m_))):
                            V.bad = ("lockstep:atom_forces:%s" % K, "step %d: atom %d component %d receives %.17g, spring%s gives %.17g" % (
                                t, ia + 1, d, o, " + bypassing biases" if byp else "", m_))
                            return V
            # trajectory columns of the same calc
            if traj is not None:
                row = traj[si]
                for col, o in ((("r_" + name, x_rep), ("vr_" + name, v_rep), ("Ep_" + name, Ep), ("Ek_" + name, Ek), ("ft_" + name, ft),
                                (name, xa), ("fa_" + name, fa)) if case.get("outputs", True) else (("r_" + name, x_rep), (name, xa))):
                    if col not in row or not close(row[col], o, 2e-14, 1e-300):
                        V.bad = ("traj_column:%s" % col.split("_")[0], "step %d: column %s = %r, value at this step %.17g" % (t, col, row.get(col), o))
                        return V
            last = dict(ip=ip, t=t, x_rep=x_rep, v_rep=v_rep, ex=ex, ev=evv)
            V.track.append((t, rep, ip, x_rep, ex))
    return V


def check_between(case, outs):
    """a multiple-time-step variable whose state is written between two of its updates (step K not a multiple of
    timeStepFactor) and resumed in a fresh process: it must sleep until the next multiple and continue from the
    coordinate its last update produced.  Returns (key, text) or None."""
    name, n, K = case["var"], case["tsf"], case["Ks"][0]
    s0 = steps_of(outs[0], case)
    s1 = steps_of(outs[1], case) if len(outs) > 1 else None
    if not s0 or not s1:
        return None
    last_upd = [e for (t, rep, e, g) in s0 if t % n == 0][-1]
    x_left = fl(last_upd["cv"][name]["ext"]["x"][0])
    for (t, rep, e, g) in s1:
        cv = e["cv"][name]
        if t % n:
            if any(fl(x) != 0.0 for a in e["af"] for x in a) or fl(cv["ext"]["x"][0]) != fl(s1[0][2]["cv"][name]["ext"]["x"][0]) and t == K:
                return ("resume_between_slow_steps:updated_off_stride:mts", "timeStepFactor %d, resumed at step %d: the variable is updated and applies forces at "
                        "step %d, which is not a multiple of its factor (atoms %s)" % (n, K, t, [a for a in e["af"] if any(fl(x) != 0.0 for x in a)][:2]))
            if t == K and cv.get("on") == 1:
                return ("resume_between_slow_steps:updated_off_stride:mts", "timeStepFactor %d, resumed at step %d: the variable is active at that step "
                        "(coordinate %.17g -> %.17g)" % (n, K, fl(cv["x"][0]), fl(cv["ext"]["x"][0])))
            continue
        if e.get("errs"):
            return ("resume_between_slow_steps:error:mts", "timeStepFactor %d, resumed at step %d: step %d raises: %s" % (n, K, t, " ".join(e["errs"])[:300]))
        x0 = fl(cv["x"][0])
        if not close(x0, x_left, 1e-10, 1.0):
            return ("resume_between_slow_steps:coordinate:mts", "timeStepFactor %d, state written at step %d: the update at step %d starts from %.17g, the update at "
                    "step %d had left %.17g" % (n, K, t, x0, t - n, x_left))
        return None
    return None


# ---------------------------------------------------------------------------------------------
# (i) energy of the undamped oscillator, (v) equipartition
# ---------------------------------------------------------------------------------------------

def gen_osc(rng, idx):
    c = base_case(rng, idx, "osc")
    c["var"] = rng.choice(["d2", "d3", "d1"])
    c["tsf"] = rng.choice([1, 1, 1, 2])
    c["dt"] = rng.choice([1.0, 2.0, 0.5])
    h = c["dt"] * c["tsf"]
    c["tau"] = h * rng.choice([40, 50, 64, 80, 100])
    c["x0"] = ctl.dy(rng, 3.0, 6.0) if c["var"] == "d1" else ctl.dy(rng, -2.0, 2.0)
    c["disp"] = [(1, rng.choice([-1, 1]) * ctl.dy(rng, 0.25, 1.0))]
    if rng.random() < 0.5:
        c["disp"].append((rng.randint(3, 40) * c["tsf"], rng.choice([-1, 1]) * ctl.dy(rng, 0.125, 0.5)))
    c["N"] = 2200
    c["bias_kind"] = "none"
    return c


def osc_scenario(case, wd, halve):
    cc = dict(case)
    f = 2 if halve else 1
    cc["dt"] = case["dt"] / f
    s = header(cc, 0, wd, light=True)
    x = case["x0"]
    t = 0
    s += pos(cc, x) + "step\n"
    for (at, dx) in case["disp"]:
        at2 = at * f
        if at2 - 1 > t:
            s += "step %d\n" % (at2 - 1 - t)
            t = at2 - 1
        x += dx
        s += pos(cc, x) + "step\n"
        t = at2
    n_hold = case["N"] * f * case["tsf"]
    s += "step %d\n" % n_hold
    return s, t, cc


def energy_series(ev, name, tsf, t_from):
    H, tt = [], []
    for e in ev:
        if e["ev"] != "step" or e["it"] % tsf or e["it"] <= t_from:
            continue
        ext = e["cv"][name]["ext"]
        H.append(fl(ext["Ek"]) + fl(ext["Ep"]))
        tt.append(e["it"])
    return tt, H


def fit(tt, H):
    import numpy as np
    t = np.array(tt, dtype=float)
    y = np.array(H, dtype=float)
    a, b = np.polyfit(t - t.mean(), y, 1)
    res = y - (a * (t - t.mean()) + b)
    amp = math.sqrt(2.0) * float(res.std())
    return float(a), float(b), amp, float(t[-1] - t[0])


def gen_thermal(rng, idx):
    c = base_case(rng, idx, "thermal")
    c["var"] = rng.choice(["d2", "d3"])
    c["tsf"] = [1, 2, 1, 2][idx % 4]
    c["dt"] = rng.choice([1.0, 2.0])
    h = c["dt"] * c["tsf"]
    c["tau"] = h * rng.choice([100, 128, 160])
    c["gamma"] = [5.0, 20.0, 50.0, 10.0][idx % 4]
    c["x0"] = ctl.dy(rng, -2.0, 2.0)
    c["N"] = 200000
    c["bias_kind"] = "none"
    return c


# ---------------------------------------------------------------------------------------------

def run(tier, replay):
    c = common.Check("C17", tier)
    for d in os.listdir(c.replays):               # stale witnesses of an earlier run with the same seed and tier
        if d.startswith("s%d_%s_" % (c.seed, tier)):
            shutil.rmtree(os.path.join(c.replays, d), ignore_errors=True)
    c.use_flavour("plain")
    c.rule = ("distinct = (law, configuration class) with the law evaluated on a complete trajectory; class = boundary kind : friction : "
              "bias kind : run segmentation : time-step factor; laws = lockstep, inside_walls, repeated_step, same_origin, energy, equipartition")
    c.assumptions = [
        "half-step velocities: the scheme cited by the source carries (x_t, v_(t-1/2)); 'same time origin' is checked as: Ep, Ek, total and "
        "applied force of a step are functions of the x, v, xa reported at that step (Ek of v + h f/2m, the on-step velocity), and the "
        "reported (x, v) of the next step are the state left by this step's update",
        "reflection: the manual says 'reflected with opposite momentum' without naming the discrete velocity; the model follows the source "
        "comment (mean of the two half-step velocities adjacent to t, reversed)",
        "bias forces are taken as observed at the bias boundary (closed forms checked for harmonic and harmonicWalls); metadynamics and ABF "
        "estimators themselves are C04/C05",
        "tolerance of the lock-step comparison 1e-12 x (number of integrated steps) relative: accumulated rounding of an oscillator"]
    common.vbuild.ensure("plain", tools=["esim"])
    common.vbuild.ensure("asan", tools=["esim"])
    c.use_flavour("asan")
    rng = c.rng
    quick = (tier == "quick")
    cases = []
    idx = 0
    # every class at least once, then random mixtures
    forced = []
    for bias in BIAS_KINDS:
        forced.append(dict(bias=bias, seg="none"))
    for bnd in ("lower", "upper", "both"):
        for fric in ("off", "on"):
            forced.append(dict(boundary=bnd, fric=fric, bias=rng.choice(["none", "harmonic", "walls_bypass"])))
    for fric in ("off", "on", "zero_noise"):
        forced.append(dict(periodic=True, fric=fric, bias=rng.choice(["none", "harmonic", "meta"])))
    for seg in ("newrun", "restart"):
        for fric in ("off", "on"):
            for tsf in (1, 2):
                forced.append(dict(seg=seg, fric=fric, tsf=tsf))
    for tsf in (2, 3, 4):
        forced.append(dict(tsf=tsf, fric="on", bias=rng.choice(["harmonic", "abf", "walls_bypass"])))
        forced.append(dict(tsf=tsf, fric="on", boundary=rng.choice(["lower", "upper"]), bias="none"))
    for tsf in (2, 3):
        forced.append(dict(tsf=tsf, seg="restart_between", fric="off", bias="harmonic"))
    n_lock = (96 if quick else 1200)
    for f in forced:
        cases.append(gen_lock(rng, idx, tier, f))
        idx += 1
    while len(cases) < n_lock:
        cases.append(gen_lock(rng, idx, tier))
        idx += 1
    # twins for (iii): deterministic cases, run once uninterrupted and once segmented
    twins = []
    n_twin = 14 if quick else 80
    for j in range(n_twin):
        seg = "newrun" if j % 2 == 0 else "restart"
        f = dict(seg=seg, fric=rng.choice(["off", "off", "zero_noise"]), bias=rng.choice(["none", "harmonic", "walls_bypass", "harmonic+walls_bypass", "walls_ext"]),
                 boundary=rng.choice(["none", "none", "lower", "upper"]))
        a = gen_lock(rng, idx, tier, f)
        a["group"] = "twin"
        a["traj"] = False
        b = dict(a)
        b["seg"], b["Ks"], b["idx"], b["group"] = "none", [], idx + 1, "twinref"
        idx += 2
        twins.append((a, b))
    lock_all = cases + [x for ab in twins for x in ab]
    for case in cases:
        if case["idx"] % 8 == 5:
            case["flavour"] = "asan"      # a sample of the workload under ASan+UBSan (reports are fatal)

    oscs = [gen_osc(rng, i) for i in range(12 if quick else 48)]
    therm = [] if quick else [gen_thermal(rng, i) for i in range(6)]

    def do_lock(case):
        return run_case(c, case)

    def do_osc(case):
        res = []
        wd = os.path.join(c.work, "osc%d" % case["idx"])
        for halve in (False, True):
            s, t_last, cc = osc_scenario(case, wd, halve)
            r, ev, sp = common.run_esim("plain", s, wd, "h%d" % int(halve), timeout=900)
            res.append((r, ev, sp, t_last, cc))
        return res

    def do_therm(case):
        wd = os.path.join(c.work, "th%d" % case["idx"])
        s = header(case, 0, wd, light=True)
        s += "emit every %d\n" % case["tsf"]
        s += pos(case, case["x0"]) + "step %d\n" % (2000 * case["tsf"])      # equilibration
        s += "mark start\nstep %d\n" % (case["N"] * case["tsf"])
        exe = common.vbuild.tool("plain", "esim")
        os.makedirs(wd, exist_ok=True)
        sp = os.path.join(wd, "th.scn")
        open(sp, "w").write(s)
        log = os.path.join(wd, "th.log")
        r = common.run_proc([exe, sp, log], timeout=3000, cwd=wd)
        return r, sp, log

    jobs = [("lock", x) for x in lock_all] + [("osc", x) for x in oscs] + [("th", x) for x in therm]

    def do(job):
        kind, case = job
        try:
            if kind == "lock":
                return do_lock(case)
            if kind == "osc":
                return do_osc(case)
            return do_therm(case)
        except Exception as ex:      # harness failure of one case
            return ex

    results = common.pmap(do, jobs)
    res_of = {}
    for (kind, case), out in zip(jobs, results):
        res_of[(kind, case["idx"])] = out

    # ---- lock-step + per-step laws ---------------------------------------------------------------
    n_complete = 0
    law_traj = {"ii": 0, "iii": 0, "iv": 0, "i": 0, "v": 0}
    tracks = {}
    for case in lock_all:
        outs = res_of[("lock", case["idx"])]
        c.count()
        K = klass(case)
        if isinstance(outs, Exception):
            c.inconc("case %d: %r" % (case["idx"], outs))
            continue
        files = [o["sp"] for o in outs]
        fail = [o for o in outs if not o["r"]["complete"]]
        cfg = [e for o in outs for e in o["ev"] if e["ev"] == "config"]
        if fail or any(e["rc"] != 0 for e in cfg):
            r = (fail[0] if fail else outs[0])["r"]
            rep_ = common.sanitizer_report(r["err"])
            if rep_:
                c.violation("sanitizer:" + common.colvars_frame(r["err"]), rep_, files, payload={"config": config(case)})
            elif r["sig"] or r["timeout"]:
                c.violation("crash:" + K, "signal %s timeout %s: %s" % (r["sig"], r["timeout"], r["err"][-300:]), files, payload={"config": config(case)})
            else:
                c.inconc("case %d (%s) failed: %s" % (case["idx"], K, ([e["errs"] for e in cfg if e["rc"]] or r["err"][-200:])))
            continue
        if case["seg"] == "restart_between":
            bad = check_between(case, outs)
            c.bump("resumes_between_slow_steps")
            if bad:
                c.violation(bad[0], bad[1], files, payload={"config": config(case), "K": case["Ks"], "tsf": case["tsf"]})
                continue
            c.nontrivial("resume_between_slow_steps|" + K)      # and the whole history goes through the general analysis below
        errs = [e for o in outs for e in o["ev"] if e["ev"] == "step" and (e.get("err") or e.get("errs"))]
        if errs:
            e = errs[0]
            txt = " ".join(e.get("errs", []))[:300]
            if "still outside boundaries after reflection" in txt:
                c.violation("outside_reflecting_boundary:after_reflection:" + K.split(":")[1], "step %d: %s" % (e["it"], txt), files, payload={"config": config(case)})
            elif case["seg"] == "restart_between" and "was activated after" in txt:
                c.violation("resume_between_slow_steps:error:mts", "step %d: %s" % (e["it"], txt), files, payload={"config": config(case)})
            else:
                c.violation("error_raised:" + K, "step %d: %s" % (e["it"], txt), files, payload={"config": config(case)})
            continue
        V = analyse(c, case, outs)
        c.bump("lockstep_steps_compared", V.steps)
        c.count(V.steps)
        c.bump("boundary_hits", V.bounces)
        c.bump("periodic_wraps", V.wraps)
        c.bump("repeated_steps_checked", V.repeats_checked)
        c.bump("states_compared_on_resume", V.restart_checked)
        c.bump("reflections_velocity_is_minus_mean_of_adjacent_half_steps", V.refl_mean)
        c.bump("reflections_velocity_is_minus_arrival_velocity", V.refl_last)
        c.bump("reflections_leaving_towards_the_wall", V.refl_towards)
        c.extra["max_deviation_over_tolerance"] = max(c.extra.get("max_deviation_over_tolerance", 0.0), V.maxdev if V.maxdev == V.maxdev and V.maxdev < 1.0 else 0.0)
        for k_, n_ in V.bias_nonzero.items():
            c.bump("nonzero_bias_force_steps_" + k_, n_)
        if V.bad:
            key, text = V.bad
            if key == "harness":
                c.inconc("case %d (%s): %s" % (case["idx"], K, text))
            else:
                c.violation(key, text, files, payload={"config": config(case), "class": K, "Ks": case["Ks"], "dt": case["dt"],
                                                       "hist_head": case["hist"][:12]})
            continue
        if V.truncated:
            c.bump("trajectories_truncated_at_wall_tie")
            continue
        n_complete += 1
        tracks[case["idx"]] = V.track
        c.nontrivial("lockstep|" + K)
        c.nontrivial("same_origin|" + K)
        law_traj["iv"] += 1
        if V.ii_events:
            law_traj["ii"] += 1
            c.nontrivial("inside_walls|" + K)
        if V.repeats_checked:
            c.nontrivial("repeated_step|" + K)
        c.note_set("classes", K)
        c.sample({"class": K, "var": case["var"], "sigma": case["sigma"], "tau": case["tau"], "dt": case["dt"], "tsf": case["tsf"],
                  "gamma_ps": case["gamma"], "Ks": case["Ks"], "steps": V.steps, "bounces": V.bounces, "wraps": V.wraps})
    c.extra["lockstep_trajectories_compared"] = n_complete

    # ---- (iii) twins -------------------------------------------------------------------------------
    for a, b in twins:
        ta, tb = tracks.get(a["idx"]), tracks.get(b["idx"])
        if ta is None or tb is None:
            continue
        ref = {t: (x, ex) for (t, rep, ip, x, ex) in tb}
        Kk = a["Ks"][0]
        bad = None
        n = 0
        for (t, rep, ip, x, ex) in ta:
            if t < Kk or (t == Kk and not rep and a["seg"] == "newrun"):
                continue
            rx, rex = ref[t]
            if a["seg"] == "newrun":
                ok = (x == rx and ex == rex)
            else:
                ok = close(x, rx, 1e-10, 1.0) and close(ex, rex, 1e-10, 1.0)
                if not ok and t > Kk + 20 * a["tsf"]:
                    # the state file carries 14 digits; walls and feedback biases amplify that difference with time.
                    # A double (or lost) advance shows at the first update after the resume, which is what is judged.
                    c.bump("twin_restart_late_divergence_not_judged")
                    break
            if not ok:
                bad = "step %d%s: coordinate (%.17g -> %.17g) in the segmented run, (%.17g -> %.17g) uninterrupted; boundary at step %s" % (
                    t, " (repeated)" if rep else "", x, ex, rx, rex, a["Ks"])
                break
            n += 1
        if bad:
            c.violation("repeated_step_advances:twin_%s:%s:%s" % (a["seg"], klass(a).split(":")[1], "mts" if a["tsf"] > 1 else "tsf1"), bad,
                        [o["sp"] for o in res_of[("lock", a["idx"])]] + [o["sp"] for o in res_of[("lock", b["idx"])]],
                        payload={"config": config(a), "Ks": a["Ks"]})
            continue
        if n > 0:
            law_traj["iii"] += 1
            c.bump("twin_steps_compared", n)
            c.nontrivial("twin|" + klass(a))

    # ---- (i) energy --------------------------------------------------------------------------------
    for case in oscs:
        out = res_of[("osc", case["idx"])]
        c.count()
        if isinstance(out, Exception) or any(not r["complete"] for (r, ev, sp, tl, cc) in out):
            c.inconc("oscillator %d failed" % case["idx"])
            continue
        cls = "osc:%s:%s" % ("mts" if case["tsf"] > 1 else "tsf1", "two_kicks" if len(case["disp"]) > 1 else "one_kick")
        fits = []
        for (r, ev, sp, t_last, cc) in out:
            tt, H = energy_series(ev, case["var"], case["tsf"], t_last)
            if len(H) < 2000:
                fits.append(None)
                continue
            fits.append(fit(tt, H) + (sum(H) / len(H),))
        if None in fits:
            c.inconc("oscillator %d: too few samples" % case["idx"])
            continue
        files = [o[2] for o in out]
        viol = False
        for which, (a_, b_, amp, span, mean) in zip(("h", "h/2"), fits):
            # a sinusoid of amplitude amp sampled over >= 20 of its periods fits a slope of at most ~0.1 amp / span
            if abs(a_) * span > 0.3 * amp + 1e-11 * abs(mean):
                c.violation("energy_drift:" + cls, "undamped particle, variable held fixed, step %s: Ek+Ep drifts by %.6g over the run (mean %.6g), "
                            "fluctuation amplitude %.6g" % (which, a_ * span, mean, amp), files, payload={"config": config(case), "case": {k: case[k] for k in ("dt", "tsf", "tau", "sigma", "disp")}})
                viol = True
                break
        if viol:
            continue
        amp1, amp2 = fits[0][2], fits[1][2]
        if amp2 <= 1e-11 * abs(fits[1][4]):
            c.inconc("oscillator %d: fluctuation at rounding level" % case["idx"])
            continue
        ratio = amp1 / amp2
        c.note_set("energy_ratios_by_class", "%s tsf=%d dt=%s disp=%s: %.3f" % (cls, case["tsf"], case["dt"], case["disp"], ratio))
        if cls == "osc:mts:two_kicks":
            # the second displacement falls on a slow step of the variable; at h/2 it cannot be placed at the same physical
            # time within the slow step, so the two runs oscillate with different amplitudes after it (ratios 2.9-4.2 observed
            # on the unchanged tree, 4.00-4.02 in every other class): the drift test above applies, the ratio is only recorded
            c.note_set("energy_ratios_mts_two_kicks_not_judged", round(ratio, 3))
            law_traj["i"] += 1
            c.nontrivial("energy|" + cls)
            continue
        if not (3.2 <= ratio <= 4.8):
            c.violation("energy_order:" + cls, "undamped particle: fluctuation of Ek+Ep %.6g at step h and %.6g at h/2 (ratio %.3f, second order means 4); "
                        "mean energy %.6g" % (amp1, amp2, ratio, fits[0][4]), files, payload={"config": config(case), "case": {k: case[k] for k in ("dt", "tsf", "tau", "sigma", "disp")}})
            continue
        law_traj["i"] += 1
        c.nontrivial("energy|" + cls)
        c.note_set("energy_ratios", round(ratio, 3))

    # ---- (v) equipartition -------------------------------------------------------------------------
    for case in therm:
        out = res_of[("th", case["idx"])]
        c.count()
        if isinstance(out, Exception) or out[0]["rc"] != 0:
            c.inconc("thermal run %d failed" % case["idx"])
            continue
        import json
        import numpy as np
        p = params_of(case)
        vs, on = [], False
        for line in open(out[2]):
            if not on:
                on = line.startswith('{"ev":"mark"')
                continue
            if line.startswith('{"ev":"step"'):
                e = json.loads(line)
                if e["it"] % case["tsf"] == 0:
                    vs.append(fl(e["cv"][case["var"]]["v"][0]))
        if len(vs) < 200000:
            c.inconc("thermal run %d: %d samples" % (case["idx"], len(vs)))
            continue
        y = p.m * np.array(vs) ** 2
        nbk = 50
        L = len(y) // nbk
        bm = y[:L * nbk].reshape(nbk, L).mean(axis=1)
        mean, se = float(bm.mean()), float(bm.std(ddof=1) / math.sqrt(nbk))
        cls = "thermal:%s" % ("mts" if case["tsf"] > 1 else "tsf1")
        if abs(mean - p.kT) > 5.0 * se + 0.01 * p.kT:
            c.violation("equipartition:" + cls, "<m v^2> = %.6g over %d steps, k_B T = %.6g (standard error %.3g, gamma %.4g/ps, h %.3g fs)" % (
                mean, len(vs), p.kT, se, case["gamma"], p.h), [out[1]], payload={"config": config(case)})
            continue
        law_traj["v"] += 1
        c.nontrivial("equipartition|" + cls)
        c.note_set("equipartition_ratio", round(mean / p.kT, 4))

    c.extra["trajectories_per_law"] = law_traj
    hits = c.extra.get("boundary_hits", 0)
    floor = (n_complete >= 60 and law_traj["i"] >= 8 and law_traj["ii"] >= 10 and law_traj["iii"] >= 6 and law_traj["iv"] >= 10
             and hits >= 5 and c.extra.get("repeated_steps_checked", 0) >= 10 and (quick or law_traj["v"] >= 3))
    if not (LAWS_ON and LOCK_ON):
        c.extra["skipped"] = os.environ.get("C17_SKIP")
        floor = False
    return c.finish(floor, "lock-step trajectories %d, per law %s, boundary hits %d%s" % (
        n_complete, law_traj, hits, "" if (LAWS_ON and LOCK_ON) else "; C17_SKIP set (validation run)"))
