"""C09 - configuration parsing is total, strict and independent of layout.

Three parts (DESIGN.md, section C09):

 a. totality     libFuzzer target fuzz/fz_config (ASan+UBSan): arbitrary bytes -> read_config_string() on a fresh
                 proxy+module, then engine_init() and two steps if accepted.  Every crash / timeout / oom artifact is
                 re-run alone and keyed  fuzz:<sanitizer kind>:<innermost Colvars frame>.
 b. strictness   keyword-level mutations of accepted configurations, exactly the classes the property names
                 (misspelled keyword, keyword in a block where it is not valid, one brace deleted/added, value of a
                 non-boolean keyword deleted, number replaced by an alphabetic token) -> `asan` esim; the `config`
                 event must report rc != 0 or err != 0.
 c. layout       rewrites of accepted configurations by exactly the documented free aspects of the syntax
                 (reference manual, "Configuration syntax used by the Colvars module" and "Configuration and state
                 files"): keyword letter case, amount of spaces/tabs, blank lines, # comments, LF/CRLF, distribution
                 of brace-delimited values over lines, boolean shorthand.  Original and rewrite run on the same
                 5-frame history in `plain` esim; both accepted, all step events bitwise equal.

The keyword dictionary is harvested at run time from the sources under test; the value type and the documented
context ("parent keyword") of each keyword are harvested at run time from the reference manual.

Fuzzing: 8 (quick) / 16 (thorough) single-process libFuzzer workers on a shared corpus, no -fork, each with a budget
of executions (-runs: 8 x 2000 quick ~ 45 s, 16 x 25000 thorough ~ 15 min on an idle machine; -max_total_time is only
a cap).  This is what `-jobs=N -workers=N` does, except that a worker whose process ended with a crash is started
again with the executions that are left (bounded number of launches): a libFuzzer process stops at its first crash,
and without that a tree with shallow crashes would be observed for a few hundred executions only.
"""
import collections
import hashlib
import json
import os
import re
import shutil
import subprocess
import threading
import time

import common
import corpus
from common import fnum

REPO = common.vbuild.REPO


def _ref_dir(sub):
    """tests/ and doc/ are reference data: taken from the repository under test if it has them (a scratch copy
    made for a mutant only holds src/), otherwise from /repo"""
    p = os.path.join(REPO, sub)
    return p if os.path.isdir(p) else os.path.join("/repo", sub)


TESTS = _ref_dir("tests/input_files")
DOC = _ref_dir("doc")
AUX_FILES = ["index.ndx", "rmsd_atoms_refpos.xyz", "rmsd_atoms_refpos2.xyz", "rmsd_atoms_random.xyz",
             "heavy_atoms_refpos.xyz", "eigenvectors-localmin"]

# development knob: VERIF_C09_PARTS=bc runs only the strictness and layout parts (the floors then report inconclusive)
PARTS = os.environ.get("VERIF_C09_PARTS", "abc")

TRUE_WORDS = ["on", "yes", "true"]
FALSE_WORDS = ["off", "no", "false"]
NUM_RE = re.compile(r"(?<![A-Za-z0-9_.])[-+]?(?:\d+\.?\d*|\.\d+)(?:[eE][-+]?\d+)?(?![A-Za-z0-9_.])")
ALPHA_TOKENS = ["xyz", "qq", "ghk", "zulu", "kpt"]      # no hex digit, no e/E, not inf/nan


# ---------------------------------------------------------------------------------------------------------------
# harvesting: keywords from the sources, types and contexts from the manual
# ---------------------------------------------------------------------------------------------------------------

SRC_LEVEL = [("colvarmodule.cpp", "global"), ("colvar.cpp", "colvar"), ("colvarcomp", "component"),
             ("colvaratoms", "group"), ("colvarbias", "bias"), ("colvargrid", "bias"), ("colvar_grid", "bias")]


def harvest_keywords():
    """{lowercase keyword: spelling}, {lowercase keyword: set(levels of the source files that look it up)},
    component type keywords, bias type keywords"""
    src = os.path.join(REPO, "src")
    pats = [r"\bget_keyval\s*\(\s*[^,;()]+,\s*\"([A-Za-z_][A-Za-z0-9_]*)\"",
            r"\bkey_lookup\s*\(\s*[^,;()]+,\s*\"([A-Za-z_][A-Za-z0-9_]*)\"",
            r"\bget_keyval_feature\s*\(\s*[^,;()]+,\s*[^,;()]+,\s*\"([A-Za-z_][A-Za-z0-9_]*)\"",
            r"\bparse_group\s*\(\s*[^,;()]+,\s*\"([A-Za-z_][A-Za-z0-9_]*)\""]
    comp_pat = r"add_component_type<[^>]+>\s*\(\s*\"[^\"]*\"\s*,\s*\"([A-Za-z_][A-Za-z0-9_]*)\""
    bias_pat = r"parse_biases_type<[^>]+>\s*\(\s*[^,;()]+,\s*\"([A-Za-z_][A-Za-z0-9_]*)\""
    kw, lev, comps, biases = {}, collections.defaultdict(set), {}, {}
    for f in sorted(os.listdir(src)):
        if not f.endswith((".cpp", ".h")):
            continue
        text = open(os.path.join(src, f), errors="replace").read()
        level = next((l for p, l in SRC_LEVEL if f.startswith(p)), None)
        for p in pats:
            for m in re.finditer(p, text):
                kw.setdefault(m.group(1).lower(), m.group(1))
                if level:
                    lev[m.group(1).lower()].add(level)
        for m in re.finditer(comp_pat, text):
            comps[m.group(1).lower()] = m.group(1)
            kw.setdefault(m.group(1).lower(), m.group(1))
            lev[m.group(1).lower()].add("colvar")
        for m in re.finditer(bias_pat, text):
            biases[m.group(1).lower()] = m.group(1)
            kw.setdefault(m.group(1).lower(), m.group(1))
            lev[m.group(1).lower()].add("global")
    return kw, lev, comps, biases


def _tex_args(t, i, n):
    out = []
    for _ in range(n):
        while i < len(t) and t[i] in " \n\t":
            i += 1
        if i >= len(t) or t[i] != "{":
            return None
        d, j = 0, i
        while j < len(t):
            if t[j] == "{" and t[j - 1] != "\\":
                d += 1
            elif t[j] == "}" and t[j - 1] != "\\":
                d -= 1
            j += 1
            if d == 0:
                break
        out.append(t[i + 1:j - 1])
        i = j
    return out


def harvest_manual(comps, biases):
    """{lowercase keyword: {"levels": set, "bool": bool, "numeric": bool, "types": [..]}} from \\key / \\keydef /
    \\dupkey / \\simkey of the reference manual"""
    p = os.path.join(DOC, "colvars-refman-main.tex")
    t = open(p, errors="replace").read()
    t = re.sub(r"(?<!\\)%.*?\n", "", t)
    doc = {}
    for m in re.finditer(r"\\(keydef|key|dupkey|simkey)\s*(?={)", t):
        a = _tex_args(t, m.end(), {"keydef": 5, "key": 4, "dupkey": 2, "simkey": 2}[m.group(1)])
        if not a:
            continue
        name = re.sub(r"\\_", "_", a[0].strip()).replace("{\\textunderscore}", "_")
        if not re.match(r"^[A-Za-z_][A-Za-z0-9_]*$", name):
            continue
        ctx = re.sub(r"\s+", " ", a[1]).replace("{\\textunderscore}", "_").replace("\\_", "_")
        e = doc.setdefault(name.lower(), {"levels": set(), "types": [], "bool": False, "numeric": False})
        names = [x.lower() for x in re.findall(r"\\texttt\{([^}]*)\}", ctx)]
        lo = ctx.lower()
        if lo.strip() == "global":
            e["levels"].add("global")
        if "colvar bias" in lo or any(x in biases or x in ("grid", "alb") for x in names):
            e["levels"].add("bias")
        if "atom group" in lo:
            e["levels"].add("group")
        if "colvar" in names:
            e["levels"].add("colvar")
        if "component" in lo or any(x in comps or x == "neuralnetwork" for x in names):
            e["levels"].add("component")
        if m.group(1) in ("key", "keydef"):
            ty = re.sub(r"\s+", " ", a[3]).strip()
            e["types"].append(ty)
    for k, e in doc.items():
        tys = [x.lower() for x in e["types"]]
        if tys and all(("boolean" in x) or ("``yes'' or ``no''" in x) for x in tys):
            e["bool"] = True
        if tys and all(re.search(r"decimal|integer|triplet|quadruplet|colvar values|real numbers|atom numbers", x)
                       and not re.search(r"string|file|``inf''|optional", x) for x in tys):
            e["numeric"] = True
        # a keyword documented in one place only as a duplicate inherits nothing: leave flags false
    return doc


# ---------------------------------------------------------------------------------------------------------------
# configuration tree: parse / render
# ---------------------------------------------------------------------------------------------------------------

class Unsupported(Exception):
    pass


class Node:
    __slots__ = ("key", "kind", "atoms", "children", "multiline")

    def __init__(self, key, kind, atoms=None, children=None, multiline=False):
        self.key = key            # as written
        self.kind = kind          # bare | scalar | list | block
        self.atoms = atoms or []  # scalar/list: list of atoms; an atom is a list of tokens (balanced parentheses)
        self.children = children or []
        self.multiline = multiline

    def clone(self):
        return Node(self.key, self.kind, [list(a) for a in self.atoms], [c.clone() for c in self.children],
                    self.multiline)


def strip_comments(text):
    out = []
    for l in text.replace("\r\n", "\n").split("\n"):
        i = l.find("#")
        out.append(l if i < 0 else l[:i])
    return "\n".join(out)


def atomize(s):
    atoms, cur, depth = [], [], 0
    for tok in s.split():
        cur.append(tok)
        depth += tok.count("(") - tok.count(")")
        if depth <= 0:
            atoms.append(cur)
            cur, depth = [], 0
    if cur:
        atoms.append(cur)
    return atoms


def _match_brace(s, i):
    d = 0
    for j in range(i, len(s)):
        if s[j] == "{":
            d += 1
        elif s[j] == "}":
            d -= 1
            if d == 0:
                return j
    return -1


def looks_numeric(tok):
    return bool(re.match(r"^[-+(.]?[\d.(]", tok))


def parse_items(text, KW):
    """text: configuration without comments.  Raises Unsupported for layouts this model does not represent"""
    lines = text.split("\n")
    i, nodes = 0, []
    while i < len(lines):
        l = lines[i].strip(" \t\r")
        if not l:
            i += 1
            continue
        m = re.match(r"([^\s{}]+)(.*)$", l, re.S)
        if not m:
            raise Unsupported("line starts with a brace")
        key, rest = m.group(1), m.group(2)
        if rest and rest[0] not in " \t":
            raise Unsupported("brace attached to keyword")
        rest = rest.strip(" \t")
        if "{" in rest:
            if not rest.startswith("{"):
                raise Unsupported("text between keyword and brace")
            buf = rest
            while buf.count("{") > buf.count("}"):
                i += 1
                if i >= len(lines):
                    raise Unsupported("unbalanced")
                buf += "\n" + lines[i]
            j = _match_brace(buf, 0)
            if j < 0 or buf[j + 1:].strip():
                raise Unsupported("text after closing brace")
            inner = buf[1:j]
            toks = inner.split()
            if not toks:
                raise Unsupported("empty braces")
            if toks[0].lower() in KW and not looks_numeric(toks[0]):
                nodes.append(Node(key, "block", children=parse_items(inner, KW), multiline=("\n" in inner)))
            else:
                if "{" in inner or "}" in inner:
                    raise Unsupported("braces inside a list")
                nodes.append(Node(key, "list", atoms=atomize(inner), multiline=("\n" in inner)))
        elif "}" in rest:
            raise Unsupported("stray closing brace")
        elif rest:
            nodes.append(Node(key, "scalar", atoms=atomize(rest)))
        else:
            nodes.append(Node(key, "bare"))
        i += 1
    return nodes


ASPECTS = ["kw_case", "indent", "sep_ws", "inner_ws", "trailing_ws", "blank_lines", "comment_line",
           "comment_trailing", "crlf", "list_split", "block_layout", "bool_word", "bool_bare"]

COMMENTS = [" a comment", "colvar { name ghost }", " }", " { unbalanced", " forceConstant 1e9 # again", "",
            "\tatomNumbers 1 2 3", " indexFile nowhere.ndx", " } } }"]


class Style:
    """rng None: canonical layout.  Otherwise the aspects in `on` are randomised; `used` collects the rewrite kinds
    that actually changed something"""

    def __init__(self, rng=None, on=(), docinfo=None):
        self.rng = rng
        self.on = set(on) if rng else set()
        self.used = set()
        self.doc = docinfo or {}

    def has(self, a):
        return a in self.on

    def ws(self, lo, hi):
        return "".join(self.rng.choice(" \t") for _ in range(self.rng.randint(lo, hi)))

    def indent(self, depth):
        if self.has("indent"):
            self.used.add("indent")
            return self.ws(0, 9)
        return "  " * depth

    def sep(self):
        if self.has("sep_ws"):
            self.used.add("sep_ws")
            return self.ws(1, 4)
        return " "

    def inner(self):
        if self.has("inner_ws"):
            self.used.add("inner_ws")
            return self.ws(1, 3)
        return " "

    def case(self, key):
        if not self.has("kw_case"):
            return key
        r = self.rng.random()
        if r < 0.3:
            k = key.lower()
        elif r < 0.6:
            k = key.upper()
        elif r < 0.8:
            k = key.swapcase()
        else:
            k = "".join(ch.upper() if self.rng.random() < 0.5 else ch.lower() for ch in key)
        if k != key:
            self.used.add("kw_case")
        return k

    def is_bool_key(self, key):
        e = self.doc.get(key.lower())
        return bool(e and e["bool"])


def render_value(atoms, st):
    return st.inner().join(st.inner().join(a) if len(a) > 1 else a[0] for a in atoms) if st.rng else \
        " ".join(" ".join(a) for a in atoms)


def render_node(n, st, depth):
    ind = st.indent(depth)
    key = st.case(n.key)
    if n.kind == "bare":
        if st.has("bool_bare") and st.is_bool_key(n.key) and st.rng.random() < 0.6:
            st.used.add("bool_explicit_for_bare")
            return [ind + key + st.sep() + st.rng.choice(TRUE_WORDS)]
        return [ind + key]
    if n.kind == "scalar":
        if len(n.atoms) == 1 and len(n.atoms[0]) == 1 and st.rng and st.is_bool_key(n.key):
            v = n.atoms[0][0]
            if v in TRUE_WORDS and st.has("bool_bare") and st.rng.random() < 0.5:
                st.used.add("bool_bare_for_true")
                return [ind + key]
            if st.has("bool_word") and (v in TRUE_WORDS or v in FALSE_WORDS):
                nv = st.rng.choice(TRUE_WORDS if v in TRUE_WORDS else FALSE_WORDS)
                if nv != v:
                    st.used.add("bool_synonym")
                return [ind + key + st.sep() + nv]
        return [ind + key + st.sep() + render_value(n.atoms, st)]
    if n.kind == "list":
        pieces = [(st.inner().join(a) if st.rng else " ".join(a)) for a in n.atoms]
        if not st.has("list_split"):
            if n.multiline and st.rng:
                st.used.add("brace_value_joined")
            return [ind + key + st.sep() + "{" + (st.inner() if st.rng else " ") +
                    (st.inner() if st.rng else " ").join(pieces) + (st.inner() if st.rng else " ") + "}"]
        lines = [ind + key + st.sep() + "{"]
        nl = 0
        for p in pieces:
            if st.rng.random() < 0.35:
                lines.append(st.indent(depth + 1) + p)
                nl += 1
            else:
                lines[-1] += st.inner() + p
        if st.rng.random() < 0.5:
            lines.append(st.indent(depth) + "}")
            nl += 1
        else:
            lines[-1] += st.inner() + "}"
        if nl:
            st.used.add("brace_value_split")
        elif n.multiline:
            st.used.add("brace_value_joined")
        return lines
    # block
    kids = []
    for c in n.children:
        kids += render_node(c, st, depth + 1)
    form = "multi"
    if st.has("block_layout"):
        r = st.rng.random()
        if len(n.children) == 1 and len(kids) == 1 and r < 0.45:
            form = "oneline"
        elif r < 0.7:
            form = "close_last"
    if form == "oneline":
        if n.multiline:
            st.used.add("block_joined_on_one_line")
        return [ind + key + st.sep() + "{" + st.inner() + kids[0].strip(" \t") + st.inner() + "}"]
    if st.rng and not n.multiline:
        st.used.add("block_split_over_lines")
    if form == "close_last" and kids:
        st.used.add("closing_brace_on_last_value_line")
        kids[-1] += st.inner() + "}"
        return [ind + key + st.sep() + "{"] + kids
    return [ind + key + st.sep() + "{"] + kids + [st.indent(depth) + "}"]


def render(nodes, st=None):
    st = st or Style()
    lines = []
    for n in nodes:
        lines += render_node(n, st, 0)
    if not st.rng:
        return "\n".join(lines) + "\n"
    out = []
    rng = st.rng
    for l in lines:
        if st.has("blank_lines") and rng.random() < 0.3:
            st.used.add("blank_lines")
            for _ in range(rng.randint(1, 2)):
                out.append(st.ws(0, 4) if rng.random() < 0.5 else "")
        if st.has("comment_line") and rng.random() < 0.25:
            st.used.add("comment_line")
            out.append(st.ws(0, 6) + "#" + rng.choice(COMMENTS))
        if st.has("trailing_ws") and rng.random() < 0.5:
            st.used.add("trailing_ws")
            l += st.ws(1, 5)
        if st.has("comment_trailing") and rng.random() < 0.35:
            st.used.add("comment_trailing")
            l += (st.ws(0, 3)) + "#" + rng.choice(COMMENTS)
        out.append(l)
    if st.has("comment_line") and rng.random() < 0.5:
        out.append("# trailing comment line")
    if st.has("crlf"):
        st.used.add("crlf")
        if rng.random() < 0.7:
            return "\r\n".join(out) + "\r\n"
        return "".join(l + ("\r\n" if rng.random() < 0.5 else "\n") for l in out)
    return "\n".join(out) + "\n"


# ---------------------------------------------------------------------------------------------------------------
# systems and valid configurations
# ---------------------------------------------------------------------------------------------------------------

ELEM_MASS = {"H": 1.008, "C": 12.011, "N": 14.007, "O": 15.999, "S": 32.06}


def test_system():
    """the 104-atom, 5-frame trajectory of the pinned suite"""
    p = os.path.join(TESTS, "trajectory.xyz")
    toks = open(p).read().split("\n")
    n = int(toks[0].split()[0])
    frames, names = [], []
    i = 0
    while i + n + 2 <= len(toks) and toks[i].strip():
        fr = []
        for l in toks[i + 2:i + 2 + n]:
            w = l.split()
            if len(frames) == 0:
                names.append(w[0])
            fr.append([float(w[1]), float(w[2]), float(w[3])])
        frames.append(fr)
        i += n + 2
    sysm = {"natoms": n, "masses": [ELEM_MASS.get(x[0].upper(), 12.0) for x in names],
            "charges": [round(0.1 * ((k * 7) % 11 - 5), 3) for k in range(n)], "pos": frames[0], "cell": None}
    return sysm, frames[:5]


def scenario(sysm, frames, cfg, steps=True):
    s = corpus.scenario_header(sysm, tfmode="same")
    s += "temp 300\ndt 1\nmodule\nconfig <<EOC_C09\n" + cfg + ("" if cfg.endswith("\n") else "\n") + "EOC_C09\n"
    if steps:
        s += "init\n"
        for f in frames:
            s += corpus.pos_line(f) + "\nstep\n"
    return s


def accepted(ev):
    cfg = [e for e in ev if e.get("ev") == "config"]
    return bool(cfg) and cfg[0].get("rc") == 0 and cfg[0].get("err") == 0


def step_lines(out):
    return [l for l in out.splitlines() if l.startswith('{"ev":"step"')]


def bias_for(rng, cv, kind):
    n = cv["name"]
    vt = cv["vtype"]
    if vt == "scalar":
        c = fnum(round(rng.uniform(0.5, 4.0), 3))
    elif vt in ("vec3",):
        c = corpus.vec_str([round(rng.uniform(-2, 2), 3) for _ in range(3)])
    elif vt == "unit3":
        c = corpus.vec_str(corpus.random_unit(rng))
    elif vt == "quat":
        c = corpus.vec_str(corpus.random_quaternion(rng))
    else:
        c = corpus.vec_str([round(rng.uniform(0, 5), 3) for _ in range(cv["dim"])])
    k = fnum(round(rng.uniform(0.5, 10.0), 3))
    if kind == "harmonic":
        return "harmonic {\n  colvars %s\n  centers %s\n  forceConstant %s\n  outputEnergy on\n}\n" % (n, c, k)
    if kind == "harmonic_moving":
        return ("harmonic {\n  name hm\n  colvars %s\n  centers %s\n  targetCenters %s\n  targetNumSteps 10\n"
                "  forceConstant %s\n}\n" % (n, c, c, k))
    if kind == "walls":
        return ("harmonicWalls {\n  colvars %s\n  lowerWalls %s\n  upperWalls %s\n  forceConstant %s\n}\n"
                % (n, fnum(1.0), fnum(2.0), k))
    if kind == "linear":
        return "linear {\n  colvars %s\n  centers %s\n  forceConstant %s\n}\n" % (n, c, k)
    if kind == "meta":
        return ("metadynamics {\n  colvars %s\n  hillWeight 0.5\n  newHillFrequency 2\n  hillWidth 1.5\n"
                "  useGrids off\n}\n" % n)
    if kind == "meta_grid":
        return ("metadynamics {\n  colvars %s\n  hillWeight 0.5\n  newHillFrequency 2\n  hillWidth 1.5\n"
                "  useGrids on\n  keepHills yes\n}\n" % n)
    if kind == "abf":
        return "abf {\n  colvars %s\n  fullSamples 2\n  hideJacobian\n}\n" % n
    if kind == "histogram":
        return "histogram {\n  colvars %s\n}\n" % n
    if kind == "abmd":
        return "abmd {\n  colvars %s\n  forceConstant %s\n  stoppingValue 100.0\n}\n" % (n, k)
    raise ValueError(kind)


SCALAR_BIASES = ["harmonic", "harmonic_moving", "walls", "linear", "meta", "meta_grid", "abf", "histogram", "abmd"]


def gen_config(rng, ctype):
    sysm = corpus.make_system(rng, natoms=26)
    pool = list(range(1, 27))
    opts = {}
    if ctype in corpus.FIT_CAPABLE and rng.random() < 0.4:
        opts["fit"] = rng.choice(["center", "rotate", "fitgroup"])
        if ctype == "rmsd":
            opts["fit"] = "fitgroup"
    extra = ["width %s" % fnum(rng.choice([0.5, 1.0, 2.0])), "lowerBoundary -40.0", "upperBoundary 60.0",
             "outputAppliedForce on"]
    if rng.random() < 0.3:
        extra.append("outputValue off")
    state = rng.getstate()
    cv = corpus.make_colvar(rng, sysm, list(pool), "cv1", ctype, opts, extra)
    if cv["vtype"] != "scalar":
        # boundaries and widths only exist for scalar variables
        rng.setstate(state)
        cv = corpus.make_colvar(rng, sysm, list(pool), "cv1", ctype, opts, ["outputAppliedForce on"])
    kinds = SCALAR_BIASES if cv["vtype"] == "scalar" else ["harmonic", "linear"] if cv["vtype"] in ("vec3", "vector") \
        else ["harmonic"]
    kind = rng.choice(kinds)
    if kind == "abf" and not cv.get("tf"):
        kind = "harmonic"
    text = "colvarsTrajFrequency 0\ncolvarsRestartFrequency 0\n" + cv["text"] + "\n" + bias_for(rng, cv, kind)
    frames = [sysm["pos"]] + [[[x + rng.uniform(-0.2, 0.2) for x in p] for p in sysm["pos"]] for _ in range(4)]
    return dict(name="gen:%s:%s" % (ctype, kind), sysm=sysm, frames=frames, text=text, aux=False)


def lower_keys(nodes):
    for nd in nodes:
        nd.key = nd.key.lower()
        lower_keys(nd.children)


def braceify(nodes):
    """turn multi-valued numeric scalars into brace-delimited lists (the valid 'original' of list rewrites)"""
    n = 0
    for nd in nodes:
        if nd.kind == "scalar" and len(nd.atoms) >= 2 and all(looks_numeric(a[0]) for a in nd.atoms):
            nd.kind = "list"
            n += 1
        elif nd.kind == "block":
            n += braceify(nd.children)
    return n


# ---------------------------------------------------------------------------------------------------------------
# strictness: mutations
# ---------------------------------------------------------------------------------------------------------------

def walk(nodes, level="global", path=(), parent=None, COMPS=None, BIASES=None):
    """yield (node, path, level of the block the node sits in, parent block key)"""
    for i, n in enumerate(nodes):
        yield n, path + (i,), level, parent
        if n.kind == "block":
            k = n.key.lower()
            if level == "global":
                sub = "colvar" if k == "colvar" else "bias" if k in BIASES else "unknown"
            elif level == "colvar":
                sub = "component"
            elif level == "component":
                sub = "component" if k in COMPS else "group"
            elif level == "group":
                sub = "group"
            elif level == "bias":
                sub = "bias"
            else:
                sub = "unknown"
            for x in walk(n.children, sub, path + (i,), n.key, COMPS, BIASES):
                yield x


def node_at(nodes, path):
    n = None
    cur = nodes
    for i in path:
        n = cur[i]
        cur = n.children
    return n


def misspell(rng, key, KW):
    letters = "abcdefghijklmnopqrstuvwxyz"
    for _ in range(50):
        k = list(key)
        for _e in range(rng.randint(1, 2)):
            op = rng.choice(["sub", "del", "ins", "swap"])
            if op == "sub" and k:
                i = rng.randrange(len(k))
                k[i] = rng.choice(letters)
            elif op == "del" and len(k) > 2:
                del k[rng.randrange(len(k))]
            elif op == "ins":
                k.insert(rng.randint(0, len(k)), rng.choice(letters))
            elif op == "swap" and len(k) > 1:
                i = rng.randrange(len(k) - 1)
                k[i], k[i + 1] = k[i + 1], k[i]
        s = "".join(k)
        if s.lower() != key.lower() and s.lower() not in KW and re.match(r"^[A-Za-z_][A-Za-z0-9_]*$", s):
            return s
    return None


def value_text(n):
    return " ".join(" ".join(a) for a in n.atoms)


def make_mutations(rng, cfg, H, per_class):
    """returns list of dict(cls, site, what, text, key) for one valid configuration (cfg['tree'] canonical)"""
    KW, LEV, COMPS, BIASES, DOCI = H["kw"], H["lev"], H["comps"], H["biases"], H["doc"]
    tree = cfg["tree"]
    sites = list(walk(tree, COMPS=COMPS, BIASES=BIASES))
    out = []

    def blocktype(level, parent):
        return "%s(%s)" % (level, parent) if parent and level in ("group", "bias", "component") else level

    # 1. misspelled keyword
    for n, path, level, parent in rng.sample(sites, min(per_class, len(sites))):
        t = [x.clone() for x in tree]
        new = misspell(rng, n.key, KW)
        if not new:
            continue
        node_at(t, path).key = new
        out.append(dict(cls="misspelled_keyword", site="/".join(map(str, path)), text=render(t),
                        what="%s -> %s in %s block" % (n.key, new, blocktype(level, parent)),
                        key="misspelled_keyword:%s:%s" % (level, KW.get(n.key.lower(), n.key))))

    # 2. keyword copied / moved into a block where it is neither documented nor looked up
    blocks = [("global", (), None)] + [(lv2, p, n.key) for n, p, lv, par in sites if n.kind == "block"
                                       for lv2 in [sub_level(lv, n.key, COMPS, BIASES)]]
    cands = []
    for n, path, level, parent in sites:
        if n.kind == "block":
            continue
        e = DOCI.get(n.key.lower())
        if not e or not e["levels"]:
            continue
        for lv2, p2, bkey in blocks:
            if lv2 in ("unknown", level) or lv2 in e["levels"] or lv2 in LEV.get(n.key.lower(), ()):
                continue
            if p2 == path[:-1]:
                continue
            cands.append((n, path, level, lv2, p2, bkey))
    for n, path, level, lv2, p2, bkey in rng.sample(cands, min(per_class, len(cands))):
        t = [x.clone() for x in tree]
        moved = rng.random() < 0.3
        cp = node_at(t, path).clone()
        if p2 == ():
            t.append(cp)
        else:
            node_at(t, p2).children.append(cp)
        if moved:
            # remove the original (after the insertion: indices of the source path are not shifted by an append)
            par = t if len(path) == 1 else node_at(t, path[:-1]).children
            del par[path[-1]]
        out.append(dict(cls="misplaced_keyword", site="/".join(map(str, path)) + ">" + "/".join(map(str, p2)),
                        text=render(t), what="%s (%s level) %s into %s block %s" %
                        (n.key, level, "moved" if moved else "copied", lv2, bkey or "(top level)"),
                        key="misplaced_keyword:%s_in_%s:%s" % (level, lv2, KW.get(n.key.lower(), n.key))))

    # 3. one brace deleted / added (canonical text has no comments: every brace counts)
    base = cfg["canon"]
    bpos = [i for i, ch in enumerate(base) if ch in "{}"]
    for _ in range(per_class):
        if rng.random() < 0.5 and bpos:
            i = rng.choice(bpos)
            out.append(dict(cls="unmatched_brace", site="del@%d" % i, text=base[:i] + base[i + 1:],
                            what="deleted '%s' at offset %d" % (base[i], i),
                            key="unmatched_brace:deleted_%s" % ("open" if base[i] == "{" else "close")))
        else:
            ends = [m.end() for m in re.finditer(r"[^\n]\n", base)]
            i = rng.choice(ends) - 1
            ch = rng.choice("{}")
            out.append(dict(cls="unmatched_brace", site="add@%d" % i, text=base[:i] + " " + ch + base[i:],
                            what="added '%s' at the end of the line ending at offset %d" % (ch, i),
                            key="unmatched_brace:added_%s" % ("open" if ch == "{" else "close")))

    # 4. value of a non-boolean keyword deleted
    def nonbool(n):
        e = DOCI.get(n.key.lower())
        if e and e["bool"]:
            return False
        if n.kind == "block":
            # a block is a required value where the code or the manual says what it must hold: variables, biases,
            # components, documented sub-blocks (atom groups); an undocumented optional block (e.g. `grid`) is not judged
            k = n.key.lower()
            return k == "colvar" or k in COMPS or k in BIASES or bool(e and e["types"])
        v = value_text(n)
        if v in TRUE_WORDS or v in FALSE_WORDS:
            return False
        if e and e["types"] and not e["bool"]:
            return True
        return all(looks_numeric(a[0]) for a in n.atoms)     # undocumented keyword: only if the value is numeric
    cands = [(n, p, lv, par) for n, p, lv, par in sites if n.kind != "bare" and nonbool(n)]
    for n, path, level, parent in rng.sample(cands, min(per_class, len(cands))):
        t = [x.clone() for x in tree]
        m = node_at(t, path)
        m.kind, m.atoms, m.children = "bare", [], []
        out.append(dict(cls="missing_value", site="/".join(map(str, path)), text=render(t),
                        what="value of %s (%s) deleted in %s block" % (n.key, n.kind, blocktype(level, parent)),
                        key="missing_value:%s:%s" % (level, KW.get(n.key.lower(), n.key))))

    # 5. numeric value replaced by an alphabetic token; 6. trailing text after a complete number (probe)
    cands = []
    for n, path, level, parent in sites:
        if n.kind not in ("scalar", "list"):
            continue
        e = DOCI.get(n.key.lower())
        if not (e and e["numeric"]):
            continue
        v = value_text(n)
        ms = list(NUM_RE.finditer(v))
        if ms:
            cands.append((n, path, level, parent, v, ms))
    for n, path, level, parent, v, ms in rng.sample(cands, min(per_class, len(cands))):
        t = [x.clone() for x in tree]
        j = rng.randrange(len(ms))
        tok = rng.choice(ALPHA_TOKENS)
        nv = v[:ms[j].start()] + tok + v[ms[j].end():]
        node_at(t, path).atoms = atomize(nv)
        natoms = len(n.atoms)
        intuple = "(" in v
        shape = ("tuple_component" if intuple else "scalar" if natoms == 1 else
                 "list_first" if j == 0 else "list_later")
        out.append(dict(cls="text_for_number", site="/".join(map(str, path)) + "#%d" % j, text=render(t),
                        what="%s %s -> %s" % (n.key, v[:60], nv[:60]),
                        key="text_for_number:%s:%s" % (shape, KW.get(n.key.lower(), n.key))))
    # 5b. a number immediately followed by other characters (no blank in between): the token is not a number
    for n, path, level, parent, v, ms in rng.sample(cands, min(per_class, len(cands))):
        t = [x.clone() for x in tree]
        j = rng.randrange(len(ms))
        suf = rng.choice(["x", "d0", ".5.", "e", "_A", "q"])
        nv = v[:ms[j].end()] + suf + v[ms[j].end():]
        if NUM_RE.fullmatch(v[ms[j].start():ms[j].end()] + suf):
            continue
        node_at(t, path).atoms = atomize(nv)
        natoms = len(n.atoms)
        intuple = "(" in v
        shape = ("tuple_component" if intuple else "scalar" if natoms == 1 else
                 "list_first" if j == 0 else "list_later")
        out.append(dict(cls="text_for_number", site="/".join(map(str, path)) + "#%dg" % j, text=render(t),
                        what="%s %s -> %s" % (n.key, v[:60], nv[:60]),
                        key="text_glued_to_number:%s:%s" % (shape, KW.get(n.key.lower(), n.key))))
    scal = [c for c in cands if len(c[0].atoms) == 1 and len(c[0].atoms[0]) == 1]
    for n, path, level, parent, v, ms in rng.sample(scal, min(1, len(scal))):
        t = [x.clone() for x in tree]
        node_at(t, path).atoms = atomize(v + " " + rng.choice(ALPHA_TOKENS))
        out.append(dict(cls="trailing_text_after_number", site="/".join(map(str, path)), text=render(t),
                        what="%s %s -> %s <text>" % (n.key, v, v), key="trailing_text_after_number:%s" % KW.get(n.key.lower(), n.key)))
    return out


def sub_level(level, key, COMPS, BIASES):
    k = key.lower()
    if level == "global":
        return "colvar" if k == "colvar" else "bias" if k in BIASES else "unknown"
    if level == "colvar":
        return "component"
    if level == "component":
        return "component" if k in COMPS else "group"
    if level in ("group", "bias"):
        return level
    return "unknown"


# ---------------------------------------------------------------------------------------------------------------
# totality: fuzzing
# ---------------------------------------------------------------------------------------------------------------

def src_frame(err):
    """innermost frame of a sanitizer / libFuzzer stack dump that lies in the Colvars sources: func@file"""
    for line in err.splitlines():
        m = re.search(r"#\d+\s+\S+\s+in\s+(.+?)\s+(\S*/src/([A-Za-z0-9_.]+\.(?:cpp|h)))(?::\d+)*\s*$", line)
        if m and ("/repo/src/" in m.group(2) or m.group(2).startswith(os.path.join(REPO, "src"))):
            fn = m.group(1)
            fn = re.sub(r"\(.*$", "", fn)
            fn = re.sub(r"<.*$", "", fn)
            return "%s@%s" % (fn.split(" ")[-1][:70], m.group(3))
    return "?"


def crash_kind(err, timed_out=False):
    m = re.search(r"runtime error: (.*)", err)
    if m:
        t = m.group(1)
        for pat, name in [(r"null pointer", "null-pointer-use"), (r"signed integer overflow", "signed-integer-overflow"),
                          (r"division by zero", "division-by-zero"),
                          (r"outside the range of representable values", "float-cast-overflow"),
                          (r"out of bounds", "index-out-of-bounds"),
                          (r"not a valid value for type '(const )?bool'", "invalid-bool-load"),
                          (r"misaligned", "misaligned"), (r"shift", "invalid-shift"),
                          (r"not a valid value for type", "invalid-enum")]:
            if re.search(pat, t):
                return "ubsan-" + name
        return "ubsan-" + re.sub(r"[^a-z]+", "-", t.lower())[:40].strip("-")
    m = re.search(r"ERROR: AddressSanitizer: ([A-Za-z0-9_-]+)", err)
    if m:
        k = m.group(1)
        if k == "requested":
            k = "allocation-size-too-big"
        return "asan-" + k
    m = re.search(r"ERROR: libFuzzer: ([a-z-]+)", err)
    if m:
        k = m.group(1)
        if k == "deadly":
            ex = re.search(r"terminate called after throwing an instance of '([^']+)'", err)
            return "uncaught-" + ex.group(1) if ex else "abort"
        return "libfuzzer-" + k
    if timed_out:
        return "hang"
    return None


def fuzz_env():
    return {"FZ_CONFIG_AUX": TESTS}


def run_target(exe, path, cwd, budget=1):
    """re-run one input alone.  budget: 1 = the fuzzing time limit (10 s), 10 = ten times that"""
    r = common.run_proc([exe, "-timeout=%d" % (10 * budget), "-rss_limit_mb=3000", "-malloc_limit_mb=2000", path],
                        timeout=10 * budget + 30, env=fuzz_env(), cwd=cwd)
    return r


def triage(exe, path, cwd):
    base = os.path.basename(path)
    is_timeout = "timeout-" in base
    r = run_target(exe, path, cwd, budget=10 if is_timeout else 1)
    err = r["err"]
    kind = crash_kind(err, r["timeout"])
    if kind is None and (r["rc"] not in (0, None)):
        kind = "exit-%s" % r["rc"]
    if kind is None and r["sig"]:
        kind = "signal-%d" % r["sig"]
    phase = "parse" if "read_config_string" in err else "run" if re.search(r"engine_init|engine_step", err) else "?"
    return dict(path=path, kind=kind, frame=src_frame(err), phase=phase, err=err, hang=bool(r["timeout"]),
                was_timeout=is_timeout)


def minimise(exe, data, cwd, kind, frame, work, tag, max_runs=120):
    """greedy line-wise reduction that keeps (kind, frame)"""
    lines = data.split(b"\n")
    runs = 0

    def same(cand):
        nonlocal runs
        runs += 1
        p = os.path.join(work, "min_%s.in" % tag)
        with open(p, "wb") as f:
            f.write(b"\n".join(cand))
        r = run_target(exe, p, cwd)
        return crash_kind(r["err"], r["timeout"]) == kind and src_frame(r["err"]) == frame

    chunk = max(1, len(lines) // 2)
    while chunk >= 1 and runs < max_runs:
        i = 0
        changed = False
        while i < len(lines) and runs < max_runs:
            cand = lines[:i] + lines[i + chunk:]
            if cand and same(cand):
                lines = cand
                changed = True
            else:
                i += chunk
        if chunk == 1 and not changed:
            break
        chunk = chunk // 2 if chunk > 1 else (1 if changed else 0)
    return b"\n".join(lines)


def run_fuzz(c, tier, H, seeds):
    c.use_flavour("fuzz")
    root = os.path.join(c.work, "fz")
    d = {k: os.path.join(root, k) for k in ("seeds", "corpus", "art", "cwd", "logs")}
    for p in d.values():
        os.makedirs(p, exist_ok=True)
    # private copy of the target: a cache entry can be evicted by a concurrent build when /repo changes mid-run
    exe = os.path.join(root, "fz_config")
    shutil.copy(common.vbuild.tool("fuzz", "fz_config"), exe)
    for i, s in enumerate(seeds):
        with open(os.path.join(d["seeds"], "s%04d" % i), "wb") as f:
            f.write(s if isinstance(s, bytes) else s.encode("utf-8", "replace"))
    words = sorted(set(H["kw"].values())) + ["{", "}", " {\n", "\n}\n", "on", "off", "yes", "no", "true", "false",
                                              "(", ")", ", ", "0", "1", "-1", "0.5", "1e30", "2147483648", "index.ndx",
                                              "refpos.xyz", "group1", "group2", "RMSD_atoms", "Protein", "\r\n", "#",
                                              "one", "cv1"] + AUX_FILES
    words = [w for w in words if "/dev" not in w]
    with open(os.path.join(root, "dict.txt"), "w") as f:
        for w in words:
            f.write('"%s"\n' % "".join(ch if (32 <= ord(ch) < 127 and ch not in '"\\') else "\\x%02x" % ord(ch)
                                       for ch in w))
    c.extra["dictionary_size"] = len(words)
    c.extra["dictionary_keywords_harvested"] = len(H["kw"])
    # work is bounded by executions (-runs per worker: 8 x 2000 quick, 16 x 25000 thorough; about 45 s / 15 min on an
    # idle 16-core machine); the time limit is only a cap for a loaded machine, sized so that the floor stays reachable
    workers = 8 if tier == "quick" else 16
    runs_per_worker = 2000 if tier == "quick" else 25000
    total = 150 if tier == "quick" else 1800
    max_launches = 20 if tier == "quick" else 60
    deadline = time.time() + total
    stats = []
    lock = threading.Lock()
    c.extra["fuzz_runs_requested"] = workers * runs_per_worker

    def worker(w):
        launches = 0
        done = 0
        while launches < max_launches and done < runs_per_worker:
            remain = int(deadline - time.time())
            if remain < 4:
                break
            launches += 1
            log = os.path.join(d["logs"], "w%d_%d.log" % (w, launches))
            cmd = [exe, d["corpus"], d["seeds"], "-runs=%d" % (runs_per_worker - done), "-max_total_time=%d" % remain,
                   "-timeout=10", "-rss_limit_mb=3000",
                   "-malloc_limit_mb=2000", "-print_final_stats=1", "-dict=" + os.path.join(root, "dict.txt"),
                   "-artifact_prefix=" + os.path.join(d["art"], "w%d_" % w),
                   "-seed=%d" % (c.seed * 100003 + w * 1009 + launches)]
            env = dict(os.environ)
            env.update(common.SAN_ENV)
            env.update(fuzz_env())
            with open(log, "wb") as lf:
                try:
                    p = subprocess.run(cmd, stdout=lf, stderr=subprocess.STDOUT, stdin=subprocess.DEVNULL,
                                       cwd=d["cwd"], env=env, timeout=remain + 90)
                    rc = p.returncode
                except subprocess.TimeoutExpired:
                    rc = "watchdog"
            txt = open(log, errors="replace").read()
            m = re.search(r"stat::number_of_executed_units:\s*(\d+)", txt)
            ex = int(m.group(1)) if m else 0
            if not m:
                ms = re.findall(r"^#(\d+)\s", txt, re.M)
                ex = int(ms[-1]) if ms else 0
            cf = re.findall(r"cov: (\d+) ft: (\d+)", txt)
            done += max(ex, 1)
            with lock:
                stats.append(dict(worker=w, launch=launches, rc=rc, execs=ex,
                                  cov=int(cf[-1][0]) if cf else 0, ft=int(cf[-1][1]) if cf else 0))

    th = [threading.Thread(target=worker, args=(w,)) for w in range(workers)]
    for t in th:
        t.start()
    for t in th:
        t.join()
    execs = sum(s["execs"] for s in stats)
    c.count(execs)
    c.extra["fuzz_executions"] = execs
    c.extra["fuzz_launches"] = len(stats)
    c.extra["fuzz_launches_ended_by_crash"] = sum(1 for s in stats if s["rc"] not in (0,))
    c.extra["fuzz_cov_edges"] = max([s["cov"] for s in stats] + [0])
    c.extra["fuzz_features_ft"] = max([s["ft"] for s in stats] + [0])
    c.extra["fuzz_corpus_units"] = len(os.listdir(d["corpus"]))
    c.extra["fuzz_seed_inputs"] = len(seeds)
    if any(s["rc"] == "watchdog" for s in stats):
        c.inconc("a fuzzer process had to be stopped by the watchdog")
    left = os.listdir(d["cwd"])
    c.extra["fuzz_files_written_by_target"] = left[:10]

    # triage: one process per distinct artifact
    arts = {}
    for f in sorted(os.listdir(d["art"])):
        p = os.path.join(d["art"], f)
        h = hashlib.sha1(open(p, "rb").read()).hexdigest()
        arts.setdefault(h, p)
    c.extra["fuzz_artifacts"] = len(arts)
    tri = common.pmap(lambda p: triage(exe, p, d["cwd"]), list(arts.values())[:400], jobs=8)
    bykey = collections.OrderedDict()
    for t in tri:
        if t["kind"] is None:
            if t["was_timeout"]:
                c.bump("fuzz_slow_units_not_hangs")
            else:
                c.bump("fuzz_artifacts_not_reproduced")
                c.inconc("artifact %s did not reproduce when run alone" % os.path.basename(t["path"]))
            continue
        key = "%s:%s" % (t["kind"], t["frame"])
        bykey.setdefault((t["phase"], key), []).append(t)

    def reduce_one(item):
        (phase, key), ts = item
        t = min(ts, key=lambda x: os.path.getsize(x["path"]))
        data = open(t["path"], "rb").read()
        if t["hang"] or t["kind"].startswith("libfuzzer-") or t["kind"] == "hang":
            return t, data
        tag = hashlib.sha1(key.encode()).hexdigest()[:10]
        try:
            return t, minimise(exe, data, d["cwd"], t["kind"], t["frame"], root, tag)
        except Exception:
            return t, data

    reduced = common.pmap(reduce_one, list(bykey.items()), jobs=8)
    for ((phase, key), ts), (t, small) in zip(bykey.items(), reduced):
        mp = os.path.join(root, "minimised_" + hashlib.sha1(key.encode()).hexdigest()[:10] + ".in")
        with open(mp, "wb") as f:
            f.write(small)
        sp = os.path.join(root, "stack_" + hashlib.sha1(key.encode()).hexdigest()[:10] + ".txt")
        with open(sp, "w") as f:
            f.write(t["err"][-20000:])
        head = (common.sanitizer_report(t["err"]) or t["kind"])
        text = ("%s; innermost Colvars frame %s; phase=%s; %d artifact(s); minimised input (%d bytes): %r"
                % (head, t["frame"], phase, len(ts), len(small), small[:300].decode("latin1")))
        if phase == "run":
            # accepted by read_config_string(), crash in the first-call sequence or in a step: needs a syntactically
            # valid configuration, the statement of C09 is about supplying the configuration -> lead for C10
            keep = os.path.join(c.replays, "after_acceptance_" + re.sub(r"[^A-Za-z0-9_.@-]+", "_", key)[:100])
            shutil.rmtree(keep, ignore_errors=True)
            os.makedirs(keep, exist_ok=True)
            for p in (t["path"], mp, sp):
                shutil.copy(p, keep)
            c.note_set("crashes_after_acceptance_not_C09", {"key": "fuzz_after_acceptance:" + key, "files": keep,
                                                            "text": text[:500]})
            print("NOTE property=C09 crash after the configuration was accepted (C10 territory): %s files=%s"
                  % (key, keep))
            continue
        c.violation("fuzz:" + key, text, files=[t["path"], mp, sp],
                    payload={"artifacts": [os.path.basename(x["path"]) for x in ts][:20], "phase": phase})
    return execs


# ---------------------------------------------------------------------------------------------------------------
# main
# ---------------------------------------------------------------------------------------------------------------

def collect_configs(c, tier, H):
    """valid configurations: the pinned suite's inputs (104-atom trajectory, auxiliary files next to the scenario)
    and generated ones; each is parsed into a tree, rendered canonically, and kept only if original and canonical
    rendering are accepted and give identical results"""
    rng = c.rng
    cfgs = []
    tsys, tframes = test_system()
    names = sorted(x for x in os.listdir(TESTS) if os.path.exists(os.path.join(TESTS, x, "test.in")))
    if tier == "quick":
        names = rng.sample(names, min(len(names), 40))
    for nm in names:
        cfgs.append(dict(name="test:" + nm, sysm=tsys, frames=tframes,
                         text=open(os.path.join(TESTS, nm, "test.in")).read(), aux=True))
    reps = 1 if tier == "quick" else 6
    for _ in range(reps):
        for ct in corpus.COMPONENTS:
            cfgs.append(gen_config(rng, ct))
    out = []
    for i, cf in enumerate(cfgs):
        cf["idx"] = i
        try:
            cf["tree"] = parse_items(strip_comments(cf["text"]), H["kw"])
        except Unsupported as ex:
            c.bump("configs_layout_not_modelled")
            c.note_set("configs_not_modelled", "%s: %s" % (cf["name"], ex))
            continue
        out.append(cf)
        if cf["name"].startswith("gen:") and rng.random() < 0.6:
            t2 = [x.clone() for x in cf["tree"]]
            if braceify(t2):
                out.append(dict(cf, name=cf["name"] + ":braced", tree=t2, text=render(t2), idx=len(cfgs) + i))
        if rng.random() < 0.3:
            # the same model written with lower-case keywords throughout (a different style of the *original*)
            t3 = [x.clone() for x in cf["tree"]]
            lower_keys(t3)
            out.append(dict(cf, name=cf["name"] + ":lowercase", tree=t3, text=render(t3), idx=2 * len(cfgs) + i))
    for cf in out:
        cf["canon"] = render(cf["tree"])
    return out


def dedupe_violations(c):
    """one replay per violation key; the number of occurrences goes to the evidence"""
    seen = collections.OrderedDict()
    orig = c.violation

    def violation(key, text, files=None, payload=None):
        seen[key] = seen.get(key, 0) + 1
        c.extra["violation_occurrences"] = dict(seen)
        if seen[key] > 1:
            return True
        return orig(key, text, files=files, payload=payload)
    c.violation = violation


def do_replay(path):
    """re-run the witness stored in a replay directory; 1 if the violation reproduces, 0 if not, 2 if unusable"""
    try:
        meta = json.load(open(os.path.join(path, "violation.json")))
    except (OSError, ValueError):
        print("C09 replay: no violation.json in %s" % path)
        return 2
    key = meta["key"].split(":", 1)[1]
    wd = os.path.join(common.VERIF, "work", "C09_replay")
    shutil.rmtree(wd, ignore_errors=True)
    os.makedirs(wd)
    for f in AUX_FILES:
        if os.path.exists(os.path.join(TESTS, f)):
            shutil.copy(os.path.join(TESTS, f), wd)
    scns = sorted(f for f in os.listdir(path) if f.endswith(".scn"))
    rc = 2
    if key.startswith("fuzz:") and not scns:
        exe = common.vbuild.tool("fuzz", "fz_config")
        arts = [f for f in os.listdir(path) if not f.endswith((".json", ".txt")) and not f.startswith("minimised_")]
        cwd = os.path.join(wd, "cwd")
        os.makedirs(cwd)
        t = triage(exe, os.path.join(path, arts[0]), cwd)
        got = "fuzz:%s:%s" % (t["kind"], t["frame"])
        print("C09 replay: %s -> %s" % (arts[0], got))
        rc = 1 if got == key else 0
    elif key.startswith("layout:") and len(scns) == 2:
        outs = []
        for f in scns:
            r, ev, _ = common.run_esim("plain", open(os.path.join(path, f)).read(), wd, f[:-4])
            outs.append((accepted(ev), step_lines(r["out"])))
        print("C09 replay: accepted %s / %s, step events equal: %s" % (outs[0][0], outs[1][0], outs[0][1] == outs[1][1]))
        rc = 0 if (outs[0][0] and outs[1][0] and outs[0][1] == outs[1][1]) else 1
    elif scns:
        r, ev, _ = common.run_esim("asan", open(os.path.join(path, scns[0])).read(), wd, "replay")
        cfg = [e for e in ev if e.get("ev") == "config"]
        print("C09 replay: signal=%s config event=%s %s" % (r["sig"], json.dumps(cfg[0])[:300] if cfg else None,
                                                           common.sanitizer_report(r["err"]) or ""))
        rc = 1 if (r["sig"] or not cfg or accepted(ev)) else 0
    shutil.rmtree(wd, ignore_errors=True)
    return rc


def run(tier, replay):
    if replay:
        return do_replay(replay)
    c = common.Check("C09", tier)
    for e in os.listdir(c.replays):           # stale witnesses of an earlier run with the same seed and tier
        if e.startswith("s%d_%s_" % (c.seed, tier)):
            shutil.rmtree(os.path.join(c.replays, e), ignore_errors=True)
    dedupe_violations(c)
    c.rule = ("distinct = distinct (configuration, mutation class, site) of the strictness part + distinct rewrite kinds "
              "exercised by the layout part; evaluations = fuzz executions + mutation runs + rewrite pairs")
    c.assumptions = [
        "fuzz target is hermetic: auxiliary files are in-memory streams, no output prefix, output streams in memory",
        "a crash after read_config_string() has accepted the input (first-call sequence, steps) is reported as a "
        "lead for C10, not as a C09 violation",
        "misplaced keyword = a keyword placed in a block of a level (global/colvar/component/group/bias) where the "
        "manual does not document it and no source file of that level looks it up",
        "number required = the manual gives the keyword a numeric type; boolean = the manual says boolean",
        "trailing text after a complete number is probed and reported in the evidence, not judged",
        "layout rewrites never put two sibling {...} blocks on one line and never change the case of values"]
    for f in ("plain", "asan"):
        c.use_flavour(f)
        common.vbuild.ensure(f, tools=["esim"])
    kw, lev, comps, biases = harvest_keywords()
    H = dict(kw=kw, lev=lev, comps=comps, biases=biases, doc=harvest_manual(comps, biases))
    c.extra["keywords_harvested"] = len(kw)
    c.extra["keywords_documented_boolean"] = sum(1 for e in H["doc"].values() if e["bool"])
    c.extra["keywords_documented_numeric"] = sum(1 for e in H["doc"].values() if e["numeric"])

    wd = os.path.join(c.work, "esim")
    os.makedirs(wd, exist_ok=True)
    for f in AUX_FILES:
        if os.path.exists(os.path.join(TESTS, f)):
            shutil.copy(os.path.join(TESTS, f), wd)

    cfgs = collect_configs(c, tier, H)

    # ---- baseline: original and canonical rendering ------------------------------------------------------------
    def base(cf):
        r1, e1, s1 = common.run_esim("plain", scenario(cf["sysm"], cf["frames"], cf["text"]), wd, "b%d_o" % cf["idx"])
        r2, e2, s2 = common.run_esim("plain", scenario(cf["sysm"], cf["frames"], cf["canon"]), wd, "b%d_c" % cf["idx"])
        return r1, e1, s1, r2, e2, s2

    valid = []
    pairs = 0
    for cf, (r1, e1, s1, r2, e2, s2) in zip(cfgs, common.pmap(base, cfgs)):
        ok1 = r1["complete"] and accepted(e1) and all(e.get("err") == 0 for e in e1 if e.get("ev") in ("init", "step"))
        if not ok1:
            c.bump("configs_not_valid_in_esim")
            c.note_set("configs_rejected", cf["name"])
            if r1["sig"] or r1["timeout"]:
                c.inconc("baseline run of %s died (sig=%s timeout=%s)" % (cf["name"], r1["sig"], r1["timeout"]))
            continue
        cf["steps"] = step_lines(r1["out"])
        pairs += 1
        c.count()
        ok2 = r2["complete"] and accepted(e2)
        if not ok2 or step_lines(r2["out"]) != cf["steps"]:
            # the canonical rendering only removes comments and normalises white space and line distribution
            c.violation("layout:canonical_rendering:%s" % ("rejected" if not ok2 else "differs"),
                        "%s: canonical re-rendering (comments removed, white space normalised) %s"
                        % (cf["name"], "rejected: %s" % str([e for e in e2 if e.get("ev") == "config"])[:300]
                           if not ok2 else "gives different results"), files=[s1, s2])
            continue
        c.nontrivial("rewrite:canonical")
        valid.append(cf)
    c.extra["valid_configurations"] = len(valid)
    c.extra["valid_test_inputs"] = sum(1 for v in valid if v["name"].startswith("test:"))

    # ---- layout ----------------------------------------------------------------------------------------------
    nrew = (2 if tier == "quick" else 8) if "c" in PARTS else 0
    jobs = []
    for cf in valid:
        for k in range(nrew):
            rr = c.rng.__class__(c.rng.getrandbits(48))
            if k % 2 == 0:
                on = [a for a in ASPECTS if rr.random() < 0.5] or [rr.choice(ASPECTS)]
            else:
                on = [rr.choice(ASPECTS)]
            jobs.append((cf, k, on, rr.getrandbits(48)))

    def rew(job):
        cf, k, on, sd = job
        st = Style(c.rng.__class__(sd), on, H["doc"])
        text = render(cf["tree"], st)
        r, ev, sp = common.run_esim("plain", scenario(cf["sysm"], cf["frames"], text), wd, "r%d_%d" % (cf["idx"], k))
        return st, text, r, ev, sp

    kinds_used = set()
    for (cf, k, on, sd), (st, text, r, ev, sp) in zip(jobs, common.pmap(rew, jobs)):
        c.count()
        pairs += 1
        if r["timeout"] or (not r["complete"] and not r["sig"] and not ev):
            c.inconc("rewrite run failed to run: %s" % cf["name"])
            continue
        ok = r["complete"] and accepted(ev)
        same = ok and step_lines(r["out"]) == cf["steps"]
        if same:
            for u in st.used:
                kinds_used.add(u)
                c.nontrivial("rewrite:" + u)
            c.sample({"part": "layout", "configuration": cf["name"], "kinds": sorted(st.used),
                      "rewrite_head": text[:240]}, cap=3)
            continue
        # attribute the failure to a single aspect where possible
        culprit = None
        for a in sorted(on):
            st1 = Style(c.rng.__class__(sd), [a], H["doc"])
            t1 = render(cf["tree"], st1)
            r1, e1, _ = common.run_esim("plain", scenario(cf["sysm"], cf["frames"], t1), wd,
                                        "r%d_%d_%s" % (cf["idx"], k, a))
            if not (r1["complete"] and accepted(e1) and step_lines(r1["out"]) == cf["steps"]):
                culprit = "+".join(sorted(st1.used)) or a
                break
        what = "crashed" if r["sig"] else "rejected" if not ok else "differs"
        op = os.path.join(wd, "b%d_o.scn" % cf["idx"])
        cfgev = [e for e in ev if e.get("ev") == "config"]
        c.violation("layout:%s:%s" % (culprit or "combination(" + "+".join(sorted(st.used)) + ")", what),
                    "%s: rewrite using %s is %s%s" % (cf["name"], sorted(st.used), what,
                                                      (": " + str(cfgev[0].get("errs"))[:300]) if cfgev and not ok else ""),
                    files=[op, sp], payload={"rewrite": text, "original": cf["text"]})
    c.extra["rewrite_pairs"] = pairs
    c.extra["rewrite_kinds_exercised"] = sorted(kinds_used)

    # ---- strictness --------------------------------------------------------------------------------------------
    c.use_flavour("asan")
    per_class = (2 if tier == "quick" else 6) if "b" in PARTS else 0
    muts = []
    for cf in valid:
        rr = c.rng.__class__(c.rng.getrandbits(48))
        for j, m in enumerate(make_mutations(rr, cf, H, per_class)):
            m["cfg"] = cf
            m["j"] = j
            muts.append(m)

    def mrun(m):
        cf = m["cfg"]
        return common.run_esim("asan", scenario(cf["sysm"], cf["frames"], m["text"], steps=False), wd,
                               "m%d_%d" % (cf["idx"], m["j"]))

    nm = 0
    trailing = {"accepted": 0, "rejected": 0, "keywords_accepted": []}
    by_class = collections.Counter()
    for m, (r, ev, sp) in zip(muts, common.pmap(mrun, muts)):
        cf = m["cfg"]
        nm += 1
        c.count()
        by_class[m["cls"]] += 1
        cfgev = [e for e in ev if e.get("ev") == "config"]
        if r["timeout"]:
            c.violation("fuzz:hang:mutation", "%s: %s: esim did not terminate" % (cf["name"], m["what"]), files=[sp],
                        payload=m["text"])
            continue
        if r["sig"] or not cfgev:
            kind = crash_kind(r["err"]) or ("signal-%s" % r["sig"])
            c.violation("fuzz:%s:%s" % (kind, src_frame(r["err"])),
                        "crash instead of an error on a mutated configuration (%s, %s: %s): %s"
                        % (cf["name"], m["cls"], m["what"], (common.sanitizer_report(r["err"]) or r["err"][-300:])),
                        files=[sp], payload=m["text"])
            continue
        c.nontrivial("mut:%s:%s:%s" % (cf["name"], m["cls"], m["site"]))
        rejected = not accepted(ev)
        if m["cls"] == "trailing_text_after_number":
            trailing["rejected" if rejected else "accepted"] += 1
            if not rejected and m["key"].split(":")[1] not in trailing["keywords_accepted"]:
                trailing["keywords_accepted"].append(m["key"].split(":")[1])
            continue
        if rejected:
            c.sample({"part": "strictness", "configuration": cf["name"], "class": m["cls"], "mutation": m["what"],
                      "error": (cfgev[0].get("errs") or ["?"])[-1][:160]}, cap=6)
            continue
        c.violation(m["key"], "silently accepted: %s: %s" % (cf["name"], m["what"]), files=[sp],
                    payload={"mutated": m["text"], "original_canonical": cf["canon"]})
    # ---- strictness is not history dependent: the same verdicts after an earlier rejection in the same module ----------
    # (scripting interfaces clear the error state before every command: `clearerr`)
    nseq = (24 if tier == "quick" else 150) if "b" in PARTS else 0
    seqjobs = []
    inner = {}
    for m in muts:
        if m["cls"] == "misspelled_keyword" and not m["key"].startswith("misspelled_keyword:global") and m["cfg"]["idx"] not in inner:
            inner[m["cfg"]["idx"]] = m
    for cf in valid:
        if len(seqjobs) >= nseq:
            break
        m1 = inner.get(cf["idx"])
        if m1 is None:
            continue
        seqjobs.append((cf, m1))
    BAD_TOP = "\nnoSuchGlobalKeyword 12\n"

    def heredoc(tag, text):
        return "config <<%s\n%s%s%s\n" % (tag, text, "" if text.endswith("\n") else "\n", tag)

    def seqrun(job):
        cf, m1 = job
        hdr = corpus.scenario_header(cf["sysm"], tfmode="same") + "temp 300\ndt 1\nmodule\n"
        steps = "init\n" + "".join(corpus.pos_line(f) + "\nstep\n" for f in cf["frames"])
        valid_text = cf["canon"]
        out = {}
        # fresh controls
        out["fresh_bad"] = common.run_esim("asan", hdr + heredoc("EOC_A", valid_text + BAD_TOP), wd, "q%d_fb" % cf["idx"])
        out["fresh_ok"] = common.run_esim("asan", hdr + heredoc("EOC_A", valid_text) + steps, wd, "q%d_fo" % cf["idx"])
        # after a rejection: a misspelt top-level keyword at the end of an otherwise valid configuration
        out["seq_bad"] = common.run_esim("asan", hdr + heredoc("EOC_A", m1["text"]) + "clearerr\n" + heredoc("EOC_B", valid_text + BAD_TOP), wd, "q%d_sb" % cf["idx"])
        # after a rejection: the corrected configuration
        out["seq_ok"] = common.run_esim("asan", hdr + heredoc("EOC_A", m1["text"]) + "clearerr\n" + heredoc("EOC_B", valid_text) + steps, wd, "q%d_so" % cf["idx"])
        return out

    nseq_done = 0
    for (cf, m1), out in zip(seqjobs, common.pmap(seqrun, seqjobs)):
        c.count()
        files = [out[k][2] for k in ("seq_bad", "seq_ok", "fresh_bad", "fresh_ok")]
        died = [k for k in out if out[k][0]["sig"] or out[k][0]["timeout"] or not [e for e in out[k][1] if e.get("ev") == "end"]]
        if any(k.startswith("fresh") for k in died):
            c.inconc("sequence case %s: fresh control did not complete" % cf["name"])
            continue
        if died:
            r = out[died[0]][0]
            kind = crash_kind(r["err"], r["timeout"]) or ("signal-%s" % r["sig"])
            c.violation("sequence:%s:%s" % (kind, src_frame(r["err"])),
                        "%s: after the rejected configuration (%s) a further configuration takes the host down (%s): %s" % (
                            cf["name"], m1["what"], died[0], (common.sanitizer_report(r["err"]) or r["err"][-300:])), files=files,
                        payload={"rejected_first": m1["text"], "then": cf["canon"]})
            continue
        cfg_fb = [e for e in out["fresh_bad"][1] if e.get("ev") == "config"]
        cfg_sb = [e for e in out["seq_bad"][1] if e.get("ev") == "config"]
        cfg_so = [e for e in out["seq_ok"][1] if e.get("ev") == "config"]
        if len(cfg_sb) != 2 or len(cfg_so) != 2 or not cfg_fb:
            c.inconc("sequence case %s: configuration events missing" % cf["name"])
            continue

        def rej(e):
            return bool(e.get("rc")) or bool(e.get("err"))
        if not rej(cfg_sb[0]) or not rej(cfg_fb[0]):
            c.inconc("sequence case %s: the first configuration was not rejected, or the control accepted the unknown keyword" % cf["name"])
            continue
        nseq_done += 1
        c.nontrivial("sequence:%s" % cf["name"])
        if not rej(cfg_sb[1]):
            c.violation("sequence:unknown_keyword_accepted_after_rejection", "%s: a configuration ending with an unknown top-level keyword is rejected by a "
                        "fresh module (%s) but accepted after an earlier rejected configuration (%s)" % (
                            cf["name"], (cfg_fb[0].get("errs") or ["?"])[-1][:120].strip(), m1["what"]), files=files,
                        payload={"rejected_first": m1["text"], "then": cf["canon"] + BAD_TOP})
            continue
        # the corrected configuration: same verdict and same model as in a fresh module, if the rejection left no object behind
        if cfg_sb[0].get("ncv", 0) == 0 and cfg_sb[0].get("nbias", 0) == 0 and accepted(out["fresh_ok"][1]):
            if rej(cfg_so[1]):
                c.violation("sequence:valid_configuration_refused_after_rejection", "%s: accepted by a fresh module, refused after the rejected configuration (%s): %s" % (
                    cf["name"], m1["what"], (cfg_so[1].get("errs") or ["?"])[-1][:200]), files=files, payload={"rejected_first": m1["text"], "then": cf["canon"]})
                continue
            sa = [e for e in out["fresh_ok"][1] if e.get("ev") == "step"]
            sb = [e for e in out["seq_ok"][1] if e.get("ev") == "step"]
            if [(e.get("cv"), e.get("en"), e.get("af")) for e in sa] != [(e.get("cv"), e.get("en"), e.get("af")) for e in sb]:
                c.violation("sequence:model_differs_after_rejection", "%s: the corrected configuration gives another model after the rejected one (%s)" % (
                    cf["name"], m1["what"]), files=files, payload={"rejected_first": m1["text"], "then": cf["canon"]})
                continue
            c.bump("sequence_corrected_configurations_equal")
    c.extra["sequence_cases"] = nseq_done
    c.extra["mutation_runs"] = nm
    c.extra["mutation_runs_by_class"] = dict(by_class)
    c.extra["trailing_text_after_number"] = trailing

    # ---- totality --------------------------------------------------------------------------------------------
    seeds = []
    for nmx in sorted(os.listdir(TESTS)):
        p = os.path.join(TESTS, nmx, "test.in")
        if os.path.exists(p):
            seeds.append(open(p, "rb").read())
    for cf in cfgs:
        if cf["name"].startswith("gen:"):
            seeds.append(cf["text"])
    rr = c.rng.__class__(c.rng.getrandbits(48))
    for cf in valid[:40]:
        seeds.append(render(cf["tree"], Style(rr, [a for a in ASPECTS if rr.random() < 0.5], H["doc"])))
    execs = run_fuzz(c, tier, H, seeds) if "a" in PARTS else 0

    floor_fuzz = 10000 if tier == "quick" else 300000
    ok = execs >= floor_fuzz and nm >= 300 and pairs >= 60
    return c.finish(ok, "fuzz executions %d (floor %d), mutation runs %d (floor 300), rewrite pairs %d (floor 60)"
                    % (execs, floor_fuzz, nm, pairs))
