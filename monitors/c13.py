"""C13 - defining then deleting objects is the identity; dependencies stay consistent.

A *program* is a sequence over {add variable, add bias, delete bias, delete variable, cv reset, take a
step, rejected configuration}, executed at run time through `read_config_string` / the script interface
on the `asan` flavour.  After EVERY command the dependency graph is dumped (`deps`, guarded friend hook)
and the object lists are read back (`cv list`, `cv list biases`).

Oracles
  sanitizer   any ASan/UBSan report, signal or uncaught exception (a reference to a deleted object is a
              heap-use-after-free), keyed by report kind + innermost library frame
  graph       `viol` of every deps report empty; `refdiff` (ref_count vs enabled dependents recomputed from
              scratch): fewer references than dependents is a violation (the feature can be switched off
              under them); more references than dependents is a violation too (pinned for ever) unless it
              was left by a configuration the library REJECTED in the middle of the dependency resolution
              (colvardeps::enable() does not roll back; measured on the real tree: only colvar scalar/linear
              after a rejected ABF; nothing is switched off, so the property is not contradicted: counted).
              Error lines printed while the module is destroyed at the end of a scenario are violations too.
  objects     the object lists follow the documented semantics (deleting a variable deletes the biases
              that use it, deleting a bias deletes nothing else, reset deletes everything, a rejected
              configuration leaves nothing behind) and the number of atoms the engine is asked for equals
              the number of distinct atoms of the live variables (atoms of deleted objects released)
  control     program P against the control program P' in which the objects that do not survive were
              never created (same steps at the same places, same process structure): the common tail
              (one synchronisation step + N further steps) must agree bitwise in values, energies, bias
              forces, per-atom forces, active-atom count, and in the trajectory label/data lines
  fresh       the survivors' own `getconfig` texts are loaded in a FRESH process (same order, same
              absolute step): the configuration must be accepted; active-atom count and trajectory label
              line equal; values/energies/forces equal for everything that has no memory (restraints
              with fixed parameters on variables without extended Lagrangian) - biases with history are
              covered by the control-program oracle, where they are created at the same time in both.
"""
import json
import math
import os
import random
import re
import shutil
import threading

import common
import corpus
from common import fnum, fl

FLAV = "asan"
NATOMS = 24
NFRAMES = 8
NFURTHER = 4

# ---------------------------------------------------------------------------------------------------
# fixed synthetic system and frame list (the property quantifies over programs, not geometries)
# ---------------------------------------------------------------------------------------------------

_SYS = None


def system():
    global _SYS
    if _SYS is None:
        rng = random.Random(20261013)
        s = corpus.make_system(rng, natoms=NATOMS, box=6.0)
        frames = []
        for k in range(NFRAMES):
            pos = [[x + rng.uniform(-0.3, 0.3) for x in p] for p in s["pos"]]
            f = [[corpus.dyadic(rng, -4, 4, bits=6) for _ in range(3)] for _ in range(NATOMS)]
            frames.append((pos, f))
        s["frames"] = frames
        s["refrng"] = rng.random()
        _SYS = s
    return _SYS


def frame_lines(k):
    pos, f = system()["frames"][k % NFRAMES]
    return corpus.pos_line(pos) + "\n" + corpus.fext_line(f) + "\n"


# ---------------------------------------------------------------------------------------------------
# catalogue: variable templates (name fixed per template) and bias kinds
# ---------------------------------------------------------------------------------------------------

def _grp(key, atoms, extra=""):
    return "    %s {\n      atomNumbers %s\n%s    }\n" % (key, " ".join(str(a) for a in atoms), extra)


def _refpos(atoms, seed):
    rng = random.Random(seed)
    s = system()
    pts = corpus.perturbed(rng, [s["pos"][a - 1] for a in atoms], 0.4)
    return " ".join(corpus.vec_str(p) for p in pts)


def _var(name, body, lo, hi, width, extra=""):
    return ("colvar {\n  name %s\n  width %s\n  lowerBoundary %s\n  upperBoundary %s\n%s%s}\n"
            % (name, fnum(width), fnum(lo), fnum(hi), extra, body))


def build_catalogue():
    """name -> dict(text, atoms(set), scalar, periodic, tf (total force available), ext, tsf)"""
    V = {}
    # va: plain distance between centres of mass; total force available
    V["va"] = dict(text=_var("va", "  distance {\n" + _grp("group1", [1, 2, 3]) + _grp("group2", [4, 5]) + "  }\n", 0, 12, 0.5),
                   atoms=[1, 2, 3, 4, 5], tf=True)
    # vb: angle, shares atoms with va
    V["vb"] = dict(text=_var("vb", "  angle {\n" + _grp("group1", [4, 5]) + _grp("group2", [6]) + _grp("group3", [7, 8]) + "  }\n", 0, 180, 5.0),
                   atoms=[4, 5, 6, 7, 8], tf=True)
    # vc: dihedral (periodic)
    V["vc"] = dict(text=_var("vc", "  dihedral {\n" + _grp("group1", [9]) + _grp("group2", [10]) + _grp("group3", [11]) + _grp("group4", [12]) + "  }\n", -180, 180, 10.0),
                   atoms=[9, 10, 11, 12], tf=True, periodic=True)
    # vd: distance whose first group is fitted on a separate fitting group (fit gradients); shares atoms with va
    fit = ("      centerToReference on\n      rotateToReference on\n      fittingGroup {\n        atomNumbers 17 18 19 20 21\n      }\n"
           "      refPositions %s\n" % _refpos([17, 18, 19, 20, 21], 1))
    V["vd"] = dict(text=_var("vd", "  distance {\n" + _grp("group1", [13, 14, 15, 16], fit) + _grp("group2", [1, 2]) + "  }\n", 0, 12, 0.5),
                   atoms=[13, 14, 15, 16, 17, 18, 19, 20, 21, 1, 2], tf=True)
    # vk: fitted-group distance combined with a coordination number: has a fitting group, shares atoms with va, and
    # offers NO total force, so that an ABF bias on it is rejected in the middle of the dependency resolution
    V["vk"] = dict(text=_var("vk", "  distance {\n" + _grp("group1", [13, 14, 15, 16], fit) + _grp("group2", [1, 2]) + "  }\n"
                             "  coordNum {\n    componentCoeff 0.5\n" + _grp("group1", [2, 3]) + _grp("group2", [8, 9, 10]) + "    cutoff 4.0\n  }\n", 0, 14, 0.5),
                   atoms=[13, 14, 15, 16, 17, 18, 19, 20, 21, 1, 2, 3, 8, 9, 10], tf=False)
    # ve: extended Lagrangian (friction on, noise zeroed by the simulator: deterministic)
    ext = ("  extendedLagrangian on\n  extendedFluctuation 0.25\n  extendedTimeConstant 50\n  extendedLangevinDamping 1.0\n"
           "  outputEnergy on\n")
    V["ve"] = dict(text=_var("ve", "  distanceZ {\n" + _grp("main", [6, 7]) + _grp("ref", [12, 13]) + "    axis (0.3, -0.5, 1.0)\n  }\n", -8, 8, 0.5, ext),
                   atoms=[6, 7, 12, 13], tf=True, ext=True)
    # vf: total-force output, subtractAppliedForce, velocity and applied-force output
    out = "  outputTotalForce on\n  subtractAppliedForce on\n  outputAppliedForce on\n  outputVelocity on\n"
    V["vf"] = dict(text=_var("vf", "  distance {\n" + _grp("group1", [9, 10]) + _grp("group2", [14, 15]) + "  }\n", 0, 12, 0.5, out),
                   atoms=[9, 10, 14, 15], tf=True)
    # vg: multiple time stepping
    V["vg"] = dict(text=_var("vg", "  distance {\n" + _grp("group1", [16, 17]) + _grp("group2", [18]) + "  }\n", 0, 12, 0.5, "  timeStepFactor 2\n"),
                   atoms=[16, 17, 18], tf=True, tsf=2)
    # vh: orientation quaternion (non-scalar, optimal rotation)
    V["vh"] = dict(text="colvar {\n  name vh\n  orientation {\n" + _grp("atoms", [13, 14, 15, 16, 19, 20])
                   + "    refPositions %s\n  }\n}\n" % _refpos([13, 14, 15, 16, 19, 20], 2),
                   atoms=[13, 14, 15, 16, 19, 20], tf=False, scalar=False)
    # vi: polynomial combination of two components
    V["vi"] = dict(text=_var("vi", "  distance {\n    componentCoeff 1.5\n    componentExp 2\n" + _grp("group1", [1, 7]) + _grp("group2", [11, 22]) + "  }\n"
                             "  coordNum {\n    componentCoeff -0.5\n" + _grp("group1", [2, 3]) + _grp("group2", [8, 9, 10]) + "    cutoff 4.0\n  }\n", -10, 60, 1.0),
                   atoms=[1, 7, 11, 22, 2, 3, 8, 9, 10], tf=False)
    # vj: rmsd (self fit inside the component)
    V["vj"] = dict(text=_var("vj", "  rmsd {\n" + _grp("atoms", [19, 20, 21, 22]) + "    refPositions %s\n  }\n" % _refpos([19, 20, 21, 22], 3), 0, 6, 0.25),
                   atoms=[19, 20, 21, 22], tf=True)
    # vp: position along a path of three Cartesian frames (component holding one copy of its group per frame); the frame files are
    # whole-system XYZ files written next to the other scratch data (same content at every import)
    s_ = system()
    fdir = os.path.join(common.VERIF, "work", "c13_static")
    os.makedirs(fdir, exist_ok=True)
    rngp = random.Random(77)
    lines = ""
    for k in range(3):
        P = [[x + (k - 1) * 0.6 * math.sin(1.0 + a + d) + rngp.uniform(-0.05, 0.05) for d, x in enumerate(p)] for a, p in enumerate(s_["pos"])]
        txt = "%d\nframe %d\n" % (len(P), k + 1) + "".join("C %s %s %s\n" % tuple(fnum(x) for x in p) for p in P)
        fn = os.path.join(fdir, "vp_frame%d.xyz" % (k + 1))
        tmp = fn + ".%d.tmp" % os.getpid()
        with open(tmp, "w") as f:
            f.write(txt)
        os.replace(tmp, fn)
        lines += "    refPositionsFile%d %s\n" % (k + 1, fn)
    V["vp"] = dict(text=_var("vp", "  gspath {\n" + _grp("atoms", [3, 5, 8, 11, 23]) + lines + "  }\n", -1, 2, 0.05),
                   atoms=[3, 5, 8, 11, 23], tf=False)
    # vq: a named atom group used a second time in the same variable through atomsOfGroup (shares atoms 1, 2 with va / vd / vk):
    # the copies hold their own references to the engine's atoms
    V["vq"] = dict(text=_var("vq", "  distanceZ {\n    main {\n      name gq\n      atomNumbers 1 2 23\n    }\n" + _grp("ref", [24]) +
                             "    ref2 {\n      atomsOfGroup gq\n    }\n  }\n", -12, 12, 0.5),
                   atoms=[1, 2, 23, 24], tf=True)
    for n, v in V.items():
        v.setdefault("scalar", True)
        v.setdefault("periodic", False)
        v.setdefault("ext", False)
        v.setdefault("tsf", 1)
        v["atoms"] = sorted(set(v["atoms"]))
        v["name"] = n
    return V


VARS = build_catalogue()

# centre of a restraint for each variable (inside the range visited)
CENTER = {"vk": "5.0", "va": "3.0", "vb": "80.0", "vc": "20.0", "vd": "4.0", "ve": "0.5", "vf": "3.5", "vg": "2.5",
          "vh": "(1.0, 0.0, 0.0, 0.0)", "vi": "12.0", "vj": "1.5", "vp": "0.5", "vq": "2.0"}

# bias kinds: keyword, number of variables, memoryless?, needs (predicate on the variable dict), body
MEMORYLESS = ("harmonic", "walls", "linear")


def _ok_scalar(v):
    return v["scalar"]


BIAS_KINDS = {
    "harmonic": dict(kw="harmonic", nv=1, ok=lambda v: True),
    "hmove": dict(kw="harmonic", nv=1, ok=lambda v: v["scalar"] and not v["periodic"]),
    # restraint with its own timeStepFactor on a variable computed at every step: asleep at odd steps
    "hmts": dict(kw="harmonic", nv=1, ok=lambda v: v["scalar"] and v["tsf"] == 1),
    "walls": dict(kw="harmonicWalls", nv=1, ok=lambda v: v["scalar"] and not v["periodic"]),
    "linear": dict(kw="linear", nv=1, ok=lambda v: v["scalar"] and not v["periodic"]),
    "abf": dict(kw="abf", nv=1, ok=lambda v: v["scalar"] and v["tf"]),
    # two ABF biases that both ask their variable to hide the Jacobian force: deleting one must not switch it off for the other
    "abfhj": dict(kw="abf", nv=1, ok=lambda v: v["name"] in ("va", "vb")),
    "abfhk": dict(kw="abf", nv=1, ok=lambda v: v["name"] in ("va", "vb")),
    "meta": dict(kw="metadynamics", nv=1, ok=_ok_scalar),
    "metang": dict(kw="metadynamics", nv=1, ok=_ok_scalar),
    "meta2": dict(kw="metadynamics", nv=2, ok=_ok_scalar),
    "histo": dict(kw="histogram", nv=1, ok=_ok_scalar),
    "histo2": dict(kw="histogram", nv=2, ok=_ok_scalar),
    "abmd": dict(kw="abmd", nv=1, ok=lambda v: v["scalar"] and not v["periodic"]),
    "opes": dict(kw="opes_metad", nv=1, ok=_ok_scalar),
    "alb": dict(kw="ALB", nv=1, ok=lambda v: v["scalar"] and not v["periodic"]),
}


def bias_name(kind, vs):
    return "b%s_%s" % (kind, "".join(v[1:] for v in vs))


def bias_text(kind, vs):
    name = bias_name(kind, vs)
    kw = BIAS_KINDS[kind]["kw"]
    tsf = max(VARS[v]["tsf"] for v in vs)
    if kind == "hmts":
        tsf = 2
    head = "%s {\n  name %s\n  colvars %s\n" % (kw, name, " ".join(vs))
    if tsf > 1:
        head += "  timeStepFactor %d\n" % tsf
    v0 = vs[0]
    c = CENTER[v0]
    if kind == "harmonic":
        body = "  centers %s\n  forceConstant 2.5\n" % c
    elif kind == "hmts":
        body = "  centers %s\n  forceConstant 1.25\n" % c
    elif kind == "hmove":
        body = "  centers %s\n  targetCenters %s\n  targetNumSteps 24\n  forceConstant 1.5\n  outputCenters on\n" % (c, fnum(float(c) + 1.5))
    elif kind == "walls":
        body = "  lowerWalls %s\n  upperWalls %s\n  forceConstant 3.0\n" % (fnum(float(c) + 0.25), fnum(float(c) + 0.5))
    elif kind == "linear":
        body = "  centers %s\n  forceConstant 0.75\n" % c
    elif kind == "abf":
        body = "  fullSamples 2\n"
    elif kind in ("abfhj", "abfhk"):
        body = "  fullSamples 3\n  hideJacobian on\n"
    elif kind == "meta":
        body = "  hillWeight 0.25\n  newHillFrequency 2\n  hillWidth 2.0\n"
    elif kind == "metang":
        body = "  hillWeight 0.25\n  newHillFrequency 2\n  hillWidth 2.0\n  useGrids off\n"
    elif kind == "meta2":
        body = "  hillWeight 0.25\n  newHillFrequency 3\n  hillWidth 2.0\n"
    elif kind in ("histo", "histo2"):
        body = ""
    elif kind == "abmd":
        body = "  forceConstant 2.0\n  stoppingValue %s\n" % fnum(float(c) + 40.0)
    elif kind == "opes":
        body = "  newHillFrequency 2\n  barrier 5.0\n  gaussianSigma %s\n  fixedGaussianSigma on\n" % fnum(0.6 * float({"vb": 5, "vc": 10}.get(v0, 0.5)))
    elif kind == "alb":
        body = "  centers %s\n  updateFrequency 4\n  forceRange 2.0\n" % c
    else:
        raise ValueError(kind)
    return head + body + "}\n"


# rejected configurations -----------------------------------------------------------------------------
def reject_text(kind, state_vars, k):
    """returns (text, names it tries to define)"""
    if kind == "var_badkey":
        # complete variable (atoms requested, components built), then an unknown keyword
        return ("colvar {\n  name rj%d\n  notAKeyword 1\n  distance {\n" % k + _grp("group1", [1, 2, 23]) + _grp("group2", [4, 24]) + "  }\n}\n", ["rj%d" % k])
    if kind == "var_legacywall":
        # old-style wall keywords (for which the module prepares a harmonicWalls bias to be defined after the variable), then
        # a definition that fails: nothing of it may be left for a later configuration
        return ("colvar {\n  name rj%d\n  lowerBoundary 1.0\n  upperBoundary 9.0\n  lowerWall 2.0\n  upperWall 8.0\n  lowerWallConstant 2.0\n  upperWallConstant 3.0\n"
                "  notAKeyword 1\n  distance {\n" % k + _grp("group1", [1, 2, 23]) + _grp("group2", [4, 24]) + "  }\n}\n", ["rj%d" % k])
    if kind == "var_badvalue":
        return ("colvar {\n  name rj%d\n  width -1.0x\n  distance {\n" % k + _grp("group1", [5, 23]) + _grp("group2", [6]) + "  }\n}\n", ["rj%d" % k])
    if kind == "var_badcvc":
        # second component fails after the first one was built
        return ("colvar {\n  name rj%d\n  distance {\n" % k + _grp("group1", [3, 24]) + _grp("group2", [8]) + "  }\n  angle {\n" + _grp("group1", [1]) + _grp("group2", [2]) + "  }\n}\n", ["rj%d" % k])
    if kind == "var_badatom":
        return ("colvar {\n  name rj%d\n  distance {\n" % k + _grp("group1", [2, 23]) + _grp("group2", [4, 999]) + "  }\n}\n", ["rj%d" % k])
    v = state_vars[k % len(state_vars)] if state_vars else "nonexistent"
    if kind == "bias_badkey":
        return ("harmonic {\n  name rjb%d\n  colvars %s\n  centers %s\n  forceConstant 1.0\n  notAKeyword on\n}\n" % (k, v, CENTER.get(v, "1.0")), ["rjb%d" % k])
    if kind == "bias_badvalue":
        return ("metadynamics {\n  name rjb%d\n  colvars %s\n  hillWeight zero\n  hillWidth 2.0\n  newHillFrequency 2\n}\n" % (k, v), ["rjb%d" % k])
    if kind == "bias_nocv":
        return ("harmonic {\n  name rjb%d\n  colvars %s nonexistent\n  centers 1.0 1.0\n  forceConstant 1.0\n}\n" % (k, v), ["rjb%d" % k])
    if kind == "bias_two_faulty":
        # two faulty blocks of different types in ONE configuration: the first is refused for an unknown keyword, the
        # second (handled later by the parser, with the first error still pending) for a setting its init() refuses
        second = [("harmonicWalls {\n  name rjb%db\n  colvars %s\n  lowerWalls 5.0\n  upperWalls 1.0\n  forceConstant 2.0\n}\n" % (k, v)),
                  ("metadynamics {\n  name rjb%db\n  colvars %s\n  hillWidth 2.0\n  newHillFrequency 2\n}\n" % (k, v)),
                  ("linear {\n  name rjb%db\n  colvars %s\n  centers %s\n  forceConstant -2.0\n}\n" % (k, v, CENTER.get(v, "1.0")))][(k // max(1, len(state_vars))) % 3]
        return ("harmonic {\n  name rjb%da\n  colvars %s\n  centers %s\n  forceConstant 1.0\n  notAKeyword on\n}\n" % (k, v, CENTER.get(v, "1.0")) + second,
                ["rjb%da" % k, "rjb%db" % k])
    if kind == "bias_deps":
        # ABF on a variable without total forces: fails while dependencies are being resolved
        return ("abf {\n  name rjb%d\n  colvars %s\n  fullSamples 2\n}\n" % (k, v), ["rjb%d" % k])
    raise ValueError(kind)


REJ_VAR = ["var_badkey", "var_badvalue", "var_badcvc", "var_badatom", "var_legacywall"]
REJ_BIAS = ["bias_badkey", "bias_badvalue", "bias_nocv", "bias_deps", "bias_two_faulty"]
REJ_ATOMS = {"var_badkey": [1, 2, 23, 4, 24], "var_legacywall": [1, 2, 23, 4, 24], "var_badvalue": [5, 23, 6], "var_badcvc": [3, 24, 8, 1, 2], "var_badatom": [2, 23, 4]}


# ---------------------------------------------------------------------------------------------------
# programs.  A command is a tuple:
#   ("addvar", name) ("addbias", kind, (vars...)) ("delbias", name) ("delvar", name) ("reset",)
#   ("step",) ("reject", kind, k)
# ---------------------------------------------------------------------------------------------------

def bias_tsf(bname):
    vs = bias_vars(bname) or []
    t = max([VARS.get(v, {}).get("tsf", 1) for v in vs] + [1])
    return 2 if bname.startswith("bhmts_") else t


def bias_vars(bname):
    """variables a catalogue bias uses, from its name"""
    m = re.match(r"^b([a-z0-9]+)_([a-z]+)$", bname)
    if not m:
        return None
    return ["v" + ch for ch in m.group(2)]


class Model:
    """planned object set (what the generator believes); truth is always read back from the run"""

    def __init__(self):
        self.vars = []
        self.biases = []

    def copy(self):
        m = Model()
        m.vars = list(self.vars)
        m.biases = list(self.biases)
        return m

    def apply(self, cmd):
        op = cmd[0]
        if op == "addvar":
            self.vars.append(cmd[1])
        elif op == "addbias":
            self.biases.append(bias_name(cmd[1], cmd[2]))
        elif op == "delbias":
            self.biases.remove(cmd[1])
        elif op == "delvar":
            self.vars.remove(cmd[1])
            self.biases = [b for b in self.biases if cmd[1] not in bias_vars(b)]
        elif op == "reset":
            self.vars, self.biases = [], []


def cmd_str(cmd):
    op = cmd[0]
    if op == "addvar":
        return "+" + cmd[1]
    if op == "addbias":
        return "+" + bias_name(cmd[1], cmd[2])
    if op in ("delbias", "delvar"):
        return "-" + cmd[1]
    if op == "reset":
        return "R"
    if op == "step":
        return "S"
    return "X:" + cmd[1]


def prog_str(prog):
    return " ".join(cmd_str(c) for c in prog)


# reduced alphabet of the exhaustive enumeration: 2 variables x 3 bias kinds
EX_VARS = ["va", "vk"]
EX_BIAS = [("harmonic", ("va",)), ("harmonic", ("vk",)), ("abf", ("va",)), ("meta", ("va",)), ("meta", ("vk",)), ("hmts", ("va",))]


def ex_moves(m):
    out = []
    for v in EX_VARS:
        out.append(("delvar", v) if v in m.vars else ("addvar", v))
    for kind, vs in EX_BIAS:
        n = bias_name(kind, vs)
        if n in m.biases:
            out.append(("delbias", n))
        elif all(v in m.vars for v in vs):
            out.append(("addbias", kind, vs))
    if m.vars or m.biases:
        out.append(("reset",))
    out.append(("step",))
    # the rejected configuration of the reduced alphabet depends on the state only
    if "vk" in m.vars:
        out.append(("reject", "bias_deps", m.vars.index("vk")))     # ABF on a variable without total force
    elif "va" in m.vars:
        out.append(("reject", "bias_badvalue", 0))
    else:
        out.append(("reject", "var_badkey", 0))
    return out


def enumerate_programs(maxlen):
    res = []

    def rec(prog, m):
        if prog and prog[-1][0] != "step":
            res.append(list(prog))
        if len(prog) == maxlen:
            return
        for mv in ex_moves(m):
            m2 = m.copy()
            m2.apply(mv)
            prog.append(mv)
            rec(prog, m2)
            prog.pop()

    rec([], Model())
    return res


def random_program(rng, length):
    m = Model()
    prog = []
    nrej = 0
    vnames = sorted(VARS)
    while len(prog) < length:
        r = rng.random()
        cmd = None
        if r < 0.24 or not m.vars:
            free = [v for v in vnames if v not in m.vars]
            if free and (len(m.vars) < 6 or rng.random() < 0.3):
                cmd = ("addvar", rng.choice(free))
            elif rng.random() < 0.3 and m.vars:
                # name clash: a naturally rejected configuration
                cmd = ("reject", "var_dupname", vnames.index(rng.choice(m.vars)))
        elif r < 0.50:
            kind = rng.choice(sorted(BIAS_KINDS))
            bk = BIAS_KINDS[kind]
            cand = [v for v in m.vars if bk["ok"](VARS[v])]
            if bk["nv"] == 2:
                cand = [v for v in cand if VARS[v]["tsf"] == 1 and not VARS[v]["ext"]]
            if len(cand) >= bk["nv"]:
                vs = tuple(rng.sample(cand, bk["nv"]))
                if bias_name(kind, vs) not in m.biases:
                    cmd = ("addbias", kind, vs)
        elif r < 0.62:
            if m.biases:
                cmd = ("delbias", rng.choice(m.biases))
        elif r < 0.72:
            if m.vars:
                cmd = ("delvar", rng.choice(m.vars))
        elif r < 0.745:
            cmd = ("reset",)
        elif r < 0.93:
            cmd = ("step",)
        else:
            nrej += 1
            if m.vars and rng.random() < 0.6:
                kind = rng.choice(REJ_BIAS)
                if kind == "bias_deps":
                    cand = [i for i, v in enumerate(m.vars) if not VARS[v]["tf"] and VARS[v]["scalar"]]
                    if not cand:
                        kind = "bias_badkey"
                        k = nrej
                    else:
                        k = rng.choice(cand)
                elif kind == "bias_two_faulty":
                    cand = [i for i, v in enumerate(m.vars) if VARS[v]["scalar"]]
                    if not cand:
                        kind = "bias_badkey"
                        k = nrej
                    else:
                        # k selects both the variable (k % len) and the second block (k % 3)
                        i = rng.choice(cand)
                        k = i + len(m.vars) * rng.randrange(3)
                else:
                    k = rng.randrange(len(m.vars))
                cmd = ("reject", kind, k)
            else:
                cmd = ("reject", rng.choice(REJ_VAR), nrej)
        if cmd is None:
            continue
        prog.append(cmd)
        m.apply(cmd)
    while prog and prog[-1][0] == "step":
        prog.pop()
    return prog


# ---------------------------------------------------------------------------------------------------
# scenarios
# ---------------------------------------------------------------------------------------------------

def header(prefix, tfmode):
    s = system()
    h = corpus.scenario_header(s, tfmode=tfmode, extra="dt 1.0\ntemp 300.0\ngausszero on")
    h += "module\nprefix %s\nconfig <<EOC\ncolvarsTrajFrequency 1\nEOC\ninit\n" % prefix
    return h


PROBE = 'clearerr\nscript ["cv","list"]\nscript ["cv","list","biases"]\ndeps\n'


def cmd_lines(cmd, live_vars, stepno):
    """scenario text of one command; live_vars = planned live variables (for the rejected texts)"""
    op = cmd[0]
    if op == "addvar":
        return "config <<EOC\n" + VARS[cmd[1]]["text"] + "EOC\n"
    if op == "addbias":
        return "config <<EOC\n" + bias_text(cmd[1], cmd[2]) + "EOC\n"
    if op == "delbias":
        return 'script ["cv","bias","%s","delete"]\n' % cmd[1]
    if op == "delvar":
        return 'script ["cv","colvar","%s","delete"]\n' % cmd[1]
    if op == "reset":
        return 'script ["cv","reset"]\n'
    if op == "step":
        return frame_lines(stepno) + "step\n"
    if op == "reject":
        return "config <<EOC\n" + reject_cfg(cmd, live_vars)[0] + "EOC\n"
    raise ValueError(op)


def reject_cfg(cmd, live_vars):
    if cmd[1] == "var_dupname":
        n = sorted(VARS)[cmd[2]]
        # same name, different definition (atoms 23/24 are used by nothing else)
        return ("colvar {\n  name %s\n  distance {\n" % n + _grp("group1", [23]) + _grp("group2", [24]) + "  }\n}\n", [])
    return reject_text(cmd[1], live_vars, cmd[2])


def all_names(prog):
    vs, bs = set(), set()
    for c in prog:
        if c[0] == "addvar":
            vs.add(c[1])
        elif c[0] == "addbias":
            bs.add(bias_name(c[1], c[2]))
        elif c[0] == "reject" and c[1] != "var_dupname":
            (vs if c[1].startswith("var") else bs).add(("rj%d" if c[1].startswith("var") else "rjb%d") % c[2])
    return sorted(vs), sorted(bs)


def tail_lines(vnames, bnames, nsteps_done):
    s = "mark tail\nclearerr\n" + 'script ["cv","list"]\nscript ["cv","list","biases"]\n'
    for n in vnames:
        s += 'script ["cv","colvar","%s","getconfig"]\n' % n
    for n in bnames:
        s += 'script ["cv","bias","%s","getconfig"]\n' % n
        s += 'script ["cv","bias","%s","type"]\n' % n
    s += 'script ["cv","getatomids"]\ndeps\nmark sync\n'
    s += frame_lines(nsteps_done) + "step\ndeps\nmark further\n"
    for k in range(NFURTHER):
        s += frame_lines(nsteps_done + 1 + k) + "step\n"
    s += "deps\nmark done\n"
    return s


def scenario(prog, prefix, tfmode, names):
    """full scenario of a program; returns text"""
    s = header(prefix, tfmode)
    m = Model()
    nst = 0
    for i, cmd in enumerate(prog):
        s += "mark c%d\n" % i
        s += cmd_lines(cmd, list(m.vars), nst)
        if cmd[0] == "step":
            nst += 1
        s += PROBE
        m.apply(cmd)
    s += tail_lines(names[0], names[1], nst)
    return s


def scenario_fresh(cfgs, prefix, tfmode, names, nsteps_done):
    s = header(prefix, tfmode)
    s += "setstep %d\n" % nsteps_done
    for i, c in enumerate(cfgs):
        s += "mark c%d\nconfig <<EOC\n%sEOC\n" % (i, c) + PROBE
    s += tail_lines(names[0], names[1], nsteps_done)
    return s


# ---------------------------------------------------------------------------------------------------
# running and parsing
# ---------------------------------------------------------------------------------------------------

_EXE = {}
_EXE_LOCK = threading.Lock()


def esim_exe():
    with _EXE_LOCK:
        if FLAV not in _EXE:
            _EXE[FLAV] = common.vbuild.tool(FLAV, "esim")
        return _EXE[FLAV]


def run_scn(text, wd, name, timeout=180):
    os.makedirs(wd, exist_ok=True)
    sp = os.path.join(wd, name + ".scn")
    with open(sp, "w") as f:
        f.write(text)
    r = None
    for attempt in range(3):
        try:
            r = common.run_proc([esim_exe(), sp], timeout=timeout, cwd=wd)
            break
        except (FileNotFoundError, PermissionError):
            # the cache entry was replaced because the repository changed while we run: rebuild and retry
            with _EXE_LOCK:
                _EXE.pop(FLAV, None)
    if r is None:
        r = dict(rc=None, sig=0, out="", err="esim executable unavailable", timeout=True)
    if r["timeout"] and r["rc"] is None and r["err"] != "esim executable unavailable":
        r = common.run_proc([esim_exe(), sp], timeout=timeout * 4, cwd=wd)
    ev = common.parse_events(r["out"])
    r["complete"] = bool(ev) and ev[-1].get("ev") == "end"
    return r, ev, sp


def lib_frame(err):
    """innermost frame of the library in a sanitizer dump (works for /repo and for scratch copies)"""
    for line in err.splitlines():
        m = re.search(r"#\d+ \S+ in (.+?) (\S*/src/(colvar\w*\.(?:cpp|h))):(\d+)", line)
        if m:
            fn = re.sub(r"\(.*$", "", m.group(1)).strip()
            return "%s@%s" % (fn[:60], m.group(3))
    return "?"


def teardown_errors(r):
    """error lines printed while the module is destroyed at the end of a scenario (the simulator's own proxy is gone
    by then, so the library's base class prints them)"""
    out = []
    for line in (r["err"] + "\n" + r["out"]).splitlines():
        if line.startswith("colvars:") and "rror" in line:
            out.append(line[8:].strip())
    return out


def norm_msg(s):
    s = re.sub(r'colvar [A-Za-z0-9_]+', "colvar", s)
    s = re.sub(r'bias [A-Za-z0-9_]+', "bias", s)
    s = re.sub(r'"', "", s)
    s = re.sub(r"-?\d+", "N", s)
    return s[:90]


def crash_key(r):
    """None if the process ended normally, else a violation key"""
    rep = common.sanitizer_report(r["err"])
    if rep:
        m = re.search(r"AddressSanitizer: ([a-zA-Z0-9_-]+)", rep)
        kind = m.group(1) if m else ("ubsan" if "runtime error" in rep else "sanitizer")
        if kind == "ubsan":
            m2 = re.search(r"runtime error: ([a-z -]+)", rep)
            kind = "ubsan-" + (m2.group(1).strip().replace(" ", "-")[:40] if m2 else "")
        return "sanitizer:%s:%s" % (kind, lib_frame(r["err"]))
    if r["sig"]:
        return "signal%d:%s" % (r["sig"], lib_frame(r["err"]))
    if r["timeout"]:
        return "TIMEOUT"
    if not r["complete"]:
        return "incomplete:rc%s" % r["rc"]
    return None


def segments(ev):
    """split the event list at `mark` events: {tag: [events]} in order"""
    seg = {}
    cur = "head"
    seg[cur] = []
    order = [cur]
    for e in ev:
        if e.get("ev") == "mark":
            cur = e["tag"]
            seg[cur] = []
            order.append(cur)
        else:
            seg[cur].append(e)
    return seg, order


def norm_viol(s):
    """class of a deps violation string: kind + object type + feature descriptions, names removed"""
    s = re.sub(r'cvc "[^"]*"', "cvc", s)
    s = re.sub(r"unnamed cvc", "cvc", s)
    s = re.sub(r"colvar [A-Za-z0-9_]+", "colvar", s)
    s = re.sub(r"bias [A-Za-z0-9_]+", "bias", s)
    s = re.sub(r"atom group [A-Za-z0-9_]+", "atom group", s)
    s = re.sub(r"ref_count=-?\d+ expect=-?\d+", "ref_count!=expect", s)
    s = re.sub(r"needed by \d+", "needed", s)
    return s[:120]


def refdiff_class(s):
    m = re.search(r"ref_count=(-?\d+) expect=(-?\d+)", s)
    base = norm_viol(s)
    if m:
        a, b = int(m.group(1)), int(m.group(2))
        base += ":" + ("above" if a > b else "below")
    return base


def parse_list(e):
    return [x for x in e.get("res", "").split() if x]


def parse_run(ev, ncmds, names):
    """structure the events of a program run.  Returns dict or None if the layout is not as expected"""
    seg, order = segments(ev)
    out = dict(cmds=[], deps=[])
    for i in range(ncmds):
        es = seg.get("c%d" % i)
        if es is None or len(es) < 3:
            return None
        dep = es[-1]
        lb = es[-2]
        lv = es[-3]
        main = es[:-3]
        if dep.get("ev") != "deps" or lb.get("ev") != "script" or lv.get("ev") != "script":
            return None
        out["cmds"].append(dict(main=main[0] if main else None, vars=parse_list(lv), biases=parse_list(lb), nact=lb.get("nact"), deps=dep["report"]))
        out["deps"].append(("c%d" % i, dep["report"]))
    t = seg.get("tail")
    if t is None:
        return None
    nv, nb = len(names[0]), len(names[1])
    if len(t) != 2 + nv + 2 * nb + 2:
        return None
    out["vars"] = parse_list(t[0])
    out["biases"] = parse_list(t[1])
    out["cfg"] = {}
    out["btype"] = {}
    for k, n in enumerate(names[0]):
        e = t[2 + k]
        if e.get("rc") == 0:
            out["cfg"][n] = e.get("res", "")
    for k, n in enumerate(names[1]):
        e = t[2 + nv + 2 * k]
        if e.get("rc") == 0:
            out["cfg"][n] = e.get("res", "")
            out["btype"][n] = t[2 + nv + 2 * k + 1].get("res", "").strip()
    out["atomids"] = parse_list(t[-2])
    out["deps"].append(("tail", t[-1]["report"]))
    sy = seg.get("sync")
    fu = seg.get("further")
    if not sy or not fu or sy[0].get("ev") != "step":
        return None
    out["sync"] = sy[0]
    out["deps"].append(("sync", sy[-1]["report"]))
    out["further"] = [e for e in fu if e.get("ev") == "step"]
    out["deps"].append(("further", fu[-1]["report"]))
    if len(out["further"]) != NFURTHER:
        return None
    return out


def read_traj(prefix):
    """[(step, label tokens, data tokens)] of the trajectory file"""
    p = prefix + ".colvars.traj"
    rec = []
    if not os.path.exists(p):
        return None
    label = None
    with open(p) as f:
        for line in f:
            t = line.split()
            if not t:
                continue
            if t[0] == "#":
                label = t[1:]
            else:
                try:
                    st = int(t[0])
                except ValueError:
                    continue
                rec.append((st, label, t[1:]))
    return rec


# ---------------------------------------------------------------------------------------------------
# comparisons
# ---------------------------------------------------------------------------------------------------

def _flat(x, path, out):
    if isinstance(x, dict):
        for k in sorted(x):
            _flat(x[k], path + "/" + k, out)
    elif isinstance(x, list):
        for i, y in enumerate(x):
            _flat(y, "%s[%d]" % (path, i), out)
    else:
        out.append((path, x))


def cmp_exact(a, b, path):
    """returns (None | first differing path, max relative deviation over numeric leaves)"""
    fa, fb = [], []
    _flat(a, path, fa)
    _flat(b, path, fb)
    if [p for p, _ in fa] != [p for p, _ in fb]:
        pa, pb = set(p for p, _ in fa), set(p for p, _ in fb)
        d = sorted(pa ^ pb)
        return ("structure:" + (d[0] if d else path)), float("inf")
    first = None
    worst = 0.0
    for (p, x), (_, y) in zip(fa, fb):
        if x == y:
            continue
        try:
            vx, vy = fl(x), fl(y)
        except (TypeError, ValueError):
            return p, float("inf")
        if vx != vx and vy != vy:
            continue
        if vx == vy:
            continue
        if first is None:
            first = "%s: %.17g vs %.17g" % (p, vx, vy)
        if vx != vx or vy != vy:
            worst = float("inf")
        else:
            worst = max(worst, abs(vx - vy) / max(abs(vx), abs(vy), 1e-300))
    return first, worst


def field_class(path):
    """coarse class of a differing field for the violation key"""
    if path.startswith("structure:"):
        return "presence_of:" + field_class(path[len("structure:"):])
    m = re.match(r"^/?(cv|bias)/([^/\[]+)/([a-z]+)", path)
    if m:
        return "%s.%s" % (m.group(1), m.group(3))
    m = re.match(r"^/?([a-z]+)", path)
    return m.group(1) if m else path[:20]


def compare_tail(P, Q, pre_p, pre_q, restrict=None, include_sync=True):
    """P: program run, Q: reference run (control or fresh).  restrict: None = everything, else
    dict(vars_all=set (actual value and active flag compared), vars_x=set (every field compared), biases=set,
    full=bool (per-atom forces, energies and trajectory data lines compared), drop_ft=bool).
    Returns list of (class, text, maxrel) differences (at most one per class)."""
    diffs = []

    def add(cls, text, rel=float("inf")):
        if not any(d[0] == cls for d in diffs):
            diffs.append((cls, text, rel))

    if P["vars"] != Q["vars"] or P["biases"] != Q["biases"]:
        add("object_lists", "variables %s / biases %s vs %s / %s" % (P["vars"], P["biases"], Q["vars"], Q["biases"]))
        return diffs
    steps = list(zip(P["further"], Q["further"]))
    if include_sync:
        steps = [(P["sync"], Q["sync"])] + steps
    inactive = set()
    nodata = set()
    mts_seen = set()
    for ep, eq in steps:
        tag = "it%d" % ep.get("it", -1)
        # a variable with timeStepFactor n holds, between its own steps, the value of its last step: that value may stem
        # from a moment when a bias deleted since then kept it awake.  Compare from its first own step of the tail on.
        mts_wait = set()
        for n in P["vars"]:
            tsf = VARS.get(n, {}).get("tsf", 1)
            if tsf > 1 and n not in mts_seen:
                if isinstance(ep.get("it"), int) and ep["it"] % tsf == 0:
                    mts_seen.add(n)
                else:
                    mts_wait.add(n)
        if ep.get("it") != eq.get("it"):
            add("step_number", "%s vs %s" % (ep.get("it"), eq.get("it")))
            break
        if ep.get("nact") != eq.get("nact"):
            add("nact", "%s: active atoms %s vs %s" % (tag, ep.get("nact"), eq.get("nact")))
        # colvars deactivated in the program run but active in the reference: reported once, then excluded
        for n in P["vars"]:
            cp, cq = ep["cv"].get(n), eq["cv"].get(n)
            if cp is None or cq is None:
                add("cv.missing", "%s: variable %s missing in step event" % (tag, n))
                continue
            if n in mts_wait:
                continue
            if cp.get("on") != cq.get("on"):
                inactive.add(n)
                add("colvar_inactive" if cp.get("on") == 0 else "colvar_active_flag",
                    "%s: variable %s active flag %s vs %s (value %s vs %s)" % (tag, n, cp.get("on"), cq.get("on"), cp.get("xa"), cq.get("xa")))
        for n in P["vars"]:
            if n in inactive or n in mts_wait:
                continue
            cp, cq = ep["cv"].get(n), eq["cv"].get(n)
            if cp is None or cq is None:
                continue
            if restrict is not None:
                if n not in restrict["vars_all"]:
                    continue
                if n not in restrict["vars_x"]:
                    cp = {k: cp[k] for k in ("xa", "on") if k in cp}
                    cq = {k: cq[k] for k in ("xa", "on") if k in cq}
                elif restrict.get("drop_ft"):
                    cp = {k: w for k, w in cp.items() if k != "ft"}
                    cq = {k: w for k, w in cq.items() if k != "ft"}
            d, rel = cmp_exact(cp, cq, "cv/" + n)
            if d:
                add(field_class(d.split(":")[0]), "%s: %s" % (tag, d), rel)
        for n in P["biases"]:
            if restrict is not None and n not in restrict["biases"]:
                continue
            bp, bq = ep["bias"].get(n), eq["bias"].get(n)
            if bp is None or bq is None:
                add("bias.missing", "%s: bias %s missing in step event" % (tag, n))
                continue
            if any(v in inactive or v in mts_wait for v in (bias_vars(n) or [])):
                continue
            d, rel = cmp_exact(bp, bq, "bias/" + n)
            if d:
                add(field_class(d.split(":")[0]), "%s: %s" % (tag, d), rel)
        if mts_wait:
            nodata.add(ep.get("it"))
        if (restrict is None or restrict.get("full")) and not inactive and not mts_wait:
            for f in ("en", "af", "rc", "err"):
                d, rel = cmp_exact(ep.get(f), eq.get(f), f)
                if d:
                    add(f, "%s: %s" % (tag, d), rel)
    # trajectory file: label line of the tail, data lines where comparable
    tp, tq = read_traj(pre_p), read_traj(pre_q)
    if tp is None or tq is None:
        if P["vars"]:
            add("traj_missing", "trajectory file missing (%s, %s)" % (tp is None, tq is None))
    else:
        want = [e.get("it") for e, _ in steps]
        dp = {st: (lab, dat) for st, lab, dat in tp}
        dq = {st: (lab, dat) for st, lab, dat in tq}
        for st in want:
            if st not in dp or st not in dq:
                if P["vars"]:
                    add("traj_line_missing", "step %s: line present %s vs %s" % (st, st in dp, st in dq))
                continue
            if dp[st][0] != dq[st][0]:
                add("traj_label", "step %s: labels %s vs %s" % (st, dp[st][0], dq[st][0]))
            elif (restrict is None or restrict.get("full")) and not inactive and st not in nodata and dp[st][1] != dq[st][1]:
                add("traj_data", "step %s: %s vs %s" % (st, dp[st][1], dq[st][1]))
    return diffs


# ---------------------------------------------------------------------------------------------------
# one program
# ---------------------------------------------------------------------------------------------------

def removal_kinds(prog):
    ks = set()
    for c in prog:
        if c[0] in ("delbias", "delvar", "reset"):
            ks.add(c[0])
        elif c[0] == "reject":
            ks.add("reject")
    return "+".join(sorted(ks)) or "none"


def expected_atoms(varlist):
    s = set()
    for v in varlist:
        if v in VARS:
            s.update(VARS[v]["atoms"])
        else:
            return None
    return len(s)


def check_deps(res, where, label, rep, files, cls=None, allow=None, rejected=False):
    """cls: class of the command after which the report was taken (part of the violation key).
    allow: {(object, feature): excess references tolerated}, filled when `rejected` (the command was a configuration
    that the library rejected: colvardeps::enable() does not roll back the references taken before the failure)"""
    cls0 = cls
    res["ndeps"] += 1
    res["objects"] += rep.get("objects", 0)
    res["features"] += rep.get("features_enabled", 0)
    if res.get("graph_cls") is None and (rep.get("viol") or any(not refdiff_class(v).endswith(":above") for v in rep.get("refdiff", []))):
        res["graph_cls"] = cls or where     # class of the FIRST command after which the graph is broken
    gc = res.get("graph_cls") or cls or where
    for v in rep.get("viol", []):
        res["viol"].append(("graph:%s:deps:%s" % (gc, norm_viol(v)), "%s after %s: %s" % (where, label, v), files))
    for v in rep.get("refdiff", []):
        cls = refdiff_class(v)
        if cls.endswith(":above"):
            # more references than enabled dependents: the feature stays pinned for ever
            m = re.match(r"^(.*):([^:]+) ref_count=(-?\d+) expect=(-?\d+)$", v)
            key = (m.group(1), m.group(2)) if m else (v, "")
            excess = int(m.group(3)) - int(m.group(4)) if m else 1
            if rejected and allow is not None:
                allow[key] = max(allow.get(key, 0), excess)
            if allow is not None and excess <= allow.get(key, 0):
                # left behind by a rejected definition: a leak, but nothing is switched off under a dependent
                res["pinned"][cls] = res["pinned"].get(cls, 0) + 1
            else:
                # keyed by the kind of command after which this feature of this object was first seen pinned
                first = res.setdefault("above_first", {}).setdefault((where,) + key, cls0 or where)
                res["viol"].append(("graph:%s:refcount:%s" % (first, cls), "%s after %s: %s" % (where, label, v), files))
        else:
            # fewer references than enabled dependents (or off while needed): it can be switched off under them
            res["viol"].append(("graph:%s:refcount:%s" % (gc, cls), "%s after %s: %s" % (where, label, v), files))
    if rep.get("viol") or any(not refdiff_class(v).endswith(":above") for v in rep.get("refdiff", [])):
        res["graph_bad"] = True


def run_program(job):
    """executes one program (P), its control (P') and the fresh process (F); returns a result dict"""
    prog = job["prog"]
    wd = job["wd"]
    tfmode = job["tfmode"]
    res = dict(idx=job["idx"], prog=prog_str(prog), viol=[], refdiff=[], inconc=[], ndeps=0, objects=0, features=0,
               changed=False, counters={}, kinds=set(), wd=wd, tol_used=0, removal=removal_kinds(prog), pinned={}, graph_bad=False, graph_cls=None)

    def bump(k, n=1):
        res["counters"][k] = res["counters"].get(k, 0) + n

    names = all_names(prog)
    preP = os.path.join(wd, "P")
    r, ev, spP = run_scn(scenario(prog, preP, tfmode, names), wd, "P")
    files = [spP]
    ck = crash_key(r)
    if ck:
        if ck == "TIMEOUT" or ck.startswith("incomplete:rc2"):
            res["inconc"].append("program run %s: %s %s" % (ck, prog_str(prog), r["err"][-200:]))
        else:
            # which command was being executed
            seg, order = segments(ev)
            last = order[-1]
            op = "tail"
            if last.startswith("c") and last[1:].isdigit():
                op = prog[int(last[1:])][0]
            res["viol"].append((ck, "program [%s] died in segment %s (%s): %s" % (prog_str(prog), last, op, (common.sanitizer_report(r["err"]) or r["err"][-300:])),
                                files))
            with open(os.path.join(wd, "P.stderr"), "w") as f:
                f.write(r["err"][-20000:])
            files.append(os.path.join(wd, "P.stderr"))
        return res
    P = parse_run(ev, len(prog), names)
    if P is None:
        res["inconc"].append("event layout unexpected: " + prog_str(prog))
        return res

    def check_teardown(run, rr, what, fl_):
        """the module is destroyed at the end of every scenario: that deletion must be as clean as any other"""
        bump("teardowns_checked")
        te = teardown_errors(rr)
        if te:
            last = run["further"][-1].get("it")
            asleep = [b for b in run["biases"] if bias_tsf(b) > 1 and isinstance(last, int) and last % bias_tsf(b) != 0]
            res["viol"].append(("graph:%s:teardown_error:%s" % ("delete_sleeping_mts_bias" if asleep else "module_deletion", norm_msg(te[0])),
                                "%s: destroying the module (objects %s / %s, last step %s) reports: %s" % (what, run["vars"], run["biases"], last, te[:3]), fl_))

    check_teardown(P, r, "program [%s]" % prog_str(prog), files)
    # ---- per-command oracles: deps, object lists, active atoms -------------------------------------
    before_v, before_b = [], []
    created = {}      # name -> index of the command that created the live object
    leak_allow = {}   # references leaked by rejected definitions (tolerated, counted)
    last_it = None    # step number of the last step taken
    deaths = []       # (name, index of the creating command, index of the command after which it was gone)
    step_cmds = []    # indices of the step commands
    stepcount = 0
    unexpected = []
    for i, (cmd, o) in enumerate(zip(prog, P["cmds"])):
        label = "command %d (%s) of [%s]" % (i, cmd_str(cmd), prog_str(prog))
        op = cmd[0]
        gcls = op if op != "reject" else "reject:" + cmd[1]
        if op in ("delbias", "delvar", "reset") and last_it is not None:
            # biases with timeStepFactor n sleep (are inactive) between their own steps
            gone = [b for b in before_b if b not in o["biases"]]
            if any(bias_tsf(b) > 1 and last_it % bias_tsf(b) != 0 for b in gone):
                gcls = "delete_sleeping_mts_bias"
        main = o["main"]
        was_rejected = bool(main) and main.get("ev") == "config" and main.get("rc") != 0
        check_deps(res, "program", label, o["deps"], files, cls=gcls, allow=leak_allow, rejected=was_rejected)
        res["kinds"].add(op if op != "reject" else "reject:" + cmd[1])
        exp_v, exp_b = list(before_v), list(before_b)
        rejected = False
        if op == "addvar":
            if main and main.get("rc") == 0:
                exp_v.append(cmd[1])
            else:
                rejected = True
        elif op == "addbias":
            if main and main.get("rc") == 0:
                exp_b.append(bias_name(cmd[1], cmd[2]))
            else:
                rejected = True
        elif op == "delbias":
            exp_b = [b for b in exp_b if b != cmd[1]]
        elif op == "delvar":
            exp_v = [v for v in exp_v if v != cmd[1]]
            exp_b = [b for b in exp_b if cmd[1] not in (bias_vars(b) or [])]
        elif op == "reset":
            exp_v, exp_b = [], []
        elif op == "reject":
            if main and main.get("rc") == 0:
                bump("rejected_configuration_accepted")
                # learn what it defined from the lists
                exp_v, exp_b = o["vars"], o["biases"]
        if rejected:
            bump("unexpected_rejections")
            unexpected.append((i, cmd, list(before_v), list(before_b), main.get("errs") if main else None))
        if (o["vars"], o["biases"]) != (exp_v, exp_b):
            res["viol"].append(("object_set:%s" % (op if op != "reject" else "reject:" + cmd[1]),
                                "%s: variables/biases %s / %s, expected %s / %s" % (label, o["vars"], o["biases"], exp_v, exp_b), files))
        na = expected_atoms(o["vars"])
        if na is not None and o["nact"] is not None:
            bump("active_atom_counts_checked")
            if o["nact"] != na:
                res["viol"].append(("atoms_not_released:%s" % (op if op != "reject" else "reject:" + cmd[1]) if o["nact"] > na else "atoms_missing:%s" % op,
                                    "%s: engine is asked for %d atoms, the live variables %s use %d" % (label, o["nact"], o["vars"], na), files))
        # bookkeeping of object identities
        if set(o["vars"]) != set(before_v) or set(o["biases"]) != set(before_b):
            res["changed"] = True
        for n in list(created):
            if n not in o["vars"] and n not in o["biases"]:
                deaths.append((n, created[n], i))
                del created[n]
        if op in ("addvar", "addbias") and not rejected:
            n = cmd[1] if op == "addvar" else bias_name(cmd[1], cmd[2])
            created[n] = i
            res["kinds"].add(("var:" if op == "addvar" else "bias:") + cmd[1])
        before_v, before_b = o["vars"], o["biases"]
        if op == "step":
            stepcount += 1
            step_cmds.append(i)
            st = main
            if st is not None and isinstance(st.get("it"), int):
                last_it = st["it"]
            if st is not None and (st.get("rc") or st.get("err")):
                bump("steps_with_error_bits")
    for lab, rep in P["deps"][len(prog):]:
        check_deps(res, "program", "%s of [%s]" % (lab, prog_str(prog)), rep, files, cls="tail", allow=leak_allow)
    if (P["vars"], P["biases"]) != (before_v, before_b):
        res["viol"].append(("object_set:tail", "lists changed without a command: %s %s" % (P["vars"], P["biases"]), files))
    for e in [P["sync"]] + P["further"]:
        if e.get("rc") or e.get("err"):
            bump("tail_steps_with_error_bits")
    survivors_v, survivors_b = P["vars"], P["biases"]
    unknown = [n for n in survivors_v + survivors_b if n not in created]
    if unknown:
        res["inconc"].append("survivor without a creation command (%s) in [%s]" % (unknown, prog_str(prog)))
        return res

    # ---- unexpected rejections: same live objects, no history -> must be rejected as well ----------
    for (i, cmd, lv, lb, errs) in unexpected[:2]:
        cfgs = [VARS[v]["text"] for v in lv if v in VARS]
        ok = len(cfgs) == len(lv)
        for b in lb:
            m = re.match(r"^b([a-z0-9]+)_", b)
            if m and m.group(1) in BIAS_KINDS and bias_vars(b):
                cfgs.append(bias_text(m.group(1), tuple(bias_vars(b))))
            else:
                ok = False
        if not ok:
            continue
        newc = VARS[cmd[1]]["text"] if cmd[0] == "addvar" else bias_text(cmd[1], cmd[2])
        rr, evr, spR = run_scn(scenario_fresh(cfgs + [newc], os.path.join(wd, "R%d" % i), tfmode, ([], []), 0), wd, "R%d" % i)
        segr, _ = segments(evr)
        last = segr.get("c%d" % len(cfgs))
        if crash_key(rr) or not last:
            res["inconc"].append("rejection re-check failed to run for [%s]" % prog_str(prog))
            continue
        if last[0].get("rc") == 0 and all(segr.get("c%d" % k, [{}])[0].get("rc") == 0 for k in range(len(cfgs))):
            res["viol"].append(("rejected_only_after_history:%s" % (cmd[1] if cmd[0] == "addvar" else cmd[1]),
                                "command %d (%s) of [%s] was rejected (%s) but the same configuration is accepted by a fresh "
                                "process holding the same live objects %s %s" % (i, cmd_str(cmd), prog_str(prog), errs, lv, lb), files + [spR]))
        else:
            bump("invalid_combinations_confirmed")

    if res["graph_bad"]:
        # root cause first: a broken dependency graph makes every later step fail; do not pile identity differences on it
        bump("identity_oracles_skipped_after_graph_violation")
        res["nsurv"] = len(survivors_v) + len(survivors_b)
        return res

    # ---- control program: the objects that do not survive were never created -----------------------
    keep = set(created.values())
    ctrl = []
    for i, cmd in enumerate(prog):
        if cmd[0] == "step" or (cmd[0] in ("addvar", "addbias") and i in keep):
            ctrl.append(cmd)
    hist_b = [b for b in survivors_b if not re.match(r"^b(%s)_" % "|".join(MEMORYLESS), b)]
    ext_v = [v for v in survivors_v if VARS.get(v, {}).get("ext")]
    # Legitimate memory: the extended coordinate of a surviving variable is a dynamical degree of freedom; a bias that
    # acted on it for at least one step before being deleted has moved it, exactly as it would have moved atoms.
    tainted = set()
    for (n, ci, di) in deaths:
        for v in (bias_vars(n) or []):
            if v in ext_v and created[v] < ci and any(ci < sidx < di for sidx in step_cmds):
                tainted.add(v)
    # Legitimate memory, too: hideJacobian is an option of an ABF bias that changes what its VARIABLE reports as total force (the
    # Jacobian term is left out); another ABF bias on the same variable collected its samples accordingly while the first one lived
    for (n, ci, di) in deaths:
        if n.startswith(("babfhj", "babfhk")) and any(ci < sidx < di for sidx in step_cmds):
            for v in (bias_vars(n) or []):
                if any(b.startswith("babf") and v in (bias_vars(b) or []) for b in survivors_b):
                    tainted.add(v)
    if tainted:
        bump("programs_with_extended_coordinate_moved_by_a_deleted_bias")
    if tfmode == "prev":
        # previous-step total forces contain whatever Colvars applied at the previous step, deleted objects included
        tainted.update(v for v in survivors_v if v == "vf")
        for b in survivors_b:
            if b.startswith("babf"):
                tainted.update(bias_vars(b) or [])
    if ctrl != prog:
        preC = os.path.join(wd, "C")
        rc_, evc, spC = run_scn(scenario(ctrl, preC, tfmode, names), wd, "C")
        files_c = files + [spC]
        ckc = crash_key(rc_)
        C = None if ckc else parse_run(evc, len(ctrl), names)
        if ckc and ckc != "TIMEOUT":
            res["viol"].append((ckc, "control program [%s] died: %s" % (prog_str(ctrl), common.sanitizer_report(rc_["err"]) or rc_["err"][-300:]), files_c))
        elif C is None:
            res["inconc"].append("control run unusable for [%s]" % prog_str(prog))
        else:
            check_teardown(C, rc_, "control program [%s]" % prog_str(ctrl), files_c)
            for (lab, rep) in C["deps"]:
                check_deps(res, "control", "%s of [%s]" % (lab, prog_str(ctrl)), rep, files_c)
            if (C["vars"], C["biases"]) != (survivors_v, survivors_b):
                res["viol"].append(("control_object_set:" + res["removal"],
                                    "program [%s] ends with %s / %s, control [%s] with %s / %s" % (prog_str(prog), survivors_v, survivors_b, prog_str(ctrl), C["vars"], C["biases"]), files_c))
            else:
                # steps of the program body: a surviving variable must be active exactly when it is in the control
                psteps = [P["cmds"][i]["main"] for i in step_cmds]
                csteps = [o["main"] for cmd, o in zip(ctrl, C["cmds"]) if cmd[0] == "step"]
                slept = set()
                for sidx, ep, ec in zip(step_cmds, psteps, csteps):
                    if not ep or not ec:
                        continue
                    for v in survivors_v:
                        if created[v] < sidx and v in ep.get("cv", {}) and v in ec.get("cv", {}):
                            # a bias that is still attached in the program (to be deleted later) may legitimately keep the
                            # variable awake at this step
                            if any(v in (bias_vars(n) or []) and ci < sidx < di for (n, ci, di) in deaths):
                                continue
                            if ep["cv"][v].get("on") != ec["cv"][v].get("on") and v not in slept:
                                slept.add(v)
                                res["viol"].append(("colvar_inactive:control_body" if ep["cv"][v].get("on") == 0 else "control:colvar_active_flag:" + res["removal"],
                                                    "program [%s] vs control [%s]: at step %s variable %s has active flag %s vs %s; reported value %s, "
                                                    "value in the control %s" % (prog_str(prog), prog_str(ctrl), ep.get("it"), v, ep["cv"][v].get("on"),
                                                                                 ec["cv"][v].get("on"), ep["cv"][v].get("x"), ec["cv"][v].get("x")), files_c))
                perr = [e.get("it") for e in [P["sync"]] + P["further"] if e.get("rc") or e.get("err")]
                cerr = [e.get("it") for e in [C["sync"]] + C["further"] if e.get("rc") or e.get("err")]
                if perr != cerr:
                    etxt = str([e.get("errs") for e in [P["sync"]] + P["further"] if e.get("errs")][:1])
                    res["viol"].append((("colvar_inactive:step_error" if "was activated after" in etxt else "control:step_error:" + res["removal"]),
                                        "program [%s] vs control [%s]: steps reporting an error %s vs %s: %s" % (prog_str(prog), prog_str(ctrl), perr, cerr,
                                                                                          [e.get("errs") for e in [P["sync"]] + P["further"] if e.get("errs")][:1]), files_c))
                if slept or perr != cerr:
                    # root cause first: once a survivor was switched off (or steps abort) every later value is stale
                    bump("identity_oracles_skipped_after_deactivation_or_step_error")
                    res["nsurv"] = len(survivors_v) + len(survivors_b)
                    return res
                tainted_c = set(tainted)
                order_p = [a for a in P["atomids"] if a in set(C["atomids"])]
                slot_changed = order_p != C["atomids"] or len(P["atomids"]) != len(C["atomids"])
                if slot_changed:
                    bump("atom_slot_layout_differs_from_control")
                if P["cfg"] != C["cfg"]:
                    res["viol"].append(("control:getconfig:" + res["removal"], "getconfig texts differ between program and control", files_c))
                restrict = None
                if tainted_c:
                    restrict = dict(vars_all=set(survivors_v), vars_x=set(survivors_v) - tainted_c,
                                    biases=set(b for b in survivors_b if not any(v in tainted_c for v in (bias_vars(b) or []))), full=False)
                    bump("control_comparisons_restricted")
                for cls, text, rel in compare_tail(P, C, preP, preC, restrict=restrict, include_sync=True):
                    if slot_changed and rel <= 1e-13 and cls not in ("nact", "traj_label", "object_lists", "colvar_inactive"):
                        res["tol_used"] += 1
                        continue
                    res["viol"].append(("colvar_inactive:control" if cls == "colvar_inactive" else "control:%s:%s" % (cls, res["removal"]),
                                        "program [%s] vs control [%s]: %s" % (prog_str(prog), prog_str(ctrl), text), files_c))
                bump("control_comparisons")
                bump("tail_steps_compared_control", NFURTHER + 1)
                if hist_b or ext_v:
                    bump("control_comparisons_with_history_objects")
    else:
        bump("programs_identical_to_their_control")

    # ---- fresh process from the survivors' own getconfig -------------------------------------------
    cfgs = []
    okcfg = True
    for v in survivors_v:
        if v not in P["cfg"]:
            okcfg = False
            break
        cfgs.append("colvar {%s}\n" % P["cfg"][v])
    for b in survivors_b:
        if b not in P["cfg"] or not P["btype"].get(b):
            okcfg = False
            break
        cfgs.append("%s {%s}\n" % (P["btype"][b], P["cfg"][b]))
    if not okcfg:
        res["viol"].append(("getconfig_missing:" + res["removal"], "a surviving object of [%s] does not return its configuration" % prog_str(prog), files))
        return res
    preF = os.path.join(wd, "F")
    rf, evf, spF = run_scn(scenario_fresh(cfgs, preF, tfmode, names, stepcount), wd, "F")
    files_f = files + [spF]
    ckf = crash_key(rf)
    F = None if ckf else parse_run(evf, len(cfgs), names)
    if ckf and ckf != "TIMEOUT":
        res["viol"].append((ckf, "fresh process with the survivors of [%s] died: %s" % (prog_str(prog), common.sanitizer_report(rf["err"]) or rf["err"][-300:]), files_f))
    elif F is None:
        res["inconc"].append("fresh run unusable for [%s]" % prog_str(prog))
    else:
        check_teardown(F, rf, "fresh process with the survivors of [%s]" % prog_str(prog), files_f)
        for (lab, rep) in F["deps"]:
            check_deps(res, "fresh", "%s of the survivors of [%s]" % (lab, prog_str(prog)), rep, files_f)
        bad = [k for k, o in enumerate(F["cmds"]) if not o["main"] or o["main"].get("rc") != 0]
        if bad or (F["vars"], F["biases"]) != (survivors_v, survivors_b):
            res["viol"].append(("fresh_rejects_getconfig:" + res["removal"],
                                "survivors %s / %s of [%s]: their getconfig texts give %s / %s in a fresh process (%s)"
                                % (survivors_v, survivors_b, prog_str(prog), F["vars"], F["biases"],
                                   [F["cmds"][k]["main"].get("errs") for k in bad[:2] if F["cmds"][k]["main"]]), files_f))
        else:
            full = not hist_b and not ext_v
            # a variable is memoryless if it has no extended Lagrangian; its applied force is comparable only
            # if all biases acting on it are memoryless
            clean_b = set(b for b in survivors_b if b not in hist_b and not any(v in ext_v for v in (bias_vars(b) or [])))
            dirty_v = set(ext_v)
            for b in survivors_b:
                if b not in clean_b:
                    dirty_v.update(bias_vars(b) or [])
            restrict = dict(vars_all=set(survivors_v) - set(ext_v), vars_x=set(survivors_v) - dirty_v, biases=clean_b, full=full,
                            drop_ft=(tfmode == "prev" and not full))
            for cls, text, rel in compare_tail(P, F, preP, preF, restrict=restrict, include_sync=False):
                res["viol"].append(("colvar_inactive:fresh" if cls == "colvar_inactive" else "fresh:%s:%s" % (cls, res["removal"]),
                                    "program [%s] vs fresh process with its survivors %s / %s: %s" % (prog_str(prog), survivors_v, survivors_b, text), files_f))
            bump("fresh_comparisons")
            if full:
                bump("fresh_comparisons_complete")
            bump("tail_steps_compared_fresh", NFURTHER)
    res["nsurv"] = len(survivors_v) + len(survivors_b)
    return res


# ---------------------------------------------------------------------------------------------------

def run(tier, replay):
    c = common.Check("C13", tier)
    c.use_flavour(FLAV)
    c.rule = ("programs over {add variable, add bias, delete bias, delete variable, reset, step, rejected configuration}: all valid "
              "programs up to the stated length over the reduced alphabet (2 variables x {harmonic, abf, metadynamics, harmonic with "
              "timeStepFactor 2}; a command is valid if it applies to the current object set; last command not a step, since steps "
              "follow anyway) plus random programs over %d variable templates x %d bias kinds; every program is followed by one "
              "synchronisation step and %d further steps and by the destruction of the module; distinct = distinct programs during "
              "which the object set (read back with cv list) changed at least once" % (len(VARS), len(BIAS_KINDS), NFURTHER))
    c.assumptions = ["the engine simulator imposes positions and forces from a fixed list of %d frames; Gaussian noise of the extended "
                     "Lagrangian is zeroed, so every run is deterministic" % NFRAMES,
                     "error bits are cleared after every command, as a script-driven engine does after reporting an error",
                     "fresh-process comparison: absolute step number aligned with set_initial_step; values/forces compared only for "
                     "objects without memory; objects with history are compared through the control program"]
    common.vbuild.ensure(FLAV, tools=["esim"])
    if replay:
        sp = os.path.join(replay, "P.scn") if os.path.isdir(replay) else replay
        r = common.run_proc([esim_exe(), sp], timeout=600, cwd=c.work)
        print(crash_key(r) or "process ended normally")
        for e in common.parse_events(r["out"]):
            if e.get("ev") == "deps" and (e["report"]["viol"] or e["report"]["refdiff"]):
                print(json.dumps(e["report"]))
        print(r["err"][-3000:])
        return c.finish(False, "replay mode")

    quick = (tier == "quick")
    maxlen = int(os.environ.get("C13_MAXLEN", "4" if quick else "5"))
    nrand = int(os.environ.get("C13_NRANDOM", "260" if quick else "4000"))
    maxrand = 40 if quick else 60
    jobs = []
    for p in enumerate_programs(maxlen):
        jobs.append(dict(prog=p, tfmode="same", kind="exhaustive"))
    nex = len(jobs)
    for k in range(nrand):
        L = c.rng.randint(6, maxrand)
        p = random_program(c.rng, L)
        if not p:
            continue
        jobs.append(dict(prog=p, tfmode=("prev" if k % 4 == 3 else "same"), kind="random"))
    for i, j in enumerate(jobs):
        j["idx"] = i
        j["wd"] = os.path.join(c.work, "p%05d" % i)

    def work(job):
        try:
            return run_program(job)
        except Exception as ex:  # harness failure of one case is inconclusive, never silent
            import traceback
            return dict(idx=job["idx"], prog=prog_str(job["prog"]), viol=[], refdiff=[], inconc=["harness exception: %s" % traceback.format_exc()[-400:]],
                        ndeps=0, objects=0, features=0, changed=False, counters={}, kinds=set(), wd=job["wd"], tol_used=0, removal="?", pinned={})

    results = common.pmap(work, jobs)
    ndeps = 0
    keycount = {}
    for job, res in zip(jobs, results):
        c.count()
        c.bump("programs_" + job["kind"])
        ndeps += res["ndeps"]
        c.bump("deps_reports_checked", res["ndeps"])
        c.bump("objects_seen_in_deps_reports", res["objects"])
        c.bump("enabled_features_seen_in_deps_reports", res["features"])
        for k, n in res["counters"].items():
            c.bump(k, n)
        if res["tol_used"]:
            c.bump("differences_within_1e-13_after_slot_reordering", res["tol_used"])
        for k in sorted(res["kinds"]):
            if k.startswith("var:"):
                c.note_set("variable_templates_defined", k[4:])
            elif k.startswith("bias:"):
                c.note_set("bias_kinds_defined", k[5:])
            else:
                c.note_set("command_kinds_executed", k)
        if res["changed"]:
            c.nontrivial(res["prog"])
        for text in res["inconc"]:
            c.inconc(text)
        seen_here = set()
        for key, text, files in res["viol"]:
            if key in seen_here:
                continue          # the same finding repeats after every later command of the same program
            seen_here.add(key)
            keycount[key] = keycount.get(key, 0) + 1
            if keycount[key] <= 2:
                c.violation(key, text, files)   # at most two witnesses per class are written out
        for cls, n in sorted(res.get("pinned", {}).items()):
            c.bump("references_leaked_by_rejected_definitions_entries", n)
            c.note_set("references_leaked_by_rejected_definitions_classes", cls)
        if job["kind"] == "random" and res["changed"]:
            c.sample({"program": res["prog"], "tfmode": job["tfmode"], "deps_reports": res["ndeps"], "survivors": res.get("nsurv")}, cap=4)
        shutil.rmtree(res["wd"], ignore_errors=True)
    if keycount:
        c.extra["programs_per_violation_key"] = dict(sorted(keycount.items()))
    c.exhaustive = True
    c.extra["exhaustive_max_length"] = maxlen
    c.extra["exhaustive_programs"] = nex
    c.extra["random_programs"] = len(jobs) - nex
    c.extra["random_max_length"] = maxrand
    c.extra["further_steps"] = NFURTHER
    floor = c.evaluations >= 300 and ndeps >= 2000 and c.extra.get("control_comparisons", 0) >= 100 and c.extra.get("fresh_comparisons", 0) >= 200
    return c.finish(floor, "%d programs, %d deps reports, %d control / %d fresh comparisons"
                    % (c.evaluations, ndeps, c.extra.get("control_comparisons", 0), c.extra.get("fresh_comparisons", 0)))
