"""C03 - a run resumed from a saved state is indistinguishable from an uninterrupted one.

History A: steps 0..T in one process.  History B(K): steps 0..K, end of run (state file written by
post_run()), FRESH process, state loaded by the engine's first-call sequence, step K repeated as
step 0 of the new segment (as engines do), then K+1..T.  Oracle: every engine-visible event of
steps > K and the final state agree (integers exactly, reals to 1e-10 relative: the state format
itself rounds to 14 significant digits).  Also: save(load(S)) == S.
"""
import os
import re

import common
import ctl
from common import fnum, fl

RTOL = 1.0e-10


def fam_list():
    """(name, config text, tfmode, needs temperature, vars used, walk ranges)"""
    F = []
    d1 = ctl.cv_d1()
    d1v = ctl.cv_d1(extra="  outputVelocity on\n  outputAppliedForce on\n")
    d2 = ctl.cv_d2()
    F.append(("harm_fixed", d1 + "harmonic {\n colvars d1\n centers 4.0\n forceConstant 10.0\n}\n", "off"))
    F.append(("harm_move", d1v + "harmonic {\n colvars d1\n centers 3.0\n targetCenters 7.0\n targetNumSteps 16\n forceConstant 4.0\n outputCenters on\n outputAccumulatedWork on\n}\n", "off"))
    F.append(("harm_kmove", d1 + "harmonic {\n colvars d1\n centers 4.0\n forceConstant 2.0\n targetForceConstant 12.0\n targetNumSteps 16\n outputAccumulatedWork on\n}\n", "off"))
    F.append(("harm_staged", d1 + "harmonic {\n colvars d1\n centers 3.0\n targetCenters 7.0\n targetNumSteps 4\n targetNumStages 4\n forceConstant 4.0\n outputCenters on\n}\n", "off"))
    F.append(("harm_kstaged", d1 + "harmonic {\n colvars d1\n centers 4.0\n forceConstant 0.0\n targetForceConstant 8.0\n targetNumSteps 5\n targetNumStages 4\n targetEquilSteps 2\n lambdaExponent 2\n}\n", "off"))
    F.append(("walls_kmove", d1 + "harmonicWalls {\n colvars d1\n lowerWalls 3.0\n upperWalls 6.0\n forceConstant 5.0\n targetForceConstant 10.0\n targetNumSteps 12\n}\n", "off"))
    F.append(("linear", d1 + "linear {\n colvars d1\n centers 4.0\n forceConstant 1.5\n}\n", "off"))
    F.append(("abf_same", d1 + "abf {\n colvars d1\n fullSamples 2\n}\n", "same"))
    F.append(("abf_prev", d1 + "abf {\n colvars d1\n fullSamples 2\n}\n", "prev"))
    # one periodic variable whose grid spans the period: the biasing force is made zero-mean with the grid average of the gradients
    F.append(("abf_periodic_prev", ctl.cv_d2(cvc_extra="    period 8.0\n") + "abf {\n colvars d2\n fullSamples 2\n}\n", "prev"))
    F.append(("abf_periodic_same", ctl.cv_d2(cvc_extra="    period 8.0\n") + "abf {\n colvars d2\n fullSamples 1\n}\n", "same"))
    F.append(("abf2d_prev", d1 + d2 + "abf {\n colvars d1 d2\n fullSamples 1\n}\n", "prev"))
    F.append(("abf_harm_prev", d1 + "abf {\n colvars d1\n fullSamples 2\n}\nharmonic {\n colvars d1\n centers 5.0\n forceConstant 1.0\n}\n", "prev"))
    F.append(("eabf_prev", ctl.cv_d1(extra="  extendedLagrangian on\n  extendedFluctuation 0.25\n  extendedTimeConstant 50\n  extendedLangevinDamping 0\n")
              + "abf {\n colvars d1\n fullSamples 2\n}\n", "prev"))
    F.append(("extlag_harm", ctl.cv_d1(extra="  extendedLagrangian on\n  extendedFluctuation 0.25\n  extendedTimeConstant 50\n  extendedLangevinDamping 0\n  outputVelocity on\n")
              + "harmonic {\n colvars d1\n centers 5.0\n forceConstant 2.0\n}\n", "off"))
    F.append(("meta_grid", d1 + "metadynamics {\n colvars d1\n hillWeight 0.5\n newHillFrequency 3\n hillWidth 2.0\n}\n", "off"))
    F.append(("meta_nogrid", d1 + "metadynamics {\n colvars d1\n hillWeight 0.5\n newHillFrequency 3\n hillWidth 2.0\n useGrids off\n}\n", "off"))
    F.append(("meta_keep", d1 + "metadynamics {\n colvars d1\n hillWeight 0.5\n newHillFrequency 3\n hillWidth 2.0\n keepHills on\n}\n", "off"))
    F.append(("meta_gridfreq", d1 + "metadynamics {\n colvars d1\n hillWeight 0.5\n newHillFrequency 2\n gridsUpdateFrequency 6\n hillWidth 2.0\n}\n", "off"))
    F.append(("meta_wt", d1 + "metadynamics {\n colvars d1\n hillWeight 0.5\n newHillFrequency 3\n hillWidth 2.0\n wellTempered on\n biasTemperature 2000\n}\n", "off"))
    F.append(("meta_expand", ctl.cv_d1(extra="  expandBoundaries on\n") + "metadynamics {\n colvars d1\n hillWeight 0.5\n newHillFrequency 2\n hillWidth 2.0\n}\n", "off"))
    F.append(("meta_2d", d1 + d2 + "metadynamics {\n colvars d1 d2\n hillWeight 0.5\n newHillFrequency 3\n hillWidth 2.0\n}\n", "off"))
    F.append(("opes", d1 + "opes_metad {\n colvars d1\n newHillFrequency 3\n barrier 5.0\n gaussianSigma 0.3\n}\n", "off"))
    # wide kernels deposited often: most deposits are merged into an existing kernel (compression), so the kernel
    # list changes without changing its length
    F.append(("opes_merge", d1 + "opes_metad {\n colvars d1\n newHillFrequency 1\n barrier 5.0\n gaussianSigma 1.5\n}\n", "off"))
    F.append(("opes_merge2d", d1 + d2 + "opes_metad {\n colvars d1 d2\n newHillFrequency 2\n barrier 8.0\n gaussianSigma 2.0 2.5\n}\n", "off"))
    F.append(("abmd", d1 + "abmd {\n colvars d1\n forceConstant 5.0\n stoppingValue 7.5\n}\n", "off"))
    F.append(("histogram", d1 + "histogram {\n colvars d1\n}\n", "off"))
    F.append(("histogram_2d", d1 + d2 + "histogram {\n colvars d1 d2\n}\n", "off"))
    # several biases of the same type with different state parameters (text states are matched to biases by name)
    F.append(("two_harm_move", d1 + d2 +
              "harmonic {\n name hA\n colvars d1\n centers 3.0\n targetCenters 7.0\n targetNumSteps 16\n forceConstant 4.0\n outputCenters on\n outputAccumulatedWork on\n}\n"
              "harmonic {\n name hB\n colvars d2\n centers -2.0\n targetCenters 3.0\n targetNumSteps 10\n forceConstant 1.5\n outputCenters on\n outputAccumulatedWork on\n}\n"
              "harmonic {\n name hC\n colvars d1\n centers 5.0\n forceConstant 0.5\n}\n", "off"))
    F.append(("two_abmd", d1 + d2 + "abmd {\n name aA\n colvars d1\n forceConstant 5.0\n stoppingValue 7.5\n}\n"
              "abmd {\n name aB\n colvars d2\n forceConstant 2.0\n stoppingValue 3.0\n}\n", "off"))
    F.append(("two_meta", d1 + d2 + "metadynamics {\n name mA\n colvars d1\n hillWeight 0.5\n newHillFrequency 3\n hillWidth 2.0\n}\n"
              "metadynamics {\n name mB\n colvars d2\n hillWeight 0.25\n newHillFrequency 2\n hillWidth 1.5\n keepHills on\n}\n", "off"))
    # adaptive linear bias, reweighted histogram of accelerated MD (the engine supplies the weight), thermodynamic integration
    # with the previous-step force convention
    F.append(("alb", d1 + "alb {\n colvars d1\n centers 4.0\n updateFrequency 4\n forceRange 1.0\n rateMax 0.5\n}\n", "off"))
    # soft force range: range (and whatever follows it) grows during the run once the coupling constant exceeds it
    F.append(("alb_soft", d1 + "alb {\n colvars d1\n centers 4.0\n updateFrequency 4\n forceRange 0.01\n rateMax 0.004\n hardForceRange off\n}\n", "off"))
    F.append(("alb_2d", d1 + d2 + "alb {\n colvars d1 d2\n centers 4.0 1.5\n updateFrequency 4\n forceRange 1.0 2.0\n rateMax 0.5 0.5\n}\n", "off"))
    F.append(("histrest", "colvar {\n  name hv\n  distancePairs {\n    group1 { atomNumbers 1 3 }\n    group2 { atomNumbers 2 4 }\n  }\n}\n"
              "histogramRestraint {\n colvars hv\n lowerBoundary 0.0\n upperBoundary 40.0\n width 5.0\n gaussianSigma 2.0\n"
              " refHistogram 0.01 0.02 0.03 0.04 0.05 0.03 0.01 0.01\n forceConstant 2.0\n outputEnergy on\n}\n", "off"))
    F.append(("reweight_amd", "#esim accelmd 2.5\n" + d1 + "reweightaMD {\n colvars d1\n}\n", "off"))
    F.append(("harm_ti_prev", d1 + "harmonic {\n colvars d1\n centers 5.0\n forceConstant 1.0\n writeTISamples on\n writeTIPMF on\n}\n", "prev"))
    F.append(("meta_harm_ti", d1 + "metadynamics {\n colvars d1\n hillWeight 0.5\n newHillFrequency 3\n hillWidth 2.0\n writeTIPMF on\n}\n", "same"))
    return F


def history(rng, T):
    w1 = ctl.tour(rng, T, 2.0, 8.0)
    w2 = ctl.tour(rng, T, -4.0, 4.0)
    fx = [ctl.dy(rng, -8, 8) for _ in range(T + 1)]
    fz = [ctl.dy(rng, -8, 8) for _ in range(T + 1)]
    return dict(d1=w1, d2=w2, fx=fx, fz=fz)


def step_lines(h, t):
    s = ctl.pos_line(d1=h["d1"][t], d2=h["d2"][t]) + "\n"
    # physical forces: +fx on atom 2 / -fx on atom 1 (projected total force on d1 = fx), same on d2
    f = [[0.0, 0.0, 0.0] for _ in range(ctl.NATOMS)]
    f[1][0] = h["fx"][t]
    f[0][0] = -h["fx"][t]
    f[2][2] = h["fz"][t]
    f[3][2] = -h["fz"][t]
    s += "fext " + " ".join(fnum(x) for q in f for x in q) + "\n"
    s += "step\n"
    return s


def hdr_extra(cfg):
    """engine-side settings a family needs: comment lines `#esim <command>` at the top of its configuration"""
    return "".join("\n" + l[6:].strip() for l in cfg.splitlines() if l.startswith("#esim "))


def scen_A(cfg, tfmode, h, T, binary, save_at=None, newrun_at=None):
    """uninterrupted run; save_at: a state is written (and discarded) after that step, as an engine writing restart files does;
    newrun_at: the engine's run ends after that step and a new run of the same session begins by computing that step again"""
    s = ctl.header(tfmode, extra="dt 1.0\ntemp 300.0" + hdr_extra(cfg) + ("\nenv COLVARS_BINARY_RESTART 1" if binary else "\nenv COLVARS_BINARY_RESTART 0"))
    s += "module\nconfig <<EOC\n" + cfg + "EOC\ninit\n"
    for t in range(T + 1):
        s += step_lines(h, t)
        if save_at is not None and t == save_at:
            s += "savestr\n"
        if newrun_at is not None and t == newrun_at:
            s += "endrun\nnewrun\n" + step_lines(h, t)
    s += "savestr\n"
    return s


# families in which writing a state is known to change the later steps (known finding): the resumed run is compared with an
# uninterrupted run that wrote a (discarded) state at the same step, and the effect of the write itself is judged separately
STATE_WRITE_SIDE_EFFECT = ("meta_gridfreq",)


def scen_B1(cfg, tfmode, h, K, binary, prefix):
    s = ctl.header(tfmode, extra="dt 1.0\ntemp 300.0" + hdr_extra(cfg) + ("\nenv COLVARS_BINARY_RESTART 1" if binary else "\nenv COLVARS_BINARY_RESTART 0"))
    s += "module\nprefix %s\nconfig <<EOC\n%sEOC\ninit\n" % (prefix, cfg)
    for t in range(K + 1):
        s += step_lines(h, t)
    s += "endrun\nsavestr\n"
    return s


def scen_B2(cfg, tfmode, h, K, T, binary, prefix, via, used=False):
    """used: the instance that loads the state is not fresh: it has run the first steps of the same history, the state is loaded
    between two runs of the engine (as with `run; cv load; run` in an engine's script) and replaces what it had accumulated"""
    s = ctl.header(tfmode, extra="dt 1.0\ntemp 300.0" + hdr_extra(cfg) + ("\nenv COLVARS_BINARY_RESTART 1" if binary else "\nenv COLVARS_BINARY_RESTART 0"))
    s += "module\nconfig <<EOC\n%sEOC\n" % cfg
    if via == "file":
        s += "inprefix %s\ninit\n" % prefix
    elif used:
        s += "init\n" + "".join(step_lines(h, t) for t in range(0, min(3, K) + 1)) + "endrun\n" + via + "newrun\n"
    else:
        s += "init\n" + via  # loadstr / loadbuf text prepared by the caller
    s += "savestr\n"
    for t in range(K, T + 1):
        s += step_lines(h, t)
    s += "savestr\n"
    return s


NUM = re.compile(r"^[-+]?(\d+\.?\d*|\.\d+)([eE][-+]?\d+)?$")


def cmp_state(a, b, rtol):
    """token-wise comparison of two state strings; returns None or a description"""
    ta, tb = a.split(), b.split()
    if len(ta) != len(tb):
        return "different number of tokens (%d vs %d)" % (len(ta), len(tb))
    for i, (x, y) in enumerate(zip(ta, tb)):
        if x == y:
            continue
        if NUM.match(x) and NUM.match(y):
            isint = re.match(r"^[-+]?\d+$", x) and re.match(r"^[-+]?\d+$", y)
            fx, fy = float(x), float(y)
            if isint:
                return "integer token %d: %s vs %s (context: %s)" % (i, x, y, " ".join(ta[max(0, i - 6):i + 2]))
            if abs(fx - fy) > rtol * max(1.0, abs(fx), abs(fy)):
                return "real token %d: %s vs %s (context: %s)" % (i, x, y, " ".join(ta[max(0, i - 6):i + 2]))
        else:
            return "token %d: %r vs %r" % (i, x, y)
    return None


def cmp_val(a, b, rtol, path=""):
    if isinstance(a, dict) and isinstance(b, dict):
        if set(a) != set(b):
            return "%s: keys differ %s vs %s" % (path, sorted(a), sorted(b))
        for k in a:
            r = cmp_val(a[k], b[k], rtol, path + "/" + k)
            if r:
                return r
        return None
    if isinstance(a, list) and isinstance(b, list):
        if len(a) != len(b):
            return "%s: lengths differ" % path
        for i, (x, y) in enumerate(zip(a, b)):
            r = cmp_val(x, y, rtol, "%s[%d]" % (path, i))
            if r:
                return r
        return None
    if isinstance(a, bool) or isinstance(a, int) and isinstance(b, int):
        return None if a == b else "%s: %r vs %r" % (path, a, b)
    try:
        fa, fb = fl(a), fl(b)
    except (TypeError, ValueError):
        return None if a == b else "%s: %r vs %r" % (path, a, b)
    if fa != fa and fb != fb:
        return None
    if abs(fa - fb) > rtol * max(1.0, abs(fa), abs(fb)):
        return "%s: %.17g vs %.17g" % (path, fa, fb)
    return None


STEP_FIELDS = ("it", "en", "cv", "bias", "af", "err", "nact")


def run(tier, replay):
    c = common.Check("C03", tier)
    c.use_flavour("plain")
    c.rule = ("for each bias family x state format x stop step K: uninterrupted history vs stop/save/fresh process/load/"
              "resume; distinct = (family, format, K) with a non-empty post-K history whose events were all compared")
    c.assumptions = ["positions and physical forces are imposed by the simulator, so no chaotic amplification: reals must "
                     "agree to 1e-10 relative (state files carry 14 significant digits), integers exactly",
                     "step K is recomputed in the new process with step_relative()==0, as NAMD/LAMMPS do"]
    common.vbuild.ensure("plain", tools=["esim"])
    T = 24 if tier == "quick" else 40
    fams = fam_list()
    if os.environ.get("C03_FAMS"):
        fams = [f for f in fams if f[0] in os.environ["C03_FAMS"].split(",")]
    formats = [False, True]
    jobs = []
    for fi, (name, cfg, tfm) in enumerate(fams):
        h = history(c.rng.__class__(c.seed * 131 + fi), T)
        Ks = list(range(0, T + 1)) if tier != "quick" else sorted(set([0, 1, 2, 3, 5, 6, 7, 11, 12, 13, 16, 17, 20, T - 1, T]))
        if tier == "quick":
            # every K for text, the listed ones for binary
            pass
        for binary in formats:
            kk = list(range(0, T + 1)) if (not binary or tier != "quick") else Ks
            jobs.append(dict(kind="A", fam=name, cfg=cfg, tfm=tfm, h=h, binary=binary, fi=fi))
            for K in kk:
                jobs.append(dict(kind="B", fam=name, cfg=cfg, tfm=tfm, h=h, binary=binary, K=K, fi=fi,
                                 via=("file" if (K % 5 != 4 or tier == "quick" and binary) else ("str" if not binary else "buf"))))
                if jobs[-1]["via"] != "file" and K % 10 == 9:
                    jobs[-1]["used"] = True
                if not binary and K % 4 == 2 and K < T and name not in STATE_WRITE_SIDE_EFFECT:
                    # the degenerate resume: the run stops after step K and a new run follows in the same session (no reload)
                    jobs.append(dict(kind="N", fam=name, cfg=cfg, tfm=tfm, h=h, binary=binary, K=K, fi=fi))

    def do(job):
        wd = os.path.join(c.work, "%s_%d" % (job["fam"], int(job["binary"])))
        if job["kind"] == "A":
            r, ev, sp = common.run_esim("plain", scen_A(job["cfg"], job["tfm"], job["h"], T, job["binary"]), wd, "A", timeout=300)
            return dict(r=r, ev=ev, sp=[sp])
        K = job["K"]
        if job["kind"] == "N":
            r, ev, sp = common.run_esim("plain", scen_A(job["cfg"], job["tfm"], job["h"], T, job["binary"], newrun_at=K), wd, "N_%d" % K, timeout=300)
            return dict(r=r, ev=ev, sp=[sp])
        prefix = os.path.join(wd, "b1_%d" % K)
        s1 = scen_B1(job["cfg"], job["tfm"], job["h"], K, job["binary"], prefix)
        via = job["via"]
        if via != "file":
            s1 += "savebuf\n" if via == "buf" else ""
        r1, ev1, sp1 = common.run_esim("plain", s1, wd, "B1_%d" % K, timeout=300)
        if not r1["complete"]:
            return dict(r=r1, ev=ev1, sp=[sp1], stage="B1")
        if via == "file":
            v = "file"
        elif via == "str":
            st = [e for e in ev1 if e["ev"] == "savestr"][-1]["state"]
            v = "loadstr <<EOS\n" + st + ("" if st.endswith("\n") else "\n") + "EOS\n"
        else:
            hx = [e for e in ev1 if e["ev"] == "savebuf"][-1]["hex"]
            v = "loadbuf " + hx + "\n"
        r2, ev2, sp2 = common.run_esim("plain", scen_B2(job["cfg"], job["tfm"], job["h"], K, T, job["binary"], prefix, v, used=job.get("used", False)),
                                       wd, "B2_%d" % K, timeout=300)
        out = dict(r=r2, ev=ev2, sp=[sp1, sp2], ev1=ev1, stage="B2")
        if job["fam"] in STATE_WRITE_SIDE_EFFECT:
            ra, eva, spa = common.run_esim("plain", scen_A(job["cfg"], job["tfm"], job["h"], T, job["binary"], save_at=K), wd, "AK_%d" % K, timeout=300)
            out["ak"] = dict(r=ra, ev=eva, sp=[spa])
        return out

    res = common.pmap(do, jobs)
    A = {}
    for job, out in zip(jobs, res):
        if job["kind"] == "A":
            A[(job["fam"], job["binary"])] = out
    for job, out in zip(jobs, res):
        fam, binary = job["fam"], job["binary"]
        fmt = "binary" if binary else "text"
        if job["kind"] == "A":
            c.count()
            cfg_ev = [e for e in out["ev"] if e["ev"] == "config"]
            if not out["r"]["complete"] or (cfg_ev and cfg_ev[0]["rc"] != 0):
                if out["r"]["sig"]:
                    c.violation("crash_uninterrupted:%s:%s" % (fam, fmt), "signal %d in uninterrupted run: %s" % (out["r"]["sig"], out["r"]["err"][-300:]), out["sp"])
                else:
                    c.inconc("family %s rejected/failed: %s" % (fam, (cfg_ev[0]["errs"] if cfg_ev else out["r"]["err"][-200:])))
                    c.note_set("families_rejected", fam)
            continue
        a = A.get((fam, binary))
        if not a or not a["r"]["complete"]:
            continue
        c.count()
        K = job["K"]
        if job["kind"] == "N":
            if not out["r"]["complete"]:
                if out["r"]["sig"] or out["r"]["timeout"]:
                    c.violation("crash_on_new_run:%s" % fam, "K=%d: signal %s timeout %s: %s" % (K, out["r"]["sig"], out["r"]["timeout"], out["r"]["err"][-400:]), out["sp"])
                else:
                    c.inconc("two-run session incomplete %s K=%d: %s" % (fam, K, out["r"]["err"][-200:]))
                continue
            sa = {e["it"]: e for e in a["ev"] if e["ev"] == "step"}
            bad = None
            seen_k = 0
            n_ = 0
            for e in [x for x in out["ev"] if x["ev"] == "step"]:
                if e["it"] == K:
                    seen_k += 1
                if e["it"] <= K:
                    continue
                for f in STEP_FIELDS:
                    d = cmp_val(sa[e["it"]].get(f), e.get(f), RTOL, f)
                    if d:
                        bad = "step %d: %s" % (e["it"], d)
                        break
                if bad:
                    break
                n_ += 1
            if seen_k != 2:
                c.inconc("two-run session %s K=%d: step K seen %d times" % (fam, K, seen_k))
                continue
            if not bad:
                fa_ = [e for e in a["ev"] if e["ev"] == "savestr"][-1]["state"]
                fn_ = [e for e in out["ev"] if e["ev"] == "savestr"][-1]["state"]
                d = cmp_state(fa_, fn_, RTOL)
                if d:
                    bad = "final state: " + d
            if bad:
                c.violation("diverges_after_new_run:%s" % fam, "the run ends after step K=%d and a new run of the same session begins by computing step K again "
                            "(nothing saved or loaded); compared with the single run: %s" % (K, bad), out["sp"] + a["sp"])
                continue
            c.bump("two_run_sessions_equal")
            c.bump("post_stop_steps_compared", n_)
            continue
        if out.get("ak") and out["ak"]["r"]["complete"]:
            # does the write itself change the later steps?  (uninterrupted run with vs without a discarded state at step K)
            a_plain = a
            a = out["ak"]
            pa = {e["it"]: e for e in a_plain["ev"] if e["ev"] == "step"}
            for e in [x for x in a["ev"] if x["ev"] == "step" and x["it"] > K]:
                d = None
                for f in STEP_FIELDS:
                    d = cmp_val(pa[e["it"]].get(f), e.get(f), RTOL, f)
                    if d:
                        break
                if d:
                    c.violation("state_write_changes_later_steps:%s:%s" % (fam, "binary" if binary else "text"),
                                "K=%d: an uninterrupted run that writes (and discards) a state after step K differs from one that does not: "
                                "step %d: %s" % (K, e["it"], d), a["sp"] + a_plain["sp"])
                    break
        via = job["via"] + ("+used_instance" if job.get("used") else "")
        key = "%s:%s:%s" % (fam, fmt, via)
        if not out["r"]["complete"]:
            if out["r"]["sig"] or out["r"]["timeout"]:
                c.violation("crash_on_resume:" + key, "stage %s K=%d: signal %s timeout %s: %s" % (out.get("stage"), K, out["r"]["sig"], out["r"]["timeout"], out["r"]["err"][-400:]), out["sp"])
            else:
                c.inconc("split run incomplete %s K=%d stage %s: %s" % (key, K, out.get("stage"), out["r"]["err"][-200:]))
            continue
        ev2 = out["ev"]
        load = [e for e in ev2 if e["ev"] in ("init", "load")]
        if any(e.get("err") or e.get("rc") for e in load):
            c.violation("load_error:" + key, "K=%d: loading the state just written reports an error: %s" % (K, [e.get("errs") for e in load]), out["sp"])
            continue
        sv2 = [e for e in ev2 if e["ev"] == "savestr"]
        sv1 = [e for e in out["ev1"] if e["ev"] == "savestr"]
        # (1) save(load(S)) == S  (compared in the text domain)
        d = cmp_state(sv1[-1]["state"], sv2[0]["state"], 1e-13)
        if d and not os.environ.get("C03_DEBUG_SKIP_IDENTITY"):
            c.violation("save_load_identity:" + key, "K=%d: %s" % (K, d), out["sp"])
            continue
        if sv2[0]["it"] != K:
            c.violation("step_not_restored:" + key, "K=%d but module step after load is %d" % (K, sv2[0]["it"]), out["sp"])
            continue
        # (2) events of steps > K
        sa = {e["it"]: e for e in a["ev"] if e["ev"] == "step"}
        sb = [e for e in ev2 if e["ev"] == "step"]
        bad = None
        ncmp = 0
        for e in sb:
            if e["it"] <= K:
                continue
            ea = sa.get(e["it"])
            if ea is None:
                bad = "step %d missing in the uninterrupted run" % e["it"]
                break
            for f in STEP_FIELDS:
                d = cmp_val(ea.get(f), e.get(f), RTOL, f)
                if d:
                    bad = "step %d: %s" % (e["it"], d)
                    break
            if bad:
                break
            ncmp += 1
        if bad:
            c.violation("diverges_after_resume:" + key, "K=%d: %s" % (K, bad), out["sp"] + a["sp"])
            continue
        # (3) final state
        fa = [e for e in a["ev"] if e["ev"] == "savestr"][-1]["state"]
        d = cmp_state(fa, sv2[-1]["state"], RTOL)
        if d:
            c.violation("final_state_differs:" + key, "K=%d: %s" % (K, d), out["sp"] + a["sp"])
            continue
        c.bump("post_stop_steps_compared", ncmp)
        if ncmp > 0 or K == T:
            c.nontrivial("%s|%s|%d" % (fam, fmt, K))
            c.note_set("families_covered", fam)
        if K in (0, 7, T):
            c.sample({"family": fam, "format": fmt, "K": K, "via": via, "post_stop_steps_compared": ncmp}, cap=8)
    c.exhaustive = (tier != "quick")
    c.extra["T"] = T
    nf = len(c.extra.get("families_covered", []))
    return c.finish(nf >= 22 and len(c.distinct) >= 300, "%d families, %d distinct (family, format, K)" % (nf, len(c.distinct)))
