"""C19 - written outputs describe the internal state at the stated step.

Part A (trajectory file).  Random scenarios: several variables of different value types (scalar, 3-vector,
unit vector, quaternion, generic vector, an extended-Lagrangian scalar) with random output flags, biases with
outputEnergy / outputCenters / outputAccumulatedWork, random colvarsTrajFrequency, a non-zero initial step,
several run segments (the engine repeats the boundary step), objects added / deleted between and inside
segments, the output prefix changed at a run boundary.  The monitor parses every <prefix>.colvars.traj:

  * every data line has exactly as many columns as the nearest preceding label line announces, and each column
    holds the quantity its label names, compared at printed precision with the engine-side record of THAT
    step (the step event: value, velocity, total / applied force, extended-Lagrangian energies, bias energy) and
    with the state saved right after that step (restraint centres, accumulated work);
  * the data lines are, in order, exactly the computed steps whose absolute number is a multiple of
    colvarsTrajFrequency: one line per such step of each run (the boundary step belongs to both runs, which both
    compute it), none missing, none duplicated.

Part B (derived quantities).  Variables with runAve / corrFunc options; the value (velocity) sequence recorded
in the step events is fed to refmodel/analysis.py (textbook definitions written from the manual) and compared
with <prefix>.<name>.runave.traj and <prefix>.<name>.corrfunc.dat, tolerance 1e-10 relative.
"""
import json
import math
import os
import re

import numpy as np

import common
import corpus
from common import fnum, fl

import sys
sys.path.insert(0, os.path.join(common.VERIF, "refmodel"))
import analysis  # noqa: E402

PTOL = 1.0e-13    # printed precision (15 significant digits)
ATOL = 1.0e-10    # derived quantities

TOK = re.compile(r"\([^()]*\)|[^\s()]+")


def parse_token(tok):
    """'1.5e+00' -> [1.5];  '( a , b , c )' -> [a, b, c];  None if not numeric"""
    try:
        if tok.startswith("("):
            return [float(x) for x in tok[1:-1].split(",")]
        return [float(tok)]
    except ValueError:
        return None


def close(p, e, tol):
    if p != p or e != e:
        return (p != p) and (e != e)
    return abs(p - e) <= tol * max(abs(p), abs(e)) + 1e-300


def vclose(p, e, tol, scale=None):
    if p is None or e is None or len(p) != len(e):
        return False
    if scale is None:
        return all(close(a, fl(b), tol) for a, b in zip(p, e))
    return all(abs(a - fl(b)) <= tol * scale for a, b in zip(p, e))


def once(c, key):
    """one witness per violation key and run; further instances are only counted"""
    seen = c.extra.setdefault("_keys_seen", set())
    if key in seen:
        c.bump("further_instances_of_reported_keys")
        d = c.extra.setdefault("instances_by_key", {})
        d[key] = d.get(key, 1) + 1
        return True
    seen.add(key)
    return False


def read_traj(path):
    """-> list of ('label', [names]) / ('data', step, [tokens], raw line)"""
    out = []
    if not os.path.exists(path):
        return None
    for line in open(path, errors="replace"):
        line = line.rstrip("\n")
        if not line.strip():
            continue
        if line.lstrip().startswith("#"):
            names = line.replace("#", " ", 1).split()
            out.append(("label", names, line))
        else:
            toks = TOK.findall(line)
            out.append(("data", toks, line))
    return out


# -------------------------------------------------------------------------------------------------------------
# Part A: scenario generation
# -------------------------------------------------------------------------------------------------------------

NAT = 34
CV_KINDS = [("distance", "scalar"), ("angle", "scalar"), ("distanceVec", "vec3"), ("distanceDir", "unit3"),
            ("orientation", "quat"), ("cartesian", "vector"), ("distancePairs", "vector"), ("ext", "scalar"),
            ("zperiodic", "scalar")]


def make_cv(rng, sysm, pool, name, kind):
    """-> dict(name, text, vtype, dim, flags, ext)"""
    flags = {"value": rng.random() > 0.15, "vel": rng.random() < 0.5, "fa": rng.random() < 0.6,
             "ft": False, "energy": False}
    extra = []
    ext = (kind == "ext")
    ctype = "distance" if ext else kind
    copts = {}
    if kind == "zperiodic":
        # a periodic scalar whose value crosses the seam of its interval every few steps (period of the order of the motion)
        ctype = "distanceZ"
        copts = {"period": rng.choice([0.5, 1.0, 2.0]), "axis": "axis"}
        flags["vel"] = True
    if ctype in ("distance", "angle") and not ext and rng.random() < 0.6:
        flags["ft"] = True
    if ext:
        flags["energy"] = rng.random() < 0.7
        extra += ["extendedLagrangian on", "extendedFluctuation 0.25", "extendedTimeConstant 40",
                  "extendedLangevinDamping %s" % rng.choice(["0", "1.0"])]
        if flags["energy"]:
            extra.append("outputEnergy on")
    if not flags["value"]:
        extra.append("outputValue off")
    if flags["vel"]:
        extra.append("outputVelocity on")
    if flags["ft"]:
        extra.append("outputTotalForce on")
    if flags["fa"]:
        extra.append("outputAppliedForce on")
    cv = corpus.make_colvar(rng, sysm, pool, name, ctype, copts, extra_lines=extra)
    cv["flags"] = flags
    cv["ext"] = ext
    cv["zperiod"] = copts.get("period")
    return cv


def make_bias(rng, cv, bname, allow_centers=True):
    """harmonic (any type) / harmonicWalls / linear / metadynamics (scalars) on one variable"""
    vt = cv["vtype"]
    kinds = ["harmonic", "harmonic_moving"]
    if vt == "scalar":
        kinds += ["walls", "linear", "meta", "harmonic_kmoving"]
    if cv.get("zperiod"):
        kinds = ["harmonic", "meta"]          # (walls and linear biases are refused on periodic variables)
    kind = rng.choice(kinds)
    en = rng.random() < 0.75
    b = dict(name=bname, cv=cv["name"], kind=kind, energy=en, centers=False, work=False)
    lines = ["  name %s" % bname, "  colvars %s" % cv["name"]]
    if en:
        lines.append("  outputEnergy on")

    def val(v):
        return corpus.value_str(vt, v if vt != "scalar" else v)

    if kind in ("harmonic", "harmonic_moving", "harmonic_kmoving"):
        c0 = corpus.random_value(rng, cv)
        lines.append("  centers %s" % val(c0))
        lines.append("  forceConstant %s" % fnum(round(rng.uniform(0.5, 4.0), 3)))
        if kind == "harmonic_moving":
            c1 = corpus.random_value(rng, cv)
            lines.append("  targetCenters %s" % val(c1))
            lines.append("  targetNumSteps %d" % rng.choice([10, 17, 40]))
            if allow_centers and rng.random() < 0.8:
                b["centers"] = True
                lines.append("  outputCenters on")
            if rng.random() < 0.7:
                b["work"] = True
                lines.append("  outputAccumulatedWork on")
        elif kind == "harmonic_kmoving":
            k0_ = float(lines[-1].split()[-1])
            k1_ = 0.0 if rng.random() < 0.35 else round(rng.uniform(4.0, 9.0), 3)     # schedules ending at exactly zero included
            n_ = rng.choice([10, 17, 40])
            lines.append("  targetForceConstant %s" % fnum(k1_))
            lines.append("  targetNumSteps %d" % n_)
            b["km"] = dict(k0=k0_, k1=k1_, N=n_, c0=c0)
            if rng.random() < 0.7:
                b["work"] = True
                lines.append("  outputAccumulatedWork on")
        elif allow_centers and rng.random() < 0.3:
            b["centers"] = True
            lines.append("  outputCenters on")
        text = "harmonic {\n%s\n}\n" % "\n".join(lines)
    elif kind == "walls":
        # walls placed around a typical value of the variable: it spends time below the lower wall, between the walls or above
        v0_ = corpus.random_value(rng, cv)
        v0_ = float(v0_[0] if isinstance(v0_, (list, tuple)) else v0_)
        side_ = rng.choice(["below", "below", "between", "above"])
        if side_ == "below":
            lw_ = round(v0_ + rng.uniform(0.1, 0.6), 3)
            uw_ = round(lw_ + rng.uniform(1.0, 2.0), 3)
        elif side_ == "above":
            uw_ = round(v0_ - rng.uniform(0.1, 0.6), 3)
            lw_ = round(uw_ - rng.uniform(1.0, 2.0), 3)
        else:
            lw_, uw_ = round(v0_ - rng.uniform(0.2, 0.8), 3), round(v0_ + rng.uniform(0.2, 0.8), 3)
        kl_ = ku_ = round(rng.uniform(0.5, 4.0), 3)
        lines += ["  lowerWalls %s" % fnum(lw_), "  upperWalls %s" % fnum(uw_)]
        if rng.random() < 0.7:
            # separate constants for the two walls
            ku_ = round(kl_ * rng.choice([0.25, 0.5, 2.0, 4.0]), 3)
            lines += ["  lowerWallConstant %s" % fnum(kl_), "  upperWallConstant %s" % fnum(ku_)]
        else:
            lines += ["  forceConstant %s" % fnum(kl_)]
        b["walls"] = dict(lw=lw_, uw=uw_, kl=kl_, ku=ku_)
        text = "harmonicWalls {\n%s\n}\n" % "\n".join(lines)
    elif kind == "linear":
        lines += ["  centers %s" % fnum(round(rng.uniform(0.5, 4.0), 3)), "  forceConstant %s" % fnum(round(rng.uniform(-2.0, 2.0), 3))]
        text = "linear {\n%s\n}\n" % "\n".join(lines)
    else:
        lines += ["  hillWeight 0.3", "  hillWidth 1.5", "  newHillFrequency %d" % rng.choice([1, 2, 3]), "  useGrids off"]
        text = "metadynamics {\n%s\n}\n" % "\n".join(lines)
    b["text"] = text
    return b


def jitter(rng, pos, amp):
    return [[x + rng.uniform(-amp, amp) for x in p] for p in pos]


def gen_traj_case(rng, idx):
    sysm = corpus.make_system(rng, natoms=NAT, box=7.0, unit_masses=False)
    pool = list(range(1, NAT + 1))
    kinds = rng.sample(CV_KINDS, rng.randint(3, 5))
    cvs = []
    for i, (k, _) in enumerate(kinds):
        try:
            cvs.append(make_cv(rng, sysm, pool, "%s%d" % ("qwertyu"[i], i), k))
        except ValueError:
            break
    biases = []
    centers_on = set()
    nb = 0
    for cv in cvs:
        for _ in range(rng.choice([0, 1, 1, 2])):
            b = make_bias(rng, cv, "b%d" % nb, allow_centers=(cv["name"] not in centers_on))
            nb += 1
            if b["centers"]:
                centers_on.add(cv["name"])
            biases.append(b)
    # multiple time stepping: one variable (and its biases) is computed every second or third step only; the trajectory keeps all
    # its columns at every written step, a sleeping object showing the values it holds
    mts = None
    cand = [cv for cv in cvs if not cv["ext"] and not cv["flags"]["vel"] and not cv["flags"]["ft"]
            and all(b["kind"] in ("harmonic", "walls", "linear") for b in biases if b["cv"] == cv["name"])]
    if cand and rng.random() < 0.4:
        cvm_ = rng.choice(cand)
        nf = rng.choice([2, 3])
        cvm_["text"] = re.sub(r"(colvar \{\n  name [^\n]*\n)", lambda m: m.group(1) + "  timeStepFactor %d\n" % nf, cvm_["text"], count=1)
        assert "timeStepFactor" in cvm_["text"]
        for b in biases:
            if b["cv"] == cvm_["name"]:
                b["text"] = b["text"].replace("  colvars %s\n" % cvm_["name"], "  colvars %s\n  timeStepFactor %d\n" % (cvm_["name"], nf), 1)
        mts = (cvm_["name"], nf)
    freq = rng.choice([1, 2, 3, 5])
    start = rng.choice([0, 0, 7, 100, 1001])
    nseg = rng.randint(2, 4)
    # program: list of ops
    ops = []
    prefix_n = 0
    live_cv = [c["name"] for c in cvs]
    live_b = [b["name"] for b in biases]
    extra_objs = []
    pos = sysm["pos"]
    for s in range(nseg):
        n = rng.randint(4, 11)
        if s > 0:
            ops.append(("endrun",))
            if rng.random() < 0.35:
                prefix_n += 1
                ops.append(("prefix", prefix_n))
            ops.append(("newrun",))
            ops.append(("step", pos, None))   # the repeated step: same coordinates
        mut_at = rng.randint(0, n) if rng.random() < 0.8 else -1
        for t in range(n):
            if t == mut_at or (s > 0 and t == 0 and rng.random() < 0.3):
                r = rng.random()
                if r < 0.35 and live_b:
                    bn = rng.choice(live_b)
                    live_b.remove(bn)
                    ops.append(("script", ["cv", "bias", bn, "delete"]))
                elif r < 0.55 and len(live_cv) > 1:
                    cn = rng.choice(live_cv)
                    live_cv.remove(cn)
                    for b in biases + [o for o in extra_objs if o.get("kind_obj") == "bias"]:
                        if b["cv"] == cn and b["name"] in live_b:
                            live_b.remove(b["name"])
                    ops.append(("script", ["cv", "colvar", cn, "delete"]))
                elif len(pool) >= 8:
                    k = rng.choice([x for x in CV_KINDS if x[0] not in ("orientation", "cartesian")])
                    try:
                        ncv = make_cv(rng, sysm, pool, "n%d" % len(extra_objs), k[0])
                    except ValueError:
                        ncv = None      # not enough unused atoms left for this component type: nothing is added at this step
                    if ncv is not None:
                        nbias = make_bias(rng, ncv, "nb%d" % len(extra_objs), allow_centers=True)
                        nbias["kind_obj"] = "bias"
                        extra_objs.append(ncv)
                        extra_objs.append(nbias)
                        cvs.append(ncv)
                        biases.append(nbias)
                        live_cv.append(ncv["name"])
                        live_b.append(nbias["name"])
                        txt = ncv["text"] + "\n" + nbias["text"]
                        if rng.random() < 0.5:
                            ops.append(("config", txt))
                        else:
                            ops.append(("script", ["cv", "config", txt]))
            pos = jitter(rng, pos, 0.12)
            fext = [[rng.uniform(-3, 3) for _ in range(3)] for _ in range(NAT)]
            ops.append(("step", pos, fext))
    ops.append(("endrun",))
    return dict(idx=idx, sysm=sysm, cvs=cvs, biases=biases, freq=freq, start=start, ops=ops,
                init_cvs=[c for c in cvs if not c["name"].startswith("n")],
                init_biases=[b for b in biases if not b["name"].startswith("nb")])


def traj_scenario(case, tag):
    s = corpus.scenario_header(case["sysm"], tfmode="same", extra="dt 1.0\ntemp 300.0")
    s += "emit atoms off\nmodule\nprefix %s_p0\n" % tag
    s += "config <<EOC\ncolvarsTrajFrequency %d\n" % case["freq"]
    s += "\n".join(c["text"] for c in case["init_cvs"]) + "\n" + "".join(b["text"] for b in case["init_biases"])
    s += "EOC\ninit\n"
    if case["start"]:
        s += "setstep %d\n" % case["start"]
    for op in case["ops"]:
        if op[0] == "step":
            s += corpus.pos_line(op[1]) + "\n"
            if op[2] is not None:
                s += corpus.fext_line(op[2]) + "\n"
            s += "step\nsavestr\n"
        elif op[0] == "prefix":
            s += "prefix %s_p%d\n" % (tag, op[1])
        elif op[0] == "config":
            s += "config <<EOC\n" + op[1] + "EOC\n"
        elif op[0] == "script":
            s += "script " + json.dumps(op[1]) + "\n"
        else:
            s += op[0] + "\n"
    return s


def state_bias_params(state, bname):
    """{'centers': [[..],..] or None, 'work': float or None} of bias `bname` in a state string"""
    m = re.search(r"configuration\s*\{[^{}]*?\bname\s+%s\s*\n(.*?)\}" % re.escape(bname), state, re.S)
    if not m:
        return None
    body = m.group(1)
    out = {"centers": None, "work": None}
    mc = re.search(r"^\s*centers\s+(.*)$", body, re.M)
    if mc:
        out["centers"] = [parse_token(t) for t in TOK.findall(mc.group(1))]
    mw = re.search(r"^\s*accumulatedWork\s+(\S+)", body, re.M)
    if mw:
        out["work"] = float(mw.group(1))
    return out


def textbook_work(case, steps):
    """accumulated work of the restraints with a changing force constant that exist from the first step of the session:
    W(t) = sum_{s = first+1 .. t} dU/dk(x_s) (k_s - k_{s-1}), k_s = k0 + (k1 - k0) min(1, (s - first)/N), dU/dk = d(x_s, c)^2 / (2 w^2),
    from the values x_s the variable actually took (step events).  {bias name: {step: W}}"""
    out = {}
    byit = {}
    for e in steps:
        byit[e["it"]] = e             # a repeated step carries the same values
    its = sorted(byit)
    if not its or its[0] != 0:
        # a session whose step counter is set after the objects were defined: the schedules count from the step of definition,
        # which the engine-side log does not show
        return out
    first = its[0]
    cvs = {cv["name"]: cv for cv in case["cvs"]}
    for b in case["biases"]:
        km = b.get("km")
        if not km or not b.get("work") or b.get("kind_obj") or b["cv"] not in cvs or not b.get("initial", True):
            continue
        cv = cvs[b["cv"]]
        m = re.search(r"\n  width (\S+)", cv["text"])
        w = float(m.group(1)) if m else 1.0
        per = cv.get("period") or 0.0
        W, ok = 0.0, True
        res = {first: 0.0}
        for t in its[1:]:
            e = byit[t]
            if t - 1 not in byit or b["name"] not in e.get("bias", {}) or b["cv"] not in e.get("cv", {}):
                ok = False
                break
            x = fl(e["cv"][b["cv"]]["x"][0])
            d = x - fl(km["c0"] if not isinstance(km["c0"], (list, tuple)) else km["c0"][0])
            if per:
                d -= per * math.floor(d / per + 0.5)
            lam_t = min(1.0, (t - first) / float(km["N"]))
            lam_p = min(1.0, (t - 1 - first) / float(km["N"]))
            kt = km["k0"] + (km["k1"] - km["k0"]) * lam_t
            kp = km["k0"] + (km["k1"] - km["k0"]) * lam_p
            W += 0.5 * d * d / (w * w) * (kt - kp)
            res[t] = W
        if ok:
            out[b["name"]] = res
    return out


def check_traj_case(c, case, r, ev, sp, tag, wd):
    """returns number of data lines verified"""
    cvnames = {cv["name"]: cv for cv in case["cvs"]}
    bnames = {b["name"]: b for b in case["biases"]}
    flagkey = "|".join(sorted("%s:%s%s" % (cv["vtype"] + ("+ext" if cv["ext"] else ""),
                                            "".join(k[0] for k, v in sorted(cv["flags"].items()) if v), "")
                              for cv in case["cvs"]))
    files = [sp]

    def viol(key, text):
        if once(c, key):
            return
        c.violation(key, "case %d (freq %d, first step %d): %s" % (case["idx"], case["freq"], case["start"], text),
                    files=files + [os.path.join(wd, f) for f in os.listdir(wd) if f.startswith(tag + "_p") and f.endswith(".traj")][:4],
                    payload={"flags": flagkey})

    if not r["complete"]:
        if r["sig"] or r["timeout"]:
            viol("crash:traj_scenario", "esim ended by signal %s / timeout %s: %s" % (r["sig"], r["timeout"], r["err"][-300:]))
        else:
            c.inconc("traj case %d incomplete: %s" % (case["idx"], r["err"][-200:]))
        return 0
    cfg = [e for e in ev if e["ev"] == "config"]
    if any(e.get("rc") or e.get("err") for e in cfg) or any(e["ev"] == "script" and (e.get("rc") or e.get("err")) for e in ev):
        c.inconc("traj case %d: a configuration / script operation was rejected: %s"
                 % (case["idx"], [e.get("errs") for e in ev if e["ev"] in ("config", "script") and (e.get("rc") or e.get("err"))][:2]))
        return 0
    # expected lines per file: walk ops and events in lock-step
    steps = [e for e in ev if e["ev"] == "step"]
    saves = [e for e in ev if e["ev"] == "savestr"]
    tbw = textbook_work(case, steps)
    nstep_ops = sum(1 for op in case["ops"] if op[0] == "step")
    if len(steps) != nstep_ops or len(saves) != nstep_ops:
        c.inconc("traj case %d: %d step events for %d step commands" % (case["idx"], len(steps), nstep_ops))
        return 0
    expected = {}    # file -> list of (step event, state, previous step event)
    cur = "%s_p0" % tag
    pending = None
    k = 0
    prev = None
    for op in case["ops"]:
        if op[0] == "prefix":
            pending = "%s_p%d" % (tag, op[1])
        elif op[0] == "step":
            if pending is not None:
                cur = pending     # setup_output() runs at the first step of the new run
                pending = None
            e = steps[k]
            if e["it"] % case["freq"] == 0:
                expected.setdefault(cur, []).append((e, saves[k]["state"], prev))
            prev = e
            k += 1
    nver = 0
    for pref, exp in sorted(expected.items()):
        path = os.path.join(wd, pref + ".colvars.traj")
        recs = read_traj(path)
        if recs is None:
            viol("traj_file_missing", "%d lines expected in %s, file does not exist" % (len(exp), os.path.basename(path)))
            return nver
        files.append(path)
        labels = None
        data = []
        for rec in recs:
            if rec[0] == "label":
                labels = rec[1]
            else:
                data.append((labels, rec[1], rec[2]))
        # (1) one line per expected step, in order
        got_steps = []
        for lab, toks, raw in data:
            try:
                got_steps.append(int(toks[0]))
            except (ValueError, IndexError):
                got_steps.append(None)
        exp_steps = [e["it"] for e, _, _ in exp]
        if got_steps != exp_steps:
            rels = [e["rel"] for e, _, _ in exp]
            kind = "step_column_is_relative" if got_steps == rels and rels != exp_steps else \
                   "missing_lines" if len(got_steps) < len(exp_steps) else \
                   "extra_lines" if len(got_steps) > len(exp_steps) else "step_numbers"
            viol("traj_lines:" + kind, "%s: steps written %s, steps computed that are multiples of the frequency (one per run) %s"
                 % (os.path.basename(path), got_steps[:30], exp_steps[:30]))
            return nver
        # (2) columns
        for (lab, toks, raw), (e, state, pe) in zip(data, exp):
            if lab is None:
                viol("traj_no_label", "%s: data line of step %d precedes any label line" % (os.path.basename(path), e["it"]))
                return nver
            if lab[0] != "step":
                viol("traj_label_format", "label line does not start with 'step': %r" % lab[:3])
                return nver
            if len(toks) != len(lab):
                viol("traj_column_count", "%s step %d: %d columns, label line announces %d (%s)"
                     % (os.path.basename(path), e["it"], len(toks), len(lab), " ".join(lab)))
                return nver
            for name, tok in zip(lab[1:], toks[1:]):
                p = parse_token(tok)
                want, what = expected_value(name, e, state, pe, cvnames, bnames)
                if want is None:
                    if what == "unknown":
                        viol("traj_unknown_label", "label %r does not name any quantity of the objects defined at step %d" % (name, e["it"]))
                        return nver
                    c.bump("traj_columns_without_reference")
                    continue
                tol = PTOL if what != "vfd" else 1e-11
                if p is None or len(p) != len(want):
                    viol("traj_column_width:" + what, "%s step %d column %s: token %r, expected %d number(s)"
                         % (os.path.basename(path), e["it"], name, tok[:80], len(want)))
                    return nver
                if not vclose(p, want, tol):
                    viol("traj_value:" + what, "%s step %d column %s: written %s, engine-side record of that step %s"
                         % (os.path.basename(path), e["it"], name, p, [fl(x) for x in want]))
                    return nver
                if what == "bias_energy" and bnames.get(name[2:], {}).get("walls") and "timeStepFactor" not in bnames[name[2:]]["text"]:
                    # closed form of a harmonicWalls energy from the value the variable took at that step (the walls act on the actual value)
                    b_ = bnames[name[2:]]
                    cv_ = cvnames.get(b_["cv"])
                    ce_ = e.get("cv", {}).get(b_["cv"])
                    if cv_ is not None and ce_ is not None and "timeStepFactor" not in cv_["text"]:
                        m_ = re.search(r"\n  width (\S+)", cv_["text"])
                        w_ = float(m_.group(1)) if m_ else 1.0
                        x_ = fl((ce_["xa"] if "ext" in ce_ else ce_["x"])[0])
                        wl_ = b_["walls"]
                        ex_ = 0.5 * wl_["kl"] * ((x_ - wl_["lw"]) / w_) ** 2 if x_ < wl_["lw"] else (
                            0.5 * wl_["ku"] * ((x_ - wl_["uw"]) / w_) ** 2 if x_ > wl_["uw"] else 0.0)
                        if abs(p[0] - ex_) > 1e-9 * max(1.0, abs(ex_)):
                            viol("traj_bias_energy_definition:walls:" + ("two_constants" if wl_["kl"] != wl_["ku"] else "one_constant") +
                                 (":below_lower" if x_ < wl_["lw"] else ":above_upper" if x_ > wl_["uw"] else ":between"),
                                 "%s step %d column %s: written %.14g; the variable is at %.14g, walls %s / %s with constants %s / %s, width %s: %.14g"
                                 % (os.path.basename(path), e["it"], name, p[0], x_, wl_["lw"], wl_["uw"], wl_["kl"], wl_["ku"], w_, ex_))
                            return nver
                        c.bump("traj_walls_energy_definition_checks")
                        c.note_set("traj_walls_energy_situations", ("two_constants" if wl_["kl"] != wl_["ku"] else "one_constant") +
                                   (":below_lower" if x_ < wl_["lw"] else ":above_upper" if x_ > wl_["uw"] else ":between"))
                if what == "work" and name[2:] in tbw and e["it"] in tbw[name[2:]]:
                    wt = tbw[name[2:]][e["it"]]
                    if abs(p[0] - wt) > 1e-9 * max(1.0, abs(wt), abs(p[0])):
                        viol("traj_work_definition", "%s step %d column %s: written %.14g, sum over the steps so far of dU/dk (k_s - k_(s-1)) from the "
                             "values the variable took = %.14g" % (os.path.basename(path), e["it"], name, p[0], wt))
                        return nver
                    c.bump("traj_work_definition_checks")
                c.bump("traj_columns_compared")
                c.note_set("traj_quantities_compared", what)
            nver += 1
    # lines in files nobody expected
    for f in os.listdir(wd):
        if f.startswith(tag + "_p") and f.endswith(".colvars.traj") and f[:-len(".colvars.traj")] not in expected:
            recs = read_traj(os.path.join(wd, f)) or []
            if any(rec[0] == "data" for rec in recs):
                viol("traj_lines:unexpected_file", "%s has data lines but no step of that segment is a multiple of the frequency" % f)
    if nver:
        for cv in case["cvs"]:
            c.nontrivial("traj|%s|%s" % (cv["vtype"] + ("+ext" if cv["ext"] else ""),
                                         "".join(k[0] for k, v in sorted(cv["flags"].items()) if v)))
        for b in case["biases"]:
            c.nontrivial("trajbias|%s|%d%d%d" % (b["kind"], b["energy"], b["centers"], b["work"]))
    return nver


def expected_value(label, e, state, pe, cvnames, bnames):
    """-> (list of numbers or None, kind).  kind 'unknown' = label names nothing we know"""
    cvs = e.get("cv", {})
    bs = e.get("bias", {})
    if label in cvs:
        cv = cvs[label]
        return (cv["xa"] if "ext" in cv else cv["x"]), "value"
    for pre, kind in (("vr_", "vr"), ("r_", "r"), ("v_", "v"), ("Ep_", "Ep"), ("Ek_", "Ek"), ("ft_", "ft"), ("fa_", "fa"),
                      ("x0_", "x0"), ("E_", "E"), ("W_", "W")):
        if not label.startswith(pre):
            continue
        nm = label[len(pre):]
        if kind in ("E", "W"):
            if nm not in bs:
                continue
            if kind == "E":
                return [bs[nm]["e"]], "bias_energy"
            sp = state_bias_params(state, nm)
            if sp is None or sp["work"] is None:
                return None, "work"
            return [sp["work"]], "work"
        if nm not in cvs:
            continue
        cv = cvs[nm]
        if kind == "r":
            return (cv["x"] if "ext" in cv else None), "ext_value"
        if kind == "vr":
            return (cv.get("v") if "ext" in cv else None), "ext_velocity"
        if kind == "v":
            if "ext" not in cv and cvnames.get(nm, {}).get("zperiod"):
                # periodic scalar: the finite-difference velocity is the shortest difference on the circle between the values of
                # two consecutive steps (dt = 1), recomputed here from the values
                P = cvnames[nm]["zperiod"]
                if e["rel"] == 0:
                    return [0.0], "vfd_periodic"
                if pe is None or nm not in pe.get("cv", {}) or not cv.get("on") or not pe["cv"][nm].get("on"):
                    return None, "vfd_periodic"
                d = fl(cv["x"][0]) - fl(pe["cv"][nm]["x"][0])
                d -= P * math.floor(d / P + 0.5)
                return [d], "vfd_periodic"
            if "ext" not in cv:
                return cv.get("v"), "velocity"
            # finite-difference velocity of the actual value (dt = 1): not part of the step event, recomputed
            if e["rel"] == 0:
                return [0.0] * len(cv["xa"]), "vfd"
            if pe is None or nm not in pe.get("cv", {}) or not cv.get("on") or not pe["cv"][nm].get("on"):
                return None, "vfd"     # variable just defined, or asleep: no two consecutive recorded values
            return [fl(a) - fl(b) for a, b in zip(cv["xa"], pe["cv"][nm]["xa"])], "vfd"
        if kind == "Ep":
            return ([cv["ext"]["Ep"]] if "ext" in cv else None), "ext_Ep"
        if kind == "Ek":
            return ([cv["ext"]["Ek"]] if "ext" in cv else None), "ext_Ek"
        if kind == "ft":
            return cv.get("ft"), "total_force"
        if kind == "fa":
            return cv.get("fa"), "applied_force"
        if kind == "x0":
            # the bias with outputCenters on this variable (the generator allows one per variable)
            for bn, b in bnames.items():
                if b["cv"] == nm and b["centers"] and bn in bs:
                    sp = state_bias_params(state, bn)
                    if sp and sp["centers"]:
                        return sp["centers"][0], "centers"
                    # fixed centres are not part of the state: derive them from the force the bias applied
                    return None, "centers"
            return None, "centers"
    return None, "unknown"


# -------------------------------------------------------------------------------------------------------------
# Part B: derived quantities
# -------------------------------------------------------------------------------------------------------------

def gen_ana_case(rng, idx):
    sysm = corpus.make_system(rng, natoms=24, box=7.0)
    pool = list(range(1, 25))
    vt_kind = rng.choice([("distance", "scalar"), ("distance", "scalar"), ("distanceVec", "vec3"), ("distanceDir", "unit3"),
                          ("cartesian", "vector")])
    ctype, vtype = vt_kind
    ra = None
    cf = None
    if rng.random() < 0.7 or vtype == "vector":
        ra = dict(L=rng.randint(2, 6), s=rng.choice([1, 1, 2, 3]))
    if vtype != "vector" and (rng.random() < 0.75 or ra is None):
        types = ["coordinate", "velocity"] + (["coordinate_p2"] if vtype in ("vec3", "unit3") else [])
        cf = dict(type=rng.choice(types), L=rng.randint(2, 6), s=rng.choice([1, 1, 2, 3]), off=rng.choice([0, 0, 0, 1, 2]),
                  norm=rng.random() < 0.5, cross=rng.random() < 0.35)
    partner = corpus.make_colvar(rng, sysm, pool, "b", ctype, {})
    extra = []
    if ra:
        extra += ["runAve on", "runAveLength %d" % ra["L"], "runAveStride %d" % ra["s"]]
    if cf:
        extra += ["corrFunc on", "corrFuncType %s" % cf["type"], "corrFuncLength %d" % cf["L"], "corrFuncStride %d" % cf["s"],
                  "corrFuncOffset %d" % cf["off"], "corrFuncNormalize %s" % ("on" if cf["norm"] else "off")]
        if cf["cross"]:
            extra.append("corrFuncWithColvar b")
    main = corpus.make_colvar(rng, sysm, pool, "a", ctype, {}, extra_lines=extra)
    strides = [x["s"] for x in (ra, cf) if x]
    l = 1
    for s in strides:
        l = l * s // math.gcd(l, s)
    rfreq = l * rng.choice([1, 2, 3])
    need = max([(ra["L"] + 1) * ra["s"] if ra else 0, (cf["L"] + cf["off"] + 2) * cf["s"] if cf else 0])
    T = need + rng.randint(6, 22)
    T = ((T + rfreq - 1) // rfreq) * rfreq if rng.random() < 0.7 else T
    start = rng.choice([0, 0, 0, 1000])
    if start:
        start = start - (start % rfreq)   # commensurate, so that write steps are predictable
    newrun_at = rng.randint(3, T - 2) if rng.random() < 0.4 else None
    pos = sysm["pos"]
    traj = []
    for t in range(T + 1):
        traj.append(pos)
        pos = jitter(rng, pos, 0.25)
    return dict(idx=idx, sysm=sysm, main=main, partner=partner, ra=ra, cf=cf, vtype=vtype, ctype=ctype, rfreq=rfreq, T=T,
                start=start, newrun_at=newrun_at, traj=traj)


def ana_scenario(case, tag):
    s = corpus.scenario_header(case["sysm"], tfmode="off", extra="dt 1.0\ntemp 300.0")
    s += "emit atoms off\nemit bias off\nmodule\nprefix %s\n" % tag
    s += "config <<EOC\ncolvarsTrajFrequency 0\ncolvarsRestartFrequency %d\n" % case["rfreq"]
    s += case["partner"]["text"] + "\n" + case["main"]["text"] + "\nEOC\ninit\n"
    if case["start"]:
        s += "setstep %d\n" % case["start"]
    for t, pos in enumerate(case["traj"]):
        s += corpus.pos_line(pos) + "\nstep\n"
        if case["newrun_at"] == t:
            s += "endrun\nnewrun\nstep\n"
    s += "endrun\n"
    return s


def read_two_col(path):
    out = []
    head = []
    for line in open(path, errors="replace"):
        if line.lstrip().startswith("#"):
            head.append(line.rstrip("\n"))
            continue
        toks = TOK.findall(line)
        if toks:
            out.append(toks)
    return head, out


def check_ana_case(c, case, r, ev, sp, tag, wd):
    files = [sp]
    optkey = "%s|ra=%s|cf=%s" % (case["vtype"], ("L%d,s%d" % (case["ra"]["L"], case["ra"]["s"])) if case["ra"] else "-",
                                 ("%s,L%d,s%d,o%d,n%d,x%d" % (case["cf"]["type"], case["cf"]["L"], case["cf"]["s"], case["cf"]["off"],
                                                              case["cf"]["norm"], case["cf"]["cross"])) if case["cf"] else "-")

    def viol(key, text, extra_files=()):
        if once(c, key):
            return
        c.violation(key, "case %d [%s]: %s" % (case["idx"], optkey, text), files=files + list(extra_files),
                    payload={"options": optkey, "rfreq": case["rfreq"], "T": case["T"], "first_step": case["start"],
                             "newrun_at": case["newrun_at"]})

    if not r["complete"]:
        if r["sig"] or r["timeout"]:
            viol("crash:analysis_scenario", "esim ended by signal %s / timeout %s: %s" % (r["sig"], r["timeout"], r["err"][-300:]))
        else:
            c.inconc("analysis case %d incomplete: %s" % (case["idx"], r["err"][-200:]))
        return
    cfg = [e for e in ev if e["ev"] == "config"]
    if any(e.get("rc") or e.get("err") for e in cfg):
        c.inconc("analysis case %d: configuration rejected: %s" % (case["idx"], cfg[0].get("errs")))
        return
    # the sequence of distinct steps (the repeated boundary step is one step)
    seq = []
    seen = set()
    for e in ev:
        if e["ev"] == "step" and e["it"] not in seen:
            seen.add(e["it"])
            seq.append(e)
    rel0 = seq[0]["it"]
    xa = np.array([[fl(v) for v in e["cv"]["a"]["x"]] for e in seq])
    xb = np.array([[fl(v) for v in e["cv"]["b"]["x"]] for e in seq])
    vt = case["vtype"]
    # ---- running average ----
    ra = case["ra"]
    if ra:
        path = os.path.join(wd, "%s.a.runave.traj" % tag)
        if not os.path.exists(path):
            c.inconc("analysis case %d: no running-average file" % case["idx"])
        else:
            head, rows = read_two_col(path)
            nl = 0
            first_line = None
            bad_mean = bad_std = None
            for toks in rows:
                try:
                    st = int(toks[0])
                except ValueError:
                    viol("runave_format", "line %r" % toks[:3], [path])
                    return
                if len(toks) != 3:
                    viol("runave_format", "step %d: %d columns" % (st, len(toks)), [path])
                    return
                # the step column: relative or absolute number of the step (noted, not judged: the first step of the
                # job is either 0 or far beyond the length of the run, so the two cannot be confused)
                if 0 <= st < len(seq):
                    t = st
                    if case["start"]:
                        c.bump("runave_step_column_relative_to_job_start")
                elif 0 <= st - rel0 < len(seq):
                    t = st - rel0
                else:
                    viol("runave_step", "step %d is not a step of the run" % st, [path])
                    return
                if first_line is None:
                    first_line = t
                m = parse_token(toks[1])
                sd = parse_token(toks[2])
                if t % ra["s"] != 0:
                    viol("runave_step_not_multiple_of_stride", "line at relative step %d, stride %d" % (t, ra["s"]), [path])
                    return
                ref = analysis.running_stats(xa, t, ra["L"], ra["s"])
                if ref is None:
                    viol("runave_window_incomplete", "line at relative step %d but the window of %d values spaced %d steps "
                         "reaches before the first step" % (t, ra["L"], ra["s"]), [path])
                    return
                mean, s1, s0 = ref
                scale = max(1.0, float(np.abs(xa).max()))
                cand = [mean]
                if vt == "unit3":
                    n = float(np.linalg.norm(mean))
                    if n > 1e-6:
                        cand.append(mean / n)
                if bad_mean is None and not any(vclose(m, list(cm), ATOL, scale) for cm in cand):
                    bad_mean = (t, m, [float(x) for x in mean], [[float(v) for v in xa[i]] for i in analysis.window(t, ra["L"], ra["s"])])
                if vt != "unit3" and bad_std is None and sd is not None:
                    if not (abs(sd[0] - s1) <= ATOL * scale or abs(sd[0] - s0) <= ATOL * scale):
                        bad_std = (t, sd[0], s1, s0, [[float(v) for v in xa[i]] for i in analysis.window(t, ra["L"], ra["s"])])
                nl += 1
            c.bump("runave_lines_checked", nl)
            if first_line is not None:
                c.note_set("runave_first_line_minus_earliest_complete_window", first_line - (ra["L"] - 1) * ra["s"])
            if bad_mean:
                t, m, mean, win = bad_mean
                viol("runave_mean:%s" % vt, "relative step %d: written average %s; mean of the window %s (L=%d, stride %d, most recent "
                     "first) is %s" % (t, m, win, ra["L"], ra["s"], mean), [path])
            if bad_std:
                t, sd, s1, s0, win = bad_std
                viol("runave_stddev:%s" % vt, "relative step %d: written standard deviation %.15g; deviation of the window %s about its "
                     "mean is %.15g (L-1) / %.15g (L)" % (t, sd, win, s1, s0), [path])
            if nl and not bad_mean and not bad_std:
                c.nontrivial("runave|%s|L%d|s%d" % (vt, ra["L"], ra["s"]))
    # ---- correlation function ----
    cf = case["cf"]
    if cf:
        path = os.path.join(wd, "%s.a.corrfunc.dat" % tag)
        if not os.path.exists(path):
            c.bump("corrfunc_file_not_written")
            return
        head, rows = read_two_col(path)
        kind = cf["type"]
        if kind == "velocity":
            xi = np.array([[fl(v) for v in e["cv"]["a"].get("v", [0.0] * xa.shape[1])] for e in seq])
            xj = np.array([[fl(v) for v in e["cv"]["b"].get("v", [0.0] * xa.shape[1])] for e in seq]) if cf["cross"] else xi
            first_valid = 1
        else:
            xi = xa
            xj = xb if cf["cross"] else xa
            first_valid = 0
        lags = []
        vals = []
        for toks in rows:
            try:
                lags.append(int(toks[0]))
                vals.append(float(toks[1]))
            except (ValueError, IndexError):
                viol("corrfunc_format", "line %r" % toks[:3], [path])
                return
        if not lags:
            c.bump("corrfunc_file_empty")
            return
        nsamp = None
        for h in head:
            m = re.search(r"Number of samples\s*=\s*(\d+)", h)
            if m:
                nsamp = int(m.group(1))
        # when was the file written: at a step that is a multiple of the restart frequency (relative step > 0), or at
        # the end of the run
        writes = [i for i, e in enumerate(seq) if e["rel"] > 0 and e["it"] % case["rfreq"] == 0]
        t_cands = sorted(set(([writes[-1]] if writes else []) + [len(seq) - 1]), reverse=True)
        max_lag = max(lags)
        ok = False
        best = None
        for t_last in t_cands:
            for fr in analysis.frame_sets(len(seq), first_valid, max_lag, t_last):
                if not fr:
                    continue
                ref = analysis.corr_function(kind, xi, xj, lags, fr, cf["norm"])
                if any(x is None or x != x for x in ref):
                    continue
                scale = max(1.0, max(abs(x) for x in ref))
                errs = [abs(a - b) / scale for a, b in zip(vals, ref)]
                rank = (sum(1 for x in errs if x > ATOL), max(errs))
                if best is None or rank < best[0]:
                    best = (rank, ref, len(fr), t_last, errs)
                if max(errs) <= ATOL:
                    ok = True
                    if not cf["norm"] and nsamp is not None and nsamp != len(fr):
                        viol("corrfunc_sample_count", "file states %d samples, its values are the average over %d time origins" % (nsamp, len(fr)), [path])
                    break
            if ok:
                break
        c.bump("corrfunc_files_checked")
        if ok:
            c.nontrivial("corrfunc|%s|%s|L%d|s%d|o%d|n%d|x%d" % (vt, kind, cf["L"], cf["s"], cf["off"], cf["norm"], cf["cross"]))
            return
        if best is None:
            c.inconc("analysis case %d: no complete set of time origins for the lags written %s" % (case["idx"], lags))
            return
        _, ref, nfr, t_last, errs = best
        badl = [l for l, e_ in zip(lags, errs) if e_ > ATOL]
        # classify: which lines are wrong
        if cf["cross"]:
            key = "corrfunc_cross:%s" % kind
        elif cf["off"] and badl == [lags[0]]:
            key = "corrfunc_first_line_with_offset"
        else:
            key = "corrfunc:%s:auto:%s%s" % (kind, "all_lags" if len(badl) == len(lags) else "some_lags", ":offset>0" if cf["off"] else "")
        viol(key,
             "lags (steps) %s: written %s; <PI(xi_i(t0), xi_j(t0+lag))> over the %d most complete time origins up to sequence index %d "
             "gives %s (lags off by more than 1e-10: %s); file header: %s"
             % (lags, vals, nfr, t_last, [float("%.15g" % x) for x in ref], badl, head[:2]), [path])


# -------------------------------------------------------------------------------------------------------------

def run(tier, replay):
    c = common.Check("C19", tier)
    c.use_flavour("plain")
    c.rule = ("distinct = (value type, output flag set) of variables and (bias kind, energy/centres/work flags) whose trajectory "
              "lines were all verified, plus (value type, analysis option set) of running averages / correlation functions "
              "whose file agreed with the textbook definition")
    c.assumptions = [
        "a run = the steps an engine computes between two `run` statements; the boundary step is computed by both runs, so "
        "each of them writes its line (property: within a run exactly one line per multiple of the frequency)",
        "printed precision: 15 significant digits -> 1e-13 relative; finite-difference velocity of an extended-Lagrangian "
        "variable is recomputed from two recorded values -> 1e-11; derived quantities 1e-10 relative to the data scale",
        "running standard deviation: sample (L-1) and population (L) normalisations both accepted; for unit vectors only "
        "the average is compared (arithmetic mean or its normalisation)",
        "correlation functions: the set of time origins is not prescribed by the manual; accepted: all origins whose full "
        "set of lags is available, with or without the very first recorded sample; state of the file at the last restart-"
        "frequency step or at the end of the run",
        "centres and accumulated work are compared with the state saved right after the same step",
        "quaternion correlation functions and periodic running averages are not generated",
    ]
    common.vbuild.ensure("plain", tools=["esim"])
    if tier != "quick":
        c.use_flavour("asan")
        common.vbuild.ensure("asan", tools=["esim"])
    ntraj = 70 if tier == "quick" else 1500
    nana = 90 if tier == "quick" else 1500
    rngc = c.rng.__class__
    jobs = [("traj", i) for i in range(ntraj)] + [("ana", i) for i in range(nana)]

    def do(job):
        kind, i = job
        rng = rngc((c.seed * 7919 + i) * 2 + (0 if kind == "traj" else 1))
        tag = "%s%d" % (kind[0], i)
        wd = os.path.join(c.work, tag)
        flavour = "asan" if (tier != "quick" and i % 10 == 0) else "plain"
        if kind == "traj":
            case = gen_traj_case(rng, i)
            scn = traj_scenario(case, tag)
        else:
            case = gen_ana_case(rng, i)
            scn = ana_scenario(case, tag)
        r, ev, sp = common.run_esim(flavour, scn, wd, tag, timeout=300)
        return kind, case, r, ev, sp, tag, wd, flavour

    lines = 0
    for kind, case, r, ev, sp, tag, wd, flavour in common.pmap(do, jobs):
        c.count()
        if flavour == "asan" and common.sanitizer_report(r["err"]):
            c.violation("sanitizer:%s" % common.colvars_frame(r["err"]), common.sanitizer_report(r["err"]), files=[sp])
            continue
        if kind == "traj":
            n = check_traj_case(c, case, r, ev, sp, tag, wd)
            lines += n
            if n:
                c.bump("traj_cases_verified")
            if n and len(c.samples) < 3:
                c.sample({"part": "trajectory", "case": case["idx"], "freq": case["freq"], "first_step": case["start"],
                          "variables": ["%s:%s" % (cv["name"], cv["vtype"]) for cv in case["cvs"]], "lines_verified": n})
        else:
            check_ana_case(c, case, r, ev, sp, tag, wd)
            if len(c.samples) < 6 and case["idx"] < 3:
                c.sample({"part": "analysis", "case": case["idx"], "vtype": case["vtype"], "runAve": case["ra"], "corrFunc": case["cf"]})
    c.extra["traj_lines_verified"] = lines
    nra = c.extra.get("runave_lines_checked", 0)
    ncf = c.extra.get("corrfunc_files_checked", 0)
    floor = (lines >= (300 if tier == "quick" else 6000) and nra >= (200 if tier == "quick" else 4000)
             and ncf >= (25 if tier == "quick" else 400))
    return c.finish(floor, "%d trajectory lines verified, %d running-average lines, %d correlation-function files" % (lines, nra, ncf))
