"""C18 - distances, gradients and wrapping of variable values form a consistent metric.

The in-process harness `h_values` (harness/h_values.cpp) generates pairs of values of every value
type (uniform on the manifold plus adversarial classes), calls the REAL

    colvarvalue::dist2 / dist2_grad / interpolate / apply_constraints              ("static" subjects)
    colvar::dist2 / dist2_lgrad / dist2_rgrad / wrap  on configured colvars        ("@component" subjects)

and prints the raw numbers.  Everything is decided here, from the property statement only:

  dist2_nan / dist2_self_nan   d2 is a finite number (never NaN), also for d2(a,a)
  dist2_negative               d2 >= 0
  dist2_asym                   d2(a,b) = d2(b,a)            (1e-14 relative + 1e-300)
  dist2_self_nonzero           |d2(a,a)| <= 1e-14
  dist2_zero_nonequiv          d2 > 0 when a and b are clearly not equivalent (separation > 1e-6 scale)
  dist2_period_variant         d2(a + n P, b) = d2(a, b + n P) = d2(a,b) within the rounding of forming
                               a + n P;  d2(a + n P, a) = 0 within the same rounding
  dist2_sign_variant           d2(-q,b) = d2(q,-b) = d2(-q,-b) = d2(q,b);  d2(-q,q) = 0 (rounding of acos)
  grad_nan / grad_mismatch     <dist2_lgrad(a,b), t> for unit tangent directions t at a (so that only the
                               tangent-space projection of the reported gradient matters: the code reports
                               the embedding-space gradient for unit vectors and the projected one for
                               quaternions, both are accepted) equals the central finite difference of
                               s -> d2(retract(a + s t), b), Richardson pair (h, h/2); inconclusive within a
                               margin of the cut locus (antipode, half period, q.b = 0) or when the error
                               bar of the pair is too large
  wrap_range / wrap_nonequiv   wrap(x) in [c - P/2, c + P/2) and (x - wrap(x))/P integer within rounding;
  wrap_changed                 wrap() leaves values of non-periodic types alone
  interp_error / interp_nan / interp_off_manifold / interp_end0 / interp_end1
                               interpolate(a,b,l) reports no error, is finite, unit norm (1e-12) for the constrained types,
                               equal to a at l=0 and to b at l=1 up to equivalence
  constraints_nan / constraints_norm / constraints_changed
                               apply_constraints(): unit norm afterwards for unit vectors/quaternions,
                               identity for every unconstrained type (incl. the two derivative types)
  error_raised                 none of these operations reports an error on valid input

Violation keys are `<law>:<subject>:<pair class>`; <subject> is the value type for the colvarvalue
API and `<type>@<component>` for a configured colvar.

dist2_rgrad: the header documents it as the gradient with respect to x2; the property statement only
speaks about the derivative with respect to the first argument, so a right gradient that is not the
derivative with respect to the second argument is *recorded* in the evidence
(`rgrad_not_derivative_wrt_x2`) but is not a violation of C18 (RGRAD_STRICT).
"""
import json
import math
import os

import common

EPS = 2.0 ** -52
RGRAD_STRICT = False

TYPECODE = {"scalar": 1, "periodic": 1, "3vector": 2, "3vector_pbc": 2, "unit3vector": 3, "quaternion": 5,
            "vector": 7}
SAMPLE_SUBJECTS = ("unit3vector", "quaternion", "periodic@distanceZ_period", "periodic@spinAngle",
                   "quaternion@orientation", "3vector_pbc@distanceVec")
VALUE_TYPES = ["scalar", "periodic", "3vector", "unit3vector", "quaternion", "vector"]


# ---- small vector helpers (dimension <= 9: plain Python is fine) -----------------------------------

def dot(a, b):
    return math.fsum(x * y for x, y in zip(a, b))


def norm(a):
    return math.sqrt(dot(a, a))


def sub(a, b):
    return [x - y for x, y in zip(a, b)]


def fin(x):
    return isinstance(x, (int, float)) and math.isfinite(x)


def allfin(v):
    return all(fin(x) for x in v)


def fls(v):
    return [common.fl(x) for x in v]


class Geo:
    """Reference geometry of a pair, computed independently (used for margins and tolerances only:
    the property does not say which metric dist2 is, so d2 is never compared with these numbers)."""

    def __init__(self, S, a, b):
        man = S["man"]
        self.scale = 1.0
        self.sin = 1.0
        if man in ("R", "Rn"):
            self.sep = norm(sub(a, b))
            self.cutgap = math.inf
            self.scale = max(1.0, max(abs(x) for x in a), max(abs(x) for x in b))
        elif man == "S1":
            P = S["P"]
            d = math.fmod(a[0] - b[0], P)
            if d > 0.5 * P:
                d -= P
            if d < -0.5 * P:
                d += P
            self.sep = abs(d)
            self.cutgap = 0.5 * P - abs(d)
            self.scale = P
        elif man == "T3":
            ds, gaps = [], []
            for i in range(3):
                L = S["L"][i]
                d = math.fmod(a[i] - b[i], L)
                if d > 0.5 * L:
                    d -= L
                if d < -0.5 * L:
                    d += L
                ds.append(d)
                gaps.append(0.5 * L - abs(d))
            self.sep = norm(ds)
            self.cutgap = min(gaps)
            self.scale = max(S["L"])
        elif man == "S2":
            c = dot(a, b)
            cr = [a[1] * b[2] - a[2] * b[1], a[2] * b[0] - a[0] * b[2], a[0] * b[1] - a[1] * b[0]]
            s = norm(cr)
            self.sep = math.atan2(s, c)
            self.cutgap = math.pi - self.sep
            self.sin = s
        elif man == "S3":
            c = dot(a, b)
            s = norm([x - c * y for x, y in zip(a, b)])
            self.sep = math.atan2(s, abs(c))       # angle to the nearer of b, -b
            self.cutgap = 0.5 * math.pi - self.sep  # q.b = 0 is the cut locus
            self.sin = s
        else:
            raise ValueError(man)


class Judge:
    def __init__(self, c):
        self.c = c
        self.viol = {}      # key -> [count, text, payload]
        self.law_ok = {}    # (type, law) -> conclusive evaluations
        self.laws = 0

    # -- bookkeeping
    def ok(self, S, law, cl):
        """one conclusive evaluation of a law on a pair class"""
        self.laws += 1
        self.c.nontrivial((S["name"], law, cl))
        k = (S["type"], law)
        self.law_ok[k] = self.law_ok.get(k, 0) + 1

    def bad(self, S, law, cl, text, rec, ctx):
        self.laws += 1
        self.c.nontrivial((S["name"], law, cl))
        key = "%s:%s:%s" % (law, S["name"], cl)
        v = self.viol.get(key)
        if v:
            v[0] += 1
            return
        self.viol[key] = [1, text, {"subject": S, "record": rec, "harness": ctx}]

    def unsure(self, S, law, cl, why):
        self.c.bump("inconclusive_%s_%s" % (law, why))

    def flush(self):
        for key in sorted(self.viol):
            n, text, payload = self.viol[key]
            payload["occurrences"] = n
            self.c.violation(key, "%s  [%d occurrence(s) in this run]" % (text, n), payload=payload)

    # -- laws on a pair -------------------------------------------------------------------------
    def pair(self, S, r, ctx):
        c = self.c
        cl = r["cl"]
        man = S["man"]
        a, b = fls(r["a"]), fls(r["b"])
        d = fls(r["d"])
        geo = Geo(S, a, b)
        desc = "a=%s b=%s" % (r["a"], r["b"])

        if r.get("nerr", 0):
            self.bad(S, "error_raised", cl, "error reported on valid input: %s; %s" % (r.get("err"), desc), r, ctx)

        # finite
        pair_ok = fin(d[0]) and fin(d[1])
        self_ok = fin(d[2]) and fin(d[3])
        # (d2(a,a) and d2(b,b) are formed for every pair: whatever class b was drawn from, these are
        # evaluations on an identical pair and are keyed as such)
        same = cl in ("identical", "axis_identical")
        if not self_ok or (same and not pair_ok):
            x = a if not fin(d[2]) else b
            self.bad(S, "dist2_self_nan", "identical", "d2(x,x) is not a number for x=%s: d2(a,a)=%s d2(b,b)=%s; %s"
                     % (x, d[2], d[3], desc), r, ctx)
        else:
            self.ok(S, "dist2_self_nan", "identical")
        if not same:
            if not pair_ok:
                self.bad(S, "dist2_nan", cl, "d2(a,b)=%s d2(b,a)=%s; %s" % (d[0], d[1], desc), r, ctx)
            else:
                self.ok(S, "dist2_nan", cl)
        # sign
        fd = [x for x in d if fin(x)]
        if any(x < 0.0 for x in fd):
            self.bad(S, "dist2_negative", cl, "d=%s; %s" % (d, desc), r, ctx)
        elif fd:
            self.ok(S, "dist2_negative", cl)
        # symmetry
        if pair_ok:
            if abs(d[0] - d[1]) > 1e-14 * max(abs(d[0]), abs(d[1])) + 1e-300:
                self.bad(S, "dist2_asym", cl, "d2(a,b)=%r d2(b,a)=%r; %s" % (d[0], d[1], desc), r, ctx)
            else:
                self.ok(S, "dist2_asym", cl)
        # zero on the diagonal
        if self_ok:
            if abs(d[2]) > 1e-14 or abs(d[3]) > 1e-14:
                self.bad(S, "dist2_self_nonzero", "identical", "d2(a,a)=%r d2(b,b)=%r; %s" % (d[2], d[3], desc),
                         r, ctx)
            else:
                self.ok(S, "dist2_self_nonzero", "identical")
            if same and pair_ok and (abs(d[0]) > 1e-14 or abs(d[1]) > 1e-14):
                self.bad(S, "dist2_self_nonzero", "identical", "d2(a,b)=%r d2(b,a)=%r for b == a; %s"
                         % (d[0], d[1], desc), r, ctx)
        # positive off the diagonal
        if pair_ok:
            if geo.sep > 1e-6 * geo.scale:
                if not d[0] > 0.0:
                    self.bad(S, "dist2_zero_nonequiv", cl, "d2=%r for values %g apart; %s" % (d[0], geo.sep, desc),
                             r, ctx)
                else:
                    self.ok(S, "dist2_zero_nonequiv", cl)

        # invariance under equivalence
        for e in r.get("eq", []):
            v = fls(e["v"])
            n = e["n"]
            if man == "S3":
                law = "dist2_sign_variant"
                tol = 1e-13 * (1.0 + (abs(d[0]) if fin(d[0]) else 0.0))
                tol0 = 1e-14
            else:
                law = "dist2_period_variant"
                per = S["P"] if man == "S1" else max(S["L"])
                nmax = max(abs(x) for x in n)
                delta = 16.0 * EPS * (geo.scale + max(abs(x) for x in a + b) + (nmax + 1) * per)
                dm = math.sqrt(max([abs(x) for x in v[:2] + [d[0]] if fin(x)] + [0.0]))
                tol = 2.0 * dm * delta + delta * delta + 1e-14 * dm * dm
                tol0 = delta * delta + 1e-300
            if not (allfin(v) and pair_ok):
                if pair_ok:
                    self.bad(S, law, cl, "distance to an equivalent value is not a number: n=%s v=%s; %s"
                             % (n, e["v"], desc), r, ctx)
                continue
            others = v[:2] + v[3:]
            if any(abs(x - d[0]) > tol for x in others):
                self.bad(S, law, cl, "d2(a,b)=%r but with equivalent arguments (n=%s): %s (tol %.3g); %s"
                         % (d[0], n, others, tol, desc), r, ctx)
            elif abs(v[2]) > tol0:
                self.bad(S, law, cl, "d2(a', a)=%r for equivalent a' (n=%s, tol %.3g); %s" % (v[2], n, tol0, desc),
                         r, ctx)
            else:
                self.ok(S, law, cl)

        # gradients
        g = fls(r["g"])
        h = common.fl(r["h"])
        self.gradient(S, r, ctx, "grad", g, a, [(f["t"], f["p"]) for f in r["fd"]], h, geo, desc)
        if "gr" in r:
            self.gradient(S, r, ctx, "rgrad", fls(r["gr"]), b, [(f["u"], f["q"]) for f in r["fd"]], h, geo, desc)

        # wrap (a law on single values: keyed by where the value lies, not by the pair's class)
        if "w" in r:
            for i, (x, w) in enumerate(zip((a, b), r["w"])):
                wcl = "any"
                if man == "S1":
                    lo, hi = S["c"] - 0.5 * S["P"], S["c"] + 0.5 * S["P"]
                    wcl = "boundary" if (cl == "wrap_boundary" and i == 0) else \
                        ("inside" if lo <= x[0] < hi else "outside")
                self.wrap(S, r, ctx, wcl, x, fls(w), desc)

        # interpolation
        for ip in r.get("ip", []):
            if "e" in ip:
                self.bad(S, "interp_error", cl, "interpolate(a,b,%s) reports: %s a=%s b=%s"
                         % (ip["l"], ip["e"].strip(), r["a"], r["b"]), r, ctx)
                continue
            self.interp(S, r, ctx, a, b, common.fl(ip["l"]), fls(ip["r"]), geo)

    def gradient(self, S, r, ctx, law, g, at, dirs, h, geo, desc):
        cl = r["cl"]
        man = S["man"]
        margin = {"S1": 4.0 * h, "T3": 4.0 * h, "S2": 0.02, "S3": 0.01}.get(man, 0.0)
        near_cut = geo.cutgap < margin
        strict = (law == "grad") or RGRAD_STRICT
        if not allfin(g):
            if near_cut:
                self.unsure(S, law, cl, "cut_locus")
            elif strict:
                self.bad(S, law + "_nan", cl, "reported gradient %s; %s" % (g, desc), r, ctx)
            else:
                self.c.note_set("rgrad_not_a_number", "%s:%s" % (S["name"], cl))
            return
        if near_cut:
            self.unsure(S, law, cl, "cut_locus")
            return
        gn = norm(g)
        if man in ("S2", "S3"):
            floor = 4.0 * min(math.sqrt(32.0 * EPS), 16.0 * EPS / max(geo.sin, 1e-300)) + 1e-13
        else:
            floor = 64.0 * EPS * geo.scale
        for t, p in dirs:
            t, p = fls(t), fls(p)
            if not allfin(p):
                self.unsure(S, law, cl, "dist2_nan")
                continue
            gt = dot(g, t)
            fd1 = (p[0] - p[1]) / (2.0 * h)
            fd2 = (p[2] - p[3]) / h
            rich = (4.0 * fd2 - fd1) / 3.0
            trunc = abs(fd2 - fd1)
            noise = 64.0 * EPS * max(abs(x) for x in p) / h
            gscale = max(abs(rich), abs(gt), gn, 2.0 * geo.sep)
            bar = 2.0 * trunc + noise + floor + 1e-9 * gscale
            if 2.0 * trunc + noise > max(1e-3 * gscale, 10.0 * floor):
                self.unsure(S, law, cl, "error_bar")
                continue
            if abs(gt - rich) > bar:
                txt = ("<gradient, t>=%r but d/ds d2 along t = %r +- %.3g (h=%g, fd(h)=%r fd(h/2)=%r); "
                       "gradient=%s t=%s; %s" % (gt, rich, bar, h, fd1, fd2, g, t, desc))
                if strict:
                    self.bad(S, law + "_mismatch", cl, txt, r, ctx)
                else:
                    self.c.bump("rgrad_mismatches")
                    self.c.note_set("rgrad_not_derivative_wrt_x2", S["name"])
                    if len(self.c.extra.get("rgrad_example", [])) < 3:
                        self.c.note_set("rgrad_example", "%s:%s %s" % (S["name"], cl, txt[:300]))
            else:
                self.ok(S, law + "_mismatch", cl)

    def wrap(self, S, r, ctx, cl, x, w, desc):
        if S["man"] != "S1":
            same = (w == x) or (S["man"] == "S3" and w == [-v for v in x])
            if not same:
                self.bad(S, "wrap_changed", cl, "wrap(%s)=%s for a non-periodic type" % (x, w), r, ctx)
            else:
                self.ok(S, "wrap_changed", cl)
            return
        P, c = S["P"], S["c"]
        x, w = x[0], w[0]
        if not fin(w):
            self.bad(S, "wrap_range", cl, "wrap(%r)=%s" % (x, w), r, ctx)
            return
        lo, hi = c - 0.5 * P, c + 0.5 * P      # exact: P and c are small dyadic numbers
        slack = 4.0 * EPS * max(abs(x), abs(lo), abs(hi))
        exact = x == math.floor(x * 1024.0) / 1024.0 and abs(x) < 2.0 ** 20   # x, P, c dyadic: no rounding
        if exact:
            slack = 0.0
        if w < lo - slack or w > hi + slack or (exact and w == hi):
            self.bad(S, "wrap_range", cl, "wrap(%r)=%r is outside [%r, %r) (period %r, wrapAround %r)"
                     % (x, w, lo, hi, P, c), r, ctx)
        else:
            self.ok(S, "wrap_range", cl)
        n = (x - w) / P
        if abs(n - round(n)) > 8.0 * EPS * (abs(x) + abs(w) + abs(c)) / P + 4.0 * EPS * abs(n):
            self.bad(S, "wrap_nonequiv", cl, "wrap(%r)=%r differs by %r periods (period %r)" % (x, w, n, P), r, ctx)
        else:
            self.ok(S, "wrap_nonequiv", cl)

    def interp(self, S, r, ctx, a, b, lam, res, geo):
        cl = r["cl"]
        man = S["man"]
        if not allfin(res):
            self.bad(S, "interp_nan", cl, "interpolate(a,b,%r)=%s; a=%s b=%s" % (lam, res, r["a"], r["b"]), r, ctx)
            return
        self.ok(S, "interp_nan", cl)
        if man in ("S2", "S3"):
            if abs(norm(res) - 1.0) > 1e-12:
                self.bad(S, "interp_off_manifold", cl, "|interpolate(a,b,%r)|=%r; a=%s b=%s"
                         % (lam, norm(res), r["a"], r["b"]), r, ctx)
            else:
                self.ok(S, "interp_off_manifold", cl)
        for lam0, end, law in ((0.0, a, "interp_end0"), (1.0, b, "interp_end1")):
            if lam != lam0:
                continue
            dist = norm(sub(res, end))
            if man == "S3":
                dist = min(dist, norm([x + y for x, y in zip(res, end)]))
            if dist > 1e-12 * geo.scale:
                self.bad(S, law, cl, "interpolate(a,b,%r)=%s is not the end point %s" % (lam, res, end), r, ctx)
            else:
                self.ok(S, law, cl)

    def constraints(self, r, ctx):
        ty = r["type"]
        cl = r["cl"]
        S = {"name": ty, "type": ty, "man": "-"}
        vin, out = fls(r["in"]), fls(r["out"])
        if r.get("nerr", 0):
            self.bad(S, "error_raised", cl, "apply_constraints reported: %s" % r.get("err"), r, ctx)
        if r["ty"] != r["ty0"]:
            self.bad(S, "constraints_changed", cl, "type changed from %s to %s" % (r["ty0"], r["ty"]), r, ctx)
            return
        if ty in ("unit3vector", "quaternion"):
            if not allfin(out):
                self.bad(S, "constraints_nan", cl, "apply_constraints(%s)=%s" % (r["in"], r["out"]), r, ctx)
            elif abs(norm(out) - 1.0) > 1e-12:
                self.bad(S, "constraints_norm", cl, "|apply_constraints(%s)|=%r" % (r["in"], norm(out)), r, ctx)
            else:
                self.ok(S, "constraints_norm", cl)
        else:
            if out != vin:
                self.bad(S, "constraints_changed", cl, "apply_constraints(%s)=%s for an unconstrained type"
                         % (r["in"], r["out"]), r, ctx)
            else:
                self.ok(S, "constraints_changed", cl)


def run_chunk(job):
    flavour, hseed, ncases = job
    exe = common.vbuild.tool(flavour, "h_values")
    r = common.run_proc([exe, str(hseed), str(ncases)], timeout=1800 if flavour == "asan" else 900)
    return job, r


def chunk_results(jobs, batch=4):
    """run the harness a few chunks at a time (a chunk's output is ~1 kB per pair: bounded memory),
    results in job order so that the first witness kept per violation key is reproducible"""
    for i in range(0, len(jobs), batch):
        for res in common.pmap(run_chunk, jobs[i:i + batch]):
            yield res


def run(tier, replay):
    c = common.Check("C18", tier)
    c.rule = ("evaluations = calls of dist2/dist2_lgrad/dist2_rgrad/wrap/interpolate/apply_constraints on the "
              "real code; distinct = distinct (subject, law, pair class) triples with at least one conclusive "
              "evaluation; subject = value type (colvarvalue API) or type@component (configured colvar)")
    c.assumptions = [
        "gradient margins: half period - 4h (h = period/4096), pi - 0.02 rad for unit vectors, |q.b| angle "
        "within 0.01 rad of pi/2 for quaternions; finite differences h = 2^-12 (spheres), 2^-10 max(1,|a|,|b|) (flat)",
        "interpolate() between exactly antipodal unit vectors is documented as undefined and is not driven",
        "dist2/interpolate are not defined for the two derivative types (bug error by design): only "
        "apply_constraints is driven for them",
    ]
    jobs = []
    if replay:
        try:
            with open(os.path.join(replay, "violation.json")) as f:
                h = json.load(f)["payload"]["harness"]
            jobs = [(h["flavour"], h["seed"], h["ncases"])]
        except (OSError, KeyError, ValueError, TypeError) as ex:
            c.inconc("cannot read replay %s: %s" % (replay, ex))
            return c.finish(False, "replay unreadable")
    else:
        nplain, cplain, nasan, casan = (4, 30, 1, 8) if tier == "quick" else (48, 96, 4, 30)
        jobs = [("plain", c.rng.getrandbits(31), cplain) for _ in range(nplain)]
        jobs += [("asan", c.rng.getrandbits(31), casan) for _ in range(nasan)]
    for f in sorted(set(j[0] for j in jobs)):
        c.use_flavour(f)
        common.vbuild.tool(f, "h_values")

    J = Judge(c)
    types_seen = {}
    sampled = set()
    harness_ok = True
    for job, r in chunk_results(jobs):
        flavour, hseed, ncases = job
        ctx = {"flavour": flavour, "seed": hseed, "ncases": ncases,
               "cmd": "h_values %d %d  (flavour %s)" % (hseed, ncases, flavour)}
        san = common.sanitizer_report(r["err"])
        if san:
            key = "sanitizer:%s" % common.colvars_frame(r["err"])
            J.viol.setdefault(key, [0, "%s (%s)" % (san, ctx["cmd"]), {"harness": ctx, "stderr": r["err"][-4000:]}])
            J.viol[key][0] += 1
        subjects = {}
        ended = False
        for line in r["out"].splitlines():
            if not line.startswith("{"):
                continue
            try:
                rec = json.loads(line)
            except ValueError:
                continue
            k = rec.get("k")
            if k == "subject":
                subjects[rec["s"]] = rec
                if "cvtype" in rec and rec["cvtype"] != TYPECODE[rec["type"]]:
                    c.inconc("colvar for %s has value type %s" % (rec["name"], rec["cvtype"]))
                    harness_ok = False
            elif k == "pair":
                S = subjects[rec["s"]]
                J.pair(S, rec, ctx)
                c.bump("pairs")
                types_seen[S["type"]] = types_seen.get(S["type"], 0) + 1
                if rec["cl"] == "random" and S["name"] in SAMPLE_SUBJECTS and S["name"] not in sampled:
                    sampled.add(S["name"])
                    c.sample({"subject": S["name"], "class": rec["cl"], "a": rec["a"], "b": rec["b"],
                              "d2": rec["d"][0], "lgrad": rec["g"], "wrap_a": rec.get("w", [None])[0],
                              "harness": ctx["cmd"]})
            elif k == "ac":
                J.constraints(rec, ctx)
                c.bump("apply_constraints_cases")
            elif k == "end":
                ended = True
                c.count(rec["calls"])
            elif k == "setup_failed":
                c.inconc("harness setup failed: %s" % line[:300])
                harness_ok = False
        if not ended and not san:
            c.inconc("harness did not finish (%s): rc=%s timeout=%s stderr=%s"
                     % (ctx["cmd"], r["rc"], r["timeout"], r["err"][-300:]))
            harness_ok = False
    J.flush()
    c.extra["law_evaluations"] = J.laws
    c.extra["conclusive_by_type_and_law"] = {"%s/%s" % k: v for k, v in sorted(J.law_ok.items())}
    c.extra["pairs_by_type"] = types_seen

    # observation floor: every value type went through every family of laws at least once
    missing = []
    for ty in VALUE_TYPES:
        need = ["dist2_asym", "dist2_self_nonzero", "dist2_zero_nonequiv", "grad_mismatch"]
        if ty == "periodic":
            need += ["dist2_period_variant", "wrap_range", "wrap_nonequiv"]
        else:
            need += ["interp_end0", "interp_end1"]
        if ty == "quaternion":
            need += ["dist2_sign_variant"]
        for law in need:
            if not J.law_ok.get((ty, law)):
                # a law that only ever fired as a violation was still observed
                if not any(k.startswith(law + ":" + ty) for k in J.viol):
                    missing.append("%s/%s" % (ty, law))
    for ty in ("unit3vector", "quaternion"):
        if not J.law_ok.get((ty, "constraints_norm")):
            missing.append("%s/constraints_norm" % ty)
    if replay:
        missing = []
    ok = harness_ok and not missing
    return c.finish(ok, "; ".join((["harness failure"] if not harness_ok else []) +
                                  (["no conclusive observation for " + ", ".join(missing)] if missing else [])))
