"""C05 - the metadynamics bias is the sum of the hills deposited on schedule.

Reference model (written from the manual): explicit list of hills produced by the documented
schedule from the imposed trajectory; energy/force = sum over hills, tabulated hills evaluated at
the centre of the current bin, pending and off-grid ones analytically.  The code truncates each
Gaussian where the exponent exceeds 11.5; the model accepts anything between the truncated and the
untruncated sum.
"""
import math
import os
import re

import common
import ctl
from common import fnum, fl

KB = 0.001987191  # kcal/mol/K, "real" units (colvarproxy_system default)


class Var:
    def __init__(self, name, lo, hi, w, periodic=False, expand=False):
        self.name, self.lo, self.hi, self.w, self.periodic, self.expand = name, lo, hi, w, periodic, expand
        self.lo0, self.hi0 = lo, hi
        self.P = (hi - lo) if periodic else 0.0

    def wrap(self, v):
        if not self.periodic:
            return v
        c = 0.5 * (self.hi0 + self.lo0)
        return v - self.P * math.floor((v - c) / self.P + 0.5)

    def diff(self, x, c):
        d = x - c
        if self.periodic:
            d -= self.P * math.floor(d / self.P + 0.5)
        return d

    def bin(self, v):
        return int(math.floor((v - self.lo) / self.w))

    def nbins(self):
        return int(round((self.hi - self.lo) / self.w))

    def centre(self, b):
        return self.lo + (b + 0.5) * self.w


def gen_case(rng, idx, tier):
    nd = rng.choice([1, 1, 2, 2]) if tier == "quick" else rng.choice([1, 1, 2, 2, 3])
    grids = rng.random() < 0.75
    hf = rng.choice([1, 2, 3, 5, 7])
    gf = hf if (not grids or rng.random() < 0.6) else hf * rng.choice([2, 3])
    wt = rng.random() < 0.35
    expand = grids and rng.random() < 0.4
    periodic = (not expand) and rng.random() < 0.3
    hw = rng.choice([1.0, 2.0, 3.0]) if grids else rng.choice([1.0, 2.0, 2.5])
    W = rng.choice([0.25, 0.5, 1.0])
    T = 90 if tier == "quick" else 200
    vs = []
    names = ["d2", "d1", "d3"][:nd]
    # with expandBoundaries, each variable expands or not independently (at least one does): a variable with
    # fixed boundaries next to an expanding one still makes off-grid excursions
    exflags = [expand and rng.random() < 0.6 for _ in names]
    if expand and not any(exflags):
        exflags[rng.randrange(len(names))] = True
    for n, ex in zip(names, exflags):
        if n == "d1":
            vs.append(Var("d1", 2.0, 8.0, 0.5, False, ex))
        elif n == "d2":
            vs.append(Var("d2", -4.0, 4.0, 0.5, periodic, ex and not periodic))
        else:
            vs.append(Var("d3", -4.0, 4.0, 1.0, False, ex))
    hist = []
    for v in vs:
        if v.periodic:
            hist.append([ctl.dy(rng, -9.0, 9.0, 5) for _ in range(T + 1)])
        elif v.expand:
            # march out of the grid on both sides
            # tour() leaves its interval by up to 25% on both sides; a distance must stay positive
            hist.append(ctl.tour(rng, T, v.lo + 0.5, v.hi, bits=5) if v.name == "d1" else ctl.tour(rng, T, v.lo - 2.0, v.hi + 2.0, bits=5))
        else:
            hist.append(ctl.tour(rng, T, v.lo, v.hi, bits=5))
    # hard boundaries (the variable cannot cross them; hills near them need no analytic treatment): the history stays inside on
    # the hard side(s) and still leaves the grid through a soft one
    for v, hv in zip(vs, hist):
        v.hard = ""
        if not v.periodic and not v.expand and rng.random() < 0.35:
            v.hard = rng.choice(["lower", "upper", "both"])
            for t in range(len(hv)):
                if v.hard in ("lower", "both"):
                    hv[t] = max(hv[t], v.lo)
                if v.hard in ("upper", "both"):
                    hv[t] = min(hv[t], v.hi - 0.03125)
    runs = sorted(rng.sample(range(2, T - 1), 2)) if rng.random() < 0.5 else []
    # the job continues a long simulation: its first step is large (beyond 2^31 for some), the schedules count absolute steps
    start = rng.choice([0, 0, 0, 1000003, 2147483600, 6000000000])
    # a state written in the middle of the run (restart file, `cv save`): the hills still waiting are tabulated at that moment,
    # once; the run goes on
    save_at = rng.randint(5, T - 10) if (grids and rng.random() < 0.5) else None
    # without grids, half of the jobs stop at step K and are continued by a fresh module configured with ANOTHER hill width:
    # every hill keeps the widths it was deposited with (they are part of the state), new hills get the new ones
    resume = None
    if not grids and rng.random() < 0.5:
        resume = dict(K=rng.randint(10, T - 20), hw2=rng.choice([x for x in (1.0, 1.5, 2.0, 2.5, 3.0) if x != hw]))
    return dict(idx=idx, vs=vs, hist=hist, T=T, grids=grids, hf=hf, gf=gf, wt=wt, dT=rng.choice([1000.0, 3000.0]),
                hw=hw, W=W, keep=(grids and rng.random() < 0.3), runs=runs, start=start, save_at=save_at, resume=resume)


def config(case, hw=None):
    cfg = ""
    for v in case["vs"]:
        ex = "  expandBoundaries on\n" if v.expand else ""
        if getattr(v, "hard", "") in ("lower", "both"):
            ex += "  hardLowerBoundary on\n"
        if getattr(v, "hard", "") in ("upper", "both"):
            ex += "  hardUpperBoundary on\n"
        if v.name == "d1":
            cfg += ctl.cv_d1(v.lo0, v.hi0, v.w, extra=ex)
        elif v.name == "d2":
            cfg += ctl.cv_d2(v.lo0, v.hi0, v.w, extra=ex, cvc_extra=("    period 8.0\n" if v.periodic else ""))
        else:
            cfg += ctl.cv_d3(v.lo0, v.hi0, v.w, extra=ex)
    cfg += "metadynamics {\n  colvars %s\n  hillWeight %s\n  newHillFrequency %d\n  hillWidth %s\n" % (
        " ".join(v.name for v in case["vs"]), fnum(case["W"]), case["hf"], fnum(case["hw"] if hw is None else hw))
    if not case["grids"]:
        cfg += "  useGrids off\n"
    else:
        cfg += "  gridsUpdateFrequency %d\n" % case["gf"]
        if case["keep"]:
            cfg += "  keepHills on\n"
    if case["wt"]:
        cfg += "  wellTempered on\n  biasTemperature %s\n" % fnum(case["dT"])
    cfg += "}\n"
    return cfg


def scenario(case, part=None, state=None):
    """part None: the whole job; 1: steps 0..K of a job that is resumed; 2: the fresh module (other hill width) that loads `state`
    and computes steps K..T (step K again, as an engine does after a restart)"""
    rs = case.get("resume")
    s = ctl.header("off", extra="dt 1.0\ntemp 300.0")
    if part == 2:
        s += "emit atoms off\nkeeplog on\nmodule\nconfig <<EOC\n" + config(case, rs["hw2"]) + "EOC\ninit\nloadstr <<EOS\n" + state + ("" if state.endswith("\n") else "\n") + "EOS\n"
    else:
        s += "emit atoms off\nkeeplog on\nmodule\n" + ("setstep %d\n" % case["start"] if case.get("start") else "") + "config <<EOC\n" + config(case) + "EOC\ninit\n"
    t0 = rs["K"] if part == 2 else 0
    t1 = rs["K"] if part == 1 else case["T"]
    for t in range(t0, t1 + 1):
        kw = {v.name: h[t] for v, h in zip(case["vs"], case["hist"])}
        if t in case["runs"] and t > t0:
            s += "newrun\nstep\nmark repeat\n"
        s += ctl.pos_line(**kw) + "\nstep\n"
        if case.get("save_at") == t:
            s += "savestr\n"
    s += "savestr\n"
    return s


class Model:
    def __init__(self, case):
        self.case = case
        self.vs = [Var(v.name, v.lo0, v.hi0, v.w, v.periodic, v.expand) for v in case["vs"]]
        self.sig = [0.5 * case["hw"] * v.w for v in self.vs]
        self.hills = []       # dict(t, W, c=[...], tab=bool)
        self.minbuf = 3 * int(math.floor(case["hw"])) + 1
        self.expansions = 0

    def gauss(self, h, x):
        q = 0.0
        for v, xi, ci, s in zip(self.vs, x, h["c"], h["sig"]):
            d = v.diff(xi, ci)
            q += d * d / (s * s)
        return q

    def in_grid(self, x):
        if not self.case["grids"]:
            return False
        return all(0 <= v.bin(xi) < v.nbins() for v, xi in zip(self.vs, x))

    def eval(self, x):
        """returns (E_trunc, E_full, F_trunc list, F_full list, near_threshold)"""
        ing = self.in_grid(x)
        xc = [v.centre(v.bin(xi)) for v, xi in zip(self.vs, x)] if ing else None
        Et = Ef = 0.0
        nd = len(self.vs)
        Ft = [0.0] * nd
        Ff = [0.0] * nd
        amb = 0.0
        for h in self.hills:
            p = xc if (ing and h["tab"]) else x
            q = self.gauss(h, p)
            g = math.exp(-0.5 * q)
            e = h["W"] * g
            Ef += e
            for k, (v, s) in enumerate(zip(self.vs, h["sig"])):
                Ff[k] += e * v.diff(p[k], h["c"][k]) / (s * s)
            if q <= 23.0:
                Et += e
                for k, (v, s) in enumerate(zip(self.vs, h["sig"])):
                    Ft[k] += e * v.diff(p[k], h["c"][k]) / (s * s)
            if abs(q - 23.0) < 1e-9:
                amb += e
        return Et, Ef, Ft, Ff, amb

    def expand(self, x):
        for v, xi in zip(self.vs, x):
            if not v.expand:
                continue
            b = v.bin(xi)
            if b < self.minbuf:
                extra = self.minbuf - b
                v.lo -= extra * v.w
                b += extra
                self.expansions += 1
            n = v.nbins()
            if b > n - self.minbuf - 1:
                extra = b - (n - 1) + self.minbuf
                v.hi += extra * v.w
                self.expansions += 1

    def step(self, t, x, new_step, rel):
        c = self.case
        if c["grids"]:
            self.expand(x)
        deposited = False
        if new_step and rel > 0 and t % c["hf"] == 0:
            W = c["W"]
            if c["wt"]:
                Et, Ef, _, _, _ = self.eval(x)
                W = W * math.exp(-Et / (c["dT"] * KB))
                self.wt_V = (Et, Ef)
            self.hills.append(dict(t=t, W=W, c=list(x), tab=False, sig=list(self.sig)))
            deposited = True
        if c["grids"] and t % c["gf"] == 0:
            for h in self.hills:
                h["tab"] = True
        return deposited


def check_case(c, case, ev, sp):
    m = Model(case)
    key = "nd%d:%s:%s%s%s" % (len(case["vs"]), ("grids" if case["grids"] else "nogrids") + (":resumed_other_width" if case.get("resume") else ""),
                              "gf=hf" if case["gf"] == case["hf"] else "gf>hf", ":wt" if case["wt"] else "",
                              ":periodic" if case["vs"][0].periodic else (":expand" if any(v.expand for v in case["vs"]) else ""))
    evs = [e for e in ev if e["ev"] in ("step", "mark")]
    seq = []
    j = 0
    while j < len(evs):
        if evs[j]["ev"] == "step":
            rep = j + 1 < len(evs) and evs[j + 1]["ev"] == "mark"
            seq.append((evs[j], rep))
            j += 2 if rep else 1
        else:
            j += 1
    nhills = 0
    offgrid = 0
    pending_steps = 0
    resumed = False
    for e, rep in seq:
        t = e["it"]
        if case.get("resume") and not resumed and e.get("_part") == 2:
            # the fresh module: hills deposited from now on have the new widths; step K is computed again (no hill: relative step 0)
            resumed = True
            m.sig = [0.5 * case["resume"]["hw2"] * v.w for v in m.vs]
            if e["rel"] != 0 or t - case.get("start", 0) != case["resume"]["K"]:
                c.inconc("resumed part does not start with a repetition of step K (step %d, relative %d)" % (t, e["rel"]))
                return False
            c.bump("resumed_with_other_hill_width")
        x = [v.wrap(h[t - case.get("start", 0)]) for v, h in zip(m.vs, case["hist"])]
        for v, xi in zip(m.vs, x):
            if fl(e["cv"][v.name]["x"][0]) != xi:
                c.violation("value_not_imposed:" + key, "step %d %s" % (t, v.name), [sp])
                return False
        if m.step(t, x, not rep, e["rel"]):
            nhills += 1
        saved_now = (case.get("save_at") is not None and not rep and t - case.get("start", 0) == case["save_at"])
        if case["grids"] and not m.in_grid(x):
            offgrid += 1
        if any(not h["tab"] for h in m.hills) and case["grids"]:
            pending_steps += 1
        Et, Ef, Ft, Ff, amb = m.eval(x)
        b = e["bias"]["metadynamics1"]
        oe = fl(b["e"])
        lo, hi = min(Et, Ef), max(Et, Ef)
        tol = 1e-12 * max(1.0, abs(Ef)) + amb
        if not (lo - tol <= oe <= hi + tol):
            where = "in-grid" if m.in_grid(x) else ("off-grid" if case["grids"] else "no-grid")
            c.violation("energy:%s:%s" % (key, where),
                        "step %d (%s, %s): energy %.17g, hill sum in [%.17g, %.17g]; %d hills, %d pending" % (
                            t, "repeat" if rep else "new", where, oe, lo, hi, len(m.hills), sum(1 for h in m.hills if not h["tab"])),
                        [sp], payload={"config": config(case)})
            return False
        for k in range(len(m.vs)):
            of = fl(b["f"][k][0])
            lo, hi = min(Ft[k], Ff[k]), max(Ft[k], Ff[k])
            # truncation of a hill changes the force by at most W*exp(-11.5)*|d|/sigma^2
            tolf = 1e-12 * max(1.0, abs(Ff[k])) + amb * 10.0 / (m.sig[k])
            if not (lo - tolf <= of <= hi + tolf):
                where = "in-grid" if m.in_grid(x) else ("off-grid" if case["grids"] else "no-grid")
                c.violation("force:%s:%s" % (key, where),
                            "step %d var %s: force %.17g, hill sum in [%.17g, %.17g]" % (t, m.vs[k].name, of, lo, hi), [sp],
                            payload={"config": config(case)})
                return False
        if saved_now:
            for h in m.hills:
                h["tab"] = True
            c.bump("states_written_with_pending_hills" if pending_steps else "states_written_mid_run")
    # final state: number of hills kept / grid boundaries after expansion
    sv = [e for e in ev if e["ev"] == "savestr"]
    if sv:
        st = sv[-1]["state"]
        nh_state = len(re.findall(r"\bhill \{", st))
        if (not case["grids"] or case["keep"]) and nh_state != nhills:
            c.violation("hill_list:" + key, "state lists %d hills, schedule produced %d" % (nh_state, nhills), [sp])
            return False
    c.bump("hills_deposited", nhills)
    c.bump("offgrid_steps", offgrid)
    c.bump("steps_with_pending_hills", pending_steps)
    c.bump("grid_expansions", m.expansions)
    c.bump("steps_checked", len(seq))
    if nhills >= 8:
        c.nontrivial(key + ":hf%d:hw%s" % (case["hf"], case["hw"]))
    return True


def run(tier, replay):
    c = common.Check("C05", tier)
    c.use_flavour("plain")
    c.rule = ("imposed trajectories (with excursions beyond the grid, run boundaries) for 1-3 scalar variables; per step "
              "the bias energy and per-variable force must lie in the band spanned by the truncated and untruncated hill sum of "
              "the reference schedule; distinct = (dimension, grid mode, grid/hill frequency relation, well-tempered, "
              "periodic/expand, hill frequency, width) with >= 8 hills")
    c.assumptions = ["Boltzmann constant 0.001987191 kcal/mol/K (real units)",
                     "well-tempered height uses V = the bias at the deposition point evaluated like the energy (before the new hill)"]
    common.vbuild.ensure("plain", tools=["esim"])
    common.vbuild.ensure("asan", tools=["esim"])
    c.use_flavour("asan")
    n = 240 if tier == "quick" else 3000
    cases = [gen_case(c.rng, i, tier) for i in range(n)]

    def do(case):
        # every sixth case also runs under ASan+UBSan (reports are fatal)
        flav = "asan" if case["idx"] % 6 == 0 else "plain"
        wd = os.path.join(c.work, "c%d" % case["idx"])
        if not case.get("resume"):
            return common.run_esim(flav, scenario(case), wd, "meta", timeout=900)
        r1, ev1, sp1 = common.run_esim(flav, scenario(case, 1), wd, "meta_a", timeout=900)
        sv = [e for e in ev1 if e["ev"] == "savestr"]
        if not r1["complete"] or not sv:
            return r1, ev1, sp1
        r2, ev2, sp2 = common.run_esim(flav, scenario(case, 2, sv[-1]["state"]), wd, "meta_b", timeout=900)
        for e in ev2:
            e["_part"] = 2
        # the configuration event of the first part stands for both (the second is checked here)
        cfg2 = [e for e in ev2 if e["ev"] == "config"]
        if cfg2 and cfg2[0]["rc"] != 0:
            return r2, ev2, sp2
        return r2, ev1 + [e for e in ev2 if e["ev"] != "config"], sp2

    res = common.pmap(do, cases)
    for case, (r, ev, sp) in zip(cases, res):
        c.count()
        cfg = [e for e in ev if e["ev"] == "config"]
        if not r["complete"] or (cfg and cfg[0]["rc"] != 0):
            rep = common.sanitizer_report(r["err"])
            if rep:
                c.violation("sanitizer:" + common.colvars_frame(r["err"]), rep, [sp], payload={"config": config(case)})
            elif r["sig"]:
                c.violation("crash:%s" % ("grids" if case["grids"] else "nogrids") + (":wt" if case["wt"] else ""),
                            "signal %s: %s" % (r["sig"], r["err"][-300:]), [sp], payload={"config": config(case)})
            else:
                c.inconc("case failed: %s" % ((cfg[0]["errs"] if cfg else r["err"][-200:]),))
            continue
        if check_case(c, case, ev, sp):
            c.sample({"nd": len(case["vs"]), "grids": case["grids"], "newHillFrequency": case["hf"], "gridsUpdateFrequency": case["gf"],
                      "wellTempered": case["wt"], "hillWidth": case["hw"], "periodic": case["vs"][0].periodic,
                      "expand": any(v.expand for v in case["vs"]), "run_boundaries": case["runs"]})
    floor = (c.extra.get("hills_deposited", 0) >= 300 and c.extra.get("offgrid_steps", 0) >= 20 and len(c.distinct) >= 10)
    return c.finish(floor, "hills %s, off-grid %s" % (c.extra.get("hills_deposited"), c.extra.get("offgrid_steps")))
